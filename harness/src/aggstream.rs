//! Bucket-aggregation back ends (C07): every compiled back end through the hooks.

use crate::genstream::gen_buckets;
use crate::util::*;
use std::io::Write;
use tlsh::verif::bucket_aggregation as ba;

pub const BACKENDS: [&str; 5] = ["naive", "disp", "sse2", "ssse3", "avx2"];

pub fn aggregate(nb: usize, be: &str, b: &[u32], q1: u32, q2: u32, q3: u32) -> Option<Vec<u8>> {
    macro_rules! run {
        ($small:literal, $large:literal, $naive:ident, $disp:ident, $sse2:ident, $ssse3:ident, $avx2:ident) => {{
            let arr: &[u32; $large] = b.try_into().unwrap();
            let mut out = [0x5au8; $small];
            let ok = match be {
                "naive" => { ba::$naive(&mut out, arr, q1, q2, q3); true }
                "disp" => { ba::$disp(&mut out, arr, q1, q2, q3); true }
                "sse2" => ba::$sse2(&mut out, arr, q1, q2, q3),
                "ssse3" => ba::$ssse3(&mut out, arr, q1, q2, q3),
                "avx2" => ba::$avx2(&mut out, arr, q1, q2, q3),
                _ => false,
            };
            if ok { Some(out.to_vec()) } else { None }
        }};
    }
    match nb {
        48 => run!(12, 48, naive_48, dispatch_48, sse2_48, ssse3_48, avx2_48),
        128 => run!(32, 128, naive_128, dispatch_128, sse2_128, ssse3_128, avx2_128),
        _ => run!(64, 256, naive_256, dispatch_256, sse2_256, ssse3_256, avx2_256),
    }
}

/// `agg <nb> <backend> <q1> <q2> <q3> <buckets> => <body>`
pub fn stream_agg(out: &mut impl Write, seed: u64, budget: usize) {
    let mut rng = Rng::new(seed, 70);
    for i in 0..budget {
        let nb = [48usize, 128, 256][i % 3];
        let mut b = gen_buckets(&mut rng, nb, nb);
        // thresholds: sorted (as finalize guarantees), drawn from the buckets or arbitrary
        let mut q: Vec<u32> = (0..3)
            .map(|_| match rng.below(4) {
                0 => rng.next() as u32,
                1 => *rng.pick(&[0u32, 1, 0x7fff_ffff, 0x8000_0000, 0x8000_0001, u32::MAX, u32::MAX - 1]),
                _ => b[rng.below(nb as u64) as usize],
            })
            .collect();
        q.sort();
        // boundary values relative to the thresholds, and around the sign bit
        for _ in 0..rng.below(12) {
            let k = rng.below(nb as u64) as usize;
            let t = q[rng.below(3) as usize];
            b[k] = match rng.below(5) { 0 => t, 1 => t.wrapping_add(1), 2 => t.wrapping_sub(1), 3 => 0x8000_0000u32.wrapping_add(rng.range(0, 2) as u32).wrapping_sub(1), _ => u32::MAX };
        }
        for be in BACKENDS {
            if let Some(r) = aggregate(nb, be, &b, q[0], q[1], q[2]) {
                writeln!(out, "agg {} {} {} {} {} {} => {}", nb, be, q[0], q[1], q[2], hex_u32s(&b), hex(&r)).unwrap();
                // direct oracle (C07): equals the naive back end
                let n = aggregate(nb, "naive", &b, q[0], q[1], q[2]).unwrap();
                if r != n {
                    writeln!(out, "ORACLE C07 aggregation-backend-differs-from-naive agg {} {} {} {} {} {}", nb, be, q[0], q[1], q[2], hex_u32s(&b)).unwrap();
                }
            }
        }
    }
}
