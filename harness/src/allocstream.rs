//! Allocation counting (C18): a counting global allocator and the `alloc` stream.

use crate::genstream::{gen_data, options_from_bits};
use crate::codecstream::{hash_text, random_hash_bytes};
use crate::util::*;
use crate::with_variant;
use std::alloc::{GlobalAlloc, Layout, System};
use std::io::Write;
use std::sync::atomic::{AtomicUsize, Ordering};
use tlsh::generate::Generator;
use tlsh::{ComparisonConfiguration, FuzzyHashType, GeneratorType, HexStringPrefix};
use tlsh::hash::body::FuzzyHashBody;
use tlsh::hash::checksum::FuzzyHashChecksum;

pub const POISON: u8 = 0xAA;
const POISON_LIMIT: usize = 64 << 20;

pub struct Counting;
pub static ALLOCS: AtomicUsize = AtomicUsize::new(0);

unsafe impl GlobalAlloc for Counting {
    unsafe fn alloc(&self, l: Layout) -> *mut u8 {
        ALLOCS.fetch_add(1, Ordering::Relaxed);
        let p = System.alloc(l);
        // memory that is not requested zeroed is handed out poisoned (0xAA): code that reads it before
        // writing it then shows a visible, deterministic difference instead of "usually zero"
        if !cfg!(miri) && !p.is_null() && l.size() <= POISON_LIMIT { std::ptr::write_bytes(p, POISON, l.size()); }
        p
    }
    unsafe fn dealloc(&self, p: *mut u8, l: Layout) {
        System.dealloc(p, l)
    }
    unsafe fn realloc(&self, p: *mut u8, l: Layout, n: usize) -> *mut u8 {
        ALLOCS.fetch_add(1, Ordering::Relaxed);
        let q = System.realloc(p, l, n);
        if !cfg!(miri) && !q.is_null() && n > l.size() && n - l.size() <= POISON_LIMIT { std::ptr::write_bytes(q.add(l.size()), POISON, n - l.size()); }
        q
    }
    unsafe fn alloc_zeroed(&self, l: Layout) -> *mut u8 {
        ALLOCS.fetch_add(1, Ordering::Relaxed);
        System.alloc_zeroed(l)
    }
}

fn counted<R>(f: impl FnOnce() -> R) -> (usize, R) {
    let before = ALLOCS.load(Ordering::Relaxed);
    let r = f();
    let after = ALLOCS.load(Ordering::Relaxed);
    (after - before, r)
}

fn cnt(n: usize) -> String {
    if n == 0 { "0".to_string() } else { "pos".to_string() }
}

/// `alloc <op> <vi> <case> => 0|pos`
pub fn stream_alloc(out: &mut impl Write, seed: u64, budget: usize) {
    let mut rng = Rng::new(seed, 60);
    // the output sink may allocate: collect lines first, write afterwards
    let mut lines: Vec<String> = Vec::with_capacity(budget * 12 + 64);
    for i in 0..budget {
        let vi = i % 5;
        let len = if i % 7 == 0 { 70000 } else { rng.range(0, 700) as usize };
        let dist = rng.below(5);
        let data = gen_data(&mut rng, len, dist);
        let cut = rng.below(len as u64 + 1) as usize;
        let bin = random_hash_bytes(&mut rng, vi);
        let bin2 = random_hash_bytes(&mut rng, vi);
        let text = hash_text(vi, &bin, rng.chance(1, 2));
        let mut bad = text.clone();
        if !bad.is_empty() { let p = rng.below(bad.len() as u64) as usize; bad[p] = b'g'; }
        let mut buf = vec![0u8; variant_str_len(vi) + 8];
        let opts: Vec<tlsh::GeneratorOptions> = (0..32).map(options_from_bits).collect();
        with_variant!(vi, T => {
            let first = i < 5; // first use per variant includes one-time dispatch initialisation
            let (n, _) = counted(|| {
                let mut g = Generator::<T>::new();
                g.update(&data[..cut]);
                let _ = g.processed_len();
                g.update(&data[cut..]);
                for o in &opts { let _ = g.finalize_with_options(o); }
                let _ = g.finalize();
            });
            lines.push(format!("alloc generator {} {} => {}", vi, if first { "first" } else { "later" }, cnt(n)));
            let (n, _) = counted(|| {
                let _ = T::from_str_bytes(&text, None);
                let _ = T::from_str_bytes(&bad, None);
                let _ = T::from_str_bytes(&text[..text.len() / 2], None);
                let _ = T::try_from(&bin[..]);
                let _ = T::try_from(&bin[..bin.len() - 1]);
                if let Ok(s) = std::str::from_utf8(&text) { let _ = T::from_str_with(s, None); let _ = s.parse::<T>(); }
            });
            lines.push(format!("alloc parse {} {} => {}", vi, if first { "first" } else { "later" }, cnt(n)));
            if let (Ok(h), Ok(h2)) = (T::try_from(&bin[..]), T::try_from(&bin2[..])) {
                let (n, _) = counted(|| {
                    let _ = h.store_into_bytes(&mut buf);
                    let _ = h.store_into_str_bytes(&mut buf, HexStringPrefix::WithVersion);
                    let _ = h.store_into_str_bytes(&mut buf, HexStringPrefix::Empty);
                    let _ = h.store_into_bytes(&mut buf[..3]);
                });
                lines.push(format!("alloc store {} {} => {}", vi, if first { "first" } else { "later" }, cnt(n)));
                let (n, _) = counted(|| {
                    let _ = h.compare(&h2);
                    let _ = h.compare_with_config(&h2, ComparisonConfiguration::NoLength);
                    let _ = T::max_distance(ComparisonConfiguration::Default);
                });
                lines.push(format!("alloc compare {} {} => {}", vi, if first { "first" } else { "later" }, cnt(n)));
                let (n, _) = counted(|| {
                    let _ = h.checksum().data();
                    let _ = h.checksum().is_valid();
                    let _ = h.length().value();
                    let _ = h.length().range();
                    let _ = h.qratios().q1ratio();
                    let _ = h.body().quartile(T::NUMBER_OF_BUCKETS - 1);
                    let mut c = h.clone();
                    c.clear_checksum();
                });
                lines.push(format!("alloc accessors {} later => {}", vi, cnt(n)));
                // conveniences documented to allocate
                let (n, _) = counted(|| h.to_string());
                lines.push(format!("alloc to_string {} later => {}", vi, cnt(n)));
            }
            #[cfg(feature = "easy")]
            {
                let (n, _) = counted(|| { let _ = tlsh::hash_buf_for::<T>(&data); });
                lines.push(format!("alloc hash_buf {} later => {}", vi, cnt(n)));
                if let Ok(s) = std::str::from_utf8(&text) {
                    let (n, _) = counted(|| { let _ = tlsh::compare_with::<T>(s, s); });
                    lines.push(format!("alloc compare_easy {} later => {}", vi, cnt(n)));
                }
                let (n, _) = counted(|| { let mut r = &data[..]; let _ = tlsh::hash_stream_for::<T, _>(&mut r); });
                lines.push(format!("alloc hash_stream {} later => {}", vi, cnt(n)));
            }
        });
    }
    for l in lines {
        writeln!(out, "{}", l).unwrap();
    }
}
