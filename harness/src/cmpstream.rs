//! Comparison streams: whole-hash distances through the public API, body
//! distances through every compiled back end, exhaustive header tables.

use crate::codecstream::random_hash_bytes;
use crate::util::*;
use crate::with_variant;
use std::io::Write;
use tlsh::verif::compare as vc;
use tlsh::{ComparisonConfiguration, FuzzyHashType};

pub const BACKENDS: [&str; 6] = ["disp", "p32", "p64", "sse2", "sse41", "avx2"];

/// Body distance through one back end; `None` if it is not available.
pub fn body_dist(vi: usize, be: &str, a: &[u8], b: &[u8]) -> Option<u32> {
    let nb = VARIANT_BUCKETS[vi];
    macro_rules! arr {
        ($n:literal, $x:expr) => {{
            let r: &[u8; $n] = $x.try_into().unwrap();
            r
        }};
    }
    match nb {
        48 => {
            let (x, y) = (arr!(12, a), arr!(12, b));
            match be {
                "disp" => Some(vc::dist_body::dispatch_12(x, y)),
                "p32" => Some(vc::dist_body::pseudo32_12(x, y)),
                "p64" => Some(vc::dist_body::pseudo64_12(x, y)),
                _ => None,
            }
        }
        128 => {
            let (x, y) = (arr!(32, a), arr!(32, b));
            match be {
                "disp" => Some(vc::dist_body::dispatch_32(x, y)),
                "p32" => Some(vc::dist_body::pseudo32_32(x, y)),
                "p64" => Some(vc::dist_body::pseudo64_32(x, y)),
                "sse2" => vc::dist_body::sse2_32(x, y),
                "sse41" => vc::dist_body::sse4_1_32(x, y),
                "avx2" => vc::dist_body::avx2_32(x, y),
                _ => None,
            }
        }
        _ => {
            let (x, y) = (arr!(64, a), arr!(64, b));
            match be {
                "disp" => Some(vc::dist_body::dispatch_64(x, y)),
                "p32" => Some(vc::dist_body::pseudo32_64(x, y)),
                "p64" => Some(vc::dist_body::pseudo64_64(x, y)),
                "sse2" => vc::dist_body::sse2_64(x, y),
                "sse41" => vc::dist_body::sse4_1_64(x, y),
                "avx2" => vc::dist_body::avx2_64(x, y),
                _ => None,
            }
        }
    }
}

fn mode_of(m: u8) -> ComparisonConfiguration {
    if m == 0 { ComparisonConfiguration::Default } else { ComparisonConfiguration::NoLength }
}

/// `cmp <vi> <mode> <a> <b> => <d>` via the public API + the C08 laws as direct oracles
pub fn emit_cmp(out: &mut impl Write, vi: usize, a: &[u8], b: &[u8]) {
    with_variant!(vi, T => {
        let r = guarded(|| {
            let (ha, hb) = match (T::try_from(a), T::try_from(b)) { (Ok(x), Ok(y)) => (x, y), _ => return None };
            let d0 = ha.compare_with_config(&hb, mode_of(0));
            let d1 = ha.compare_with_config(&hb, mode_of(1));
            let mut laws: Vec<&str> = Vec::new();
            // `compare()` is an entry point of its own (it may be overridden separately from `compare_with_config`):
            // its value is C02's business, the laws on it are C08's
            let dc = ha.compare(&hb);
            if dc != d0 { laws.push("C02 compare-is-not-compare_with_config-in-default-mode"); }
            if ha.compare(&ha) != 0 || hb.compare(&hb) != 0 { laws.push("self-distance-nonzero(compare)"); }
            if hb.compare(&ha) != dc { laws.push("asymmetric(compare)"); }
            if dc > T::max_distance(mode_of(0)) { laws.push("exceeds-max-distance(compare)"); }
            if dc == 0 && a != b { laws.push("zero-distance-between-different-hashes(compare)"); }
            if ha.compare_with_config(&ha, mode_of(0)) != 0 || hb.compare_with_config(&hb, mode_of(1)) != 0 { laws.push("self-distance-nonzero"); }
            if hb.compare_with_config(&ha, mode_of(0)) != d0 || hb.compare_with_config(&ha, mode_of(1)) != d1 { laws.push("asymmetric"); }
            if d0 > T::max_distance(mode_of(0)) || d1 > T::max_distance(mode_of(1)) { laws.push("exceeds-max-distance"); }
            if d0 == 0 && a != b { laws.push("zero-distance-between-different-hashes"); }
            let ld = vc::dist_length(a[VARIANT_CKSUM[vi]], b[VARIANT_CKSUM[vi]]);
            if d0 != d1 + ld { laws.push("default-is-not-nolength-plus-length-distance"); }
            let (mut ca, mut cb) = (ha.clone(), hb.clone());
            ca.clear_checksum();
            cb.clear_checksum();
            let ckd = (0..VARIANT_CKSUM[vi]).filter(|&i| a[i] != b[i]).count() as u32;
            if ca.compare_with_config(&cb, mode_of(0)) + ckd != d0 || ca.compare_with_config(&cb, mode_of(1)) + ckd != d1 { laws.push("clear-checksum-law"); }
            Some((d0, d1, laws))
        });
        let head = format!("cmp {} {} {}", vi, hex(a), hex(b));
        match r {
            Ok(Some((d0, d1, laws))) => {
                writeln!(out, "{} => {} {}", head, d0, d1).unwrap();
                for l in laws {
                    if let Some(rest) = l.strip_prefix("C02 ") { writeln!(out, "ORACLE C02 {} {}", rest, head).unwrap(); }
                    else { writeln!(out, "ORACLE C08 {} {}", l, head).unwrap(); }
                }
            }
            Ok(None) => {}
            Err(()) => { writeln!(out, "{} => panic", head).unwrap(); writeln!(out, "ORACLE C08 compare-panicked {}", head).unwrap(); }
        }
    })
}

fn near(rng: &mut Rng, a: &[u8]) -> Vec<u8> {
    let mut b = a.to_vec();
    let k = rng.range(0, 6);
    for _ in 0..k {
        let i = rng.below(b.len() as u64) as usize;
        match rng.below(3) {
            0 => b[i] ^= 1 << rng.below(8),
            1 => b[i] = b[i].wrapping_add(rng.range(0, 2) as u8).wrapping_sub(1),
            _ => b[i] = rng.byte(),
        }
    }
    b
}

pub fn stream_cmp(out: &mut impl Write, seed: u64, budget: usize) {
    let mut rng = Rng::new(seed, 20);
    // witnesses of the maximum: bodies 00.. vs ff.., checksums differ, q ratios 0 vs 8, lengths 0 vs 128
    for vi in 0..5 {
        let n = variant_bin_len(vi);
        let cs = VARIANT_CKSUM[vi];
        let mut a = vec![0u8; n];
        let mut b = vec![0xffu8; n];
        for i in 0..cs { a[i] = 0; b[i] = 1; }
        a[cs] = 0; b[cs] = 128; a[cs + 1] = 0x00; b[cs + 1] = 0x88;
        emit_cmp(out, vi, &a, &b);
        emit_maxd(out, vi);
        // direct oracle (C08): the bound is attained by this pair, in both modes
        with_variant!(vi, T => {
            if let (Ok(ha), Ok(hb)) = (T::try_from(&a[..]), T::try_from(&b[..])) {
                for m in 0..2u8 {
                    if ha.compare_with_config(&hb, mode_of(m)) != T::max_distance(mode_of(m)) {
                        writeln!(out, "ORACLE C08 max-distance-not-attained-by-the-extreme-pair cmp {} {} {}", vi, hex(&a), hex(&b)).unwrap();
                    }
                }
            }
        });
    }
    for i in 0..budget {
        let vi = i % 5;
        let a = random_hash_bytes(&mut rng, vi);
        let b = match rng.below(4) { 0 => a.clone(), 1 | 2 => near(&mut rng, &a), _ => random_hash_bytes(&mut rng, vi) };
        emit_cmp(out, vi, &a, &b);
    }
}

pub fn emit_maxd(out: &mut impl Write, vi: usize) {
    with_variant!(vi, T => {
        writeln!(out, "maxd {} => {} {}", vi, T::max_distance(mode_of(0)), T::max_distance(mode_of(1))).unwrap();
    })
}

/// `bodyd <vi> <backend> <a> <b> => d`
pub fn stream_body(out: &mut impl Write, seed: u64, budget: usize) {
    let mut rng = Rng::new(seed, 21);
    for i in 0..budget {
        let vi = [0usize, 1, 3][i % 3];
        let n = VARIANT_BUCKETS[vi] / 4;
        let a = match rng.below(6) { 0 => vec![*rng.pick(&[0u8, 0x55, 0xaa, 0xff]); n], _ => rng.bytes(n) };
        let b = match rng.below(4) { 0 => a.clone(), 1 => near(&mut rng, &a), 2 => vec![*rng.pick(&[0u8, 0x55, 0xaa, 0xff]); n], _ => rng.bytes(n) };
        let mut seen: Vec<(&str, u32)> = Vec::new();
        for be in BACKENDS {
            if let Some(d) = body_dist(vi, be, &a, &b) {
                writeln!(out, "bodyd {} {} {} {} => {}", vi, be, hex(&a), hex(&b), d).unwrap();
                seen.push((be, d));
            }
        }
        // direct oracle (C07): every back end compiled into this binary gives the same distance
        if seen.iter().any(|x| x.1 != seen[0].1) {
            writeln!(out, "ORACLE C07 body-distance-backends-disagree bodyd {} {} {} => {}", vi, hex(&a), hex(&b),
                     seen.iter().map(|x| format!("{}={}", x.0, x.1)).collect::<Vec<_>>().join(",")).unwrap();
        }
    }
}

/// `bodyrow <vi> <backend> <pos> <aval> <bgA> <bgB> => d(b[pos]=0),…,d(b[pos]=255)`
/// `step`: every `step`-th position (offset by the seed) is swept.
pub fn stream_body_rows(out: &mut impl Write, seed: u64, step: usize) {
    let mut rng = Rng::new(seed, 22);
    let step = step.max(1);
    for vi in [0usize, 1, 3] {
        let n = VARIANT_BUCKETS[vi] / 4;
        let start = rng.below(step as u64) as usize;
        let mut pos = start;
        while pos < n {
            let bg_a = rng.bytes(n);
            let bg_b = if rng.chance(1, 2) { bg_a.clone() } else { rng.bytes(n) };
            for be in BACKENDS {
                if body_dist(vi, be, &bg_a, &bg_b).is_none() { continue; }
                for aval in 0..=255u8 {
                    let mut a = bg_a.clone();
                    a[pos] = aval;
                    let mut b = bg_b.clone();
                    let ds: Vec<u32> = (0..=255u8).map(|bv| { b[pos] = bv; body_dist(vi, be, &a, &b).unwrap() }).collect();
                    writeln!(out, "bodyrow {} {} {} {} {} {} => {}", vi, be, pos, aval, hex(&bg_a), hex(&bg_b), join(&ds, ",")).unwrap();
                }
            }
            pos += step;
        }
    }
}

/// Exhaustive header tables: `hdr len <x> => d(x,0..255)`, `hdr qr <x> => …`, `hdr ring <n> <x> => …`
pub fn stream_hdr(out: &mut impl Write) {
    for x in 0..=255u8 {
        let l: Vec<u32> = (0..=255u8).map(|y| vc::dist_length(x, y)).collect();
        writeln!(out, "hdr len {} => {}", x, join(&l, ",")).unwrap();
        let q: Vec<u32> = (0..=255u8).map(|y| vc::dist_qratios(x, y)).collect();
        writeln!(out, "hdr qr {} => {}", x, join(&q, ",")).unwrap();
        let r0: Vec<u8> = (0..=255u8).map(|y| vc::distance_on_ring_mod(x, y, 0)).collect();
        writeln!(out, "hdr ring0 {} => {}", x, join(&r0, ",")).unwrap();
        if x < 16 {
            let r16: Vec<u8> = (0..16u8).map(|y| vc::distance_on_ring_mod(x, y, 16)).collect();
            writeln!(out, "hdr ring16 {} => {}", x, join(&r16, ",")).unwrap();
        }
        let c1: Vec<u32> = (0..=255u8).map(|y| vc::dist_checksum_1([x], [y])).collect();
        writeln!(out, "hdr ck1 {} => {}", x, join(&c1, ",")).unwrap();
    }
    let mut rng = Rng::new(0, 23);
    for _ in 0..2000 {
        let a = [rng.byte(), rng.byte(), rng.byte()];
        let mut b = a;
        for k in 0..3 { if rng.chance(1, 2) { b[k] = rng.byte(); } }
        writeln!(out, "hdr ck3 {} {} => {}", hex(&a), hex(&b), vc::dist_checksum_3(a, b)).unwrap();
    }
}
