//! Codec streams: text parsing, formatting, binary form, buffers, accessors.

use crate::util::*;
use crate::with_variant;
use std::io::Write;
use std::str::FromStr;
use tlsh::{FuzzyHashType, HexStringPrefix};
use tlsh::hash::body::FuzzyHashBody;
use tlsh::hash::checksum::FuzzyHashChecksum;

pub fn parse_err_str(e: tlsh::ParseError) -> String {
    format!("err:{:?}", e)
}

fn mode_of(m: char) -> Option<HexStringPrefix> {
    match m {
        'n' => None,
        'e' => Some(HexStringPrefix::Empty),
        _ => Some(HexStringPrefix::WithVersion),
    }
}

pub fn hash_bin<T: FuzzyHashType>(h: &T, bin_len: usize) -> String {
    let mut buf = vec![0u8; bin_len];
    h.store_into_bytes(&mut buf).unwrap();
    hex(&buf)
}

/// `parse <vi> <mode> <bytes> => ok:<bin>|err:<E>|panic`
pub fn emit_parse(out: &mut impl Write, vi: usize, mode: char, bytes: &[u8]) {
    let bin_len = variant_bin_len(vi);
    with_variant!(vi, T => {
        let r = guarded(|| {
            let r = T::from_str_bytes(bytes, mode_of(mode));
            let s = match &r { Ok(h) => format!("ok:{}", hash_bin(h, bin_len)), Err(e) => parse_err_str(*e) };
            // other entry points must agree (valid UTF-8 only)
            let mut agree = true;
            // direct oracle (C04): whatever ANY entry point accepts re-formats to "T1" + upper(its own digits)
            let mut canonical = true;
            let mut accepted: Vec<T> = Vec::new();
            if let Ok(h) = &r { accepted.push(h.clone()); }
            if let Ok(st) = std::str::from_utf8(bytes) {
                let r2 = T::from_str_with(st, mode_of(mode));
                agree &= r2 == r;
                if let Ok(h) = r2 { accepted.push(h); }
                if mode == 'n' {
                    let r3 = T::from_str(st);
                    agree &= r3 == r;
                    if let Ok(h) = r3 { accepted.push(h); }
                    agree &= st.parse::<T>() == r;
                }
            }
            for h in &accepted {
                let mut buf = vec![0u8; 2 * bin_len + 2];
                let n = h.store_into_str_bytes(&mut buf, HexStringPrefix::WithVersion).unwrap();
                let digits: &[u8] = if bytes.starts_with(b"T1") && bytes.len() == 2 * bin_len + 2 { &bytes[2..] } else { bytes };
                let want: Vec<u8> = b"T1".iter().copied().chain(digits.iter().map(|c| c.to_ascii_uppercase())).collect();
                canonical &= buf[..n] == want[..];
            }
            (s, agree, canonical)
        });
        let head = format!("parse {} {} {}", vi, mode, hex(bytes));
        match r {
            Ok((s, agree, canonical)) => {
                writeln!(out, "{} => {}", head, s).unwrap();
                if !agree {
                    writeln!(out, "ORACLE C05 parse-entry-points-disagree {}", head).unwrap();
                }
                if !canonical {
                    writeln!(out, "ORACLE C04 accepted-string-does-not-re-format-to-its-own-upper-case-form {}", head).unwrap();
                }
            }
            Err(()) => {
                writeln!(out, "{} => panic", head).unwrap();
                writeln!(out, "ORACLE C05 parser-panicked {}", head).unwrap();
            }
        }
    })
}

pub fn random_hash_bytes(rng: &mut Rng, vi: usize) -> Vec<u8> {
    let n = variant_bin_len(vi);
    match rng.below(8) {
        0 => vec![0u8; n],
        1 => vec![0xffu8; n],
        2 => {
            let b = *rng.pick(&[0x00u8, 0x55, 0xaa, 0xff, 0x1b, 0xe4]);
            let mut v = vec![b; n];
            let i = rng.below(n as u64) as usize;
            v[i] = rng.byte();
            v
        }
        _ => rng.bytes(n),
    }
}

/// The canonical text of the hash with these bytes, written out here (not through the library, so that the
/// generated inputs do not depend on the library under test or on its build configuration): header bytes
/// nibble-swapped, body bytes plain, upper-case digits.
pub fn hash_text(vi: usize, bin: &[u8], with_prefix: bool) -> Vec<u8> {
    let cs = VARIANT_CKSUM[vi];
    let hexd = b"0123456789ABCDEF";
    let mut v = if with_prefix { b"T1".to_vec() } else { Vec::new() };
    for (i, &b) in bin.iter().enumerate() {
        if i < cs + 2 {
            v.push(hexd[(b & 15) as usize]);
            v.push(hexd[(b >> 4) as usize]);
        } else {
            v.push(hexd[(b >> 4) as usize]);
            v.push(hexd[(b & 15) as usize]);
        }
    }
    v
}

pub fn stream_parse(out: &mut impl Write, seed: u64, budget: usize) {
    let mut rng = Rng::new(seed, 10);
    let interesting: [u8; 44] = [
        b'+', b'-', b'.', b',',
        0, 1, b'/', b'0', b'1', b'9', b':', b'@', b'A', b'B', b'F', b'G', b'T', b'Z', b'[', b'`', b'a', b'f', b'g',
        b't', b'z', b'{', 0x7f, 0x80, 0xb0, 0xc1, 0xe9, 0xff, b' ', b'-', b'_', b'x', b'X', b'O', b'o', b'l', b'I',
        0x10, 0x30 + 0x80, 0x41 + 0x80,
    ];
    for i in 0..budget {
        let vi = i % 5;
        let mode = *rng.pick(&['n', 'n', 'e', 'w']);
        let bin = random_hash_bytes(&mut rng, vi);
        let with_prefix = match mode { 'e' => false, 'w' => true, _ => rng.chance(1, 2) };
        let mut s = hash_text(vi, &bin, with_prefix);
        match rng.below(19) {
            16 => {
                // a valid text decorated the way text files decorate it: whitespace before / after (a &str
                // entry point that normalises its input would accept it; the byte parser must not)
                let ws: &[&[u8]] = &[b" ", b"\n", b"\r\n", b"\t", "\u{a0}".as_bytes(), "\u{3000}".as_bytes(), b"\0", b"\x0c"];
                let w = *rng.pick(ws);
                match rng.below(3) { 0 => { let mut t = w.to_vec(); t.extend_from_slice(&s); s = t; } 1 => s.extend_from_slice(w), _ => { let mut t = w.to_vec(); t.extend_from_slice(&s); t.extend_from_slice(w); s = t; } }
            }
            17 | 18 => {
                // a multi-byte character over as many bytes (the byte length stays right); half of the time
                // at the very start, where &str-based prefix handling would slice inside it
                let ch: &str = *rng.pick(&["é", "€", "日", "😀", "\u{a0}"]);
                let p = if rng.chance(1, 2) { rng.below(3) as usize } else { rng.below(s.len() as u64) as usize };
                let p = p.min(s.len());
                let mut t = s[..p].to_vec(); t.extend_from_slice(ch.as_bytes()); t.extend_from_slice(&s[(p + ch.len()).min(s.len())..]); s = t;
            }
            0 | 1 => {}
            2 => { for c in s.iter_mut() { if rng.chance(1, 2) { *c = c.to_ascii_lowercase(); } } }
            3 | 4 | 5 | 6 => {
                // one position set to an arbitrary / interesting byte
                let p = rng.below(s.len() as u64) as usize;
                s[p] = if rng.chance(1, 2) { *rng.pick(&interesting) } else { rng.byte() };
            }
            7 => {
                // wrong length
                let l = rng.range(0, (2 * variant_str_len(vi) + 2) as u64) as usize;
                if l < s.len() { s.truncate(l); } else { while s.len() < l { s.push(*rng.pick(b"0123456789ABCDEFabcdef")); } }
            }
            8 => {
                // off-by-a-few length
                let d = rng.range(1, 3) as usize;
                if rng.chance(1, 2) { s.truncate(s.len().saturating_sub(d)); } else { for _ in 0..d { s.push(b'0'); } }
            }
            9 => {
                // prefix tampering
                if s.len() >= 2 { let t = *rng.pick(&[*b"T0", *b"t1", *b"T2", *b"1T", *b"TT", *b"00", *b"T\x00"]); s[0] = t[0]; s[1] = t[1]; }
            }
            10 => {
                // the other prefix mode's text under this mode
                s = hash_text(vi, &bin, !with_prefix);
            }
            11 => { let l = s.len(); s = rng.bytes(l); }
            12 => {
                // two defects: prefix and a bad digit (error precedence)
                if s.len() > 4 { s[0] = b'X'; let p = rng.range(2, s.len() as u64 - 1) as usize; s[p] = b'g'; }
            }
            13 => {
                // header tampering (strict parser): checksum / length code digits
                let off = if with_prefix { 2 } else { 0 };
                let p = off + rng.below((VARIANT_CKSUM[vi] * 2 + 2) as u64) as usize;
                if p < s.len() { s[p] = *rng.pick(b"0123456789ABCDEF"); }
            }
            14 => {
                // bad digit in each field region
                let off = if with_prefix { 2 } else { 0 };
                let regions = [0usize, VARIANT_CKSUM[vi] * 2, VARIANT_CKSUM[vi] * 2 + 2, VARIANT_CKSUM[vi] * 2 + 4, s.len().saturating_sub(off + 1)];
                let p = off + *rng.pick(&regions);
                if p < s.len() { s[p] = *rng.pick(&interesting); }
            }
            _ => {
                if rng.chance(1, 2) {
                    for c in s.iter_mut() { *c = c.to_ascii_lowercase(); }
                } else {
                    // several corrupted positions, often adjacent
                    let k = rng.range(2, 4) as usize;
                    let p0 = rng.below(s.len() as u64) as usize;
                    for j in 0..k {
                        let p = if rng.chance(2, 3) { (p0 + j).min(s.len() - 1) } else { rng.below(s.len() as u64) as usize };
                        s[p] = *rng.pick(&interesting);
                    }
                }
            }
        }
        emit_parse(out, vi, mode, &s);
    }
}

/// Exhaustive: one valid text per variant and prefix, every position × every byte value.
pub fn stream_parse_sweep(out: &mut impl Write, seed: u64, step: usize) {
    let mut rng = Rng::new(seed, 11);
    let step = step.max(1);
    for vi in 0..5 {
        for (mode, with_prefix) in [('n', true), ('n', false), ('e', false), ('w', true)] {
            let bin = rng.bytes(variant_bin_len(vi));
            let base = hash_text(vi, &bin, with_prefix);
            let start = rng.below(step as u64) as usize;
            // every header position (prefix, checksum, length, Q ratios: decoded by other code than the
            // body) and the first body pair always; the body at every `step`-th position
            let header = (if with_prefix { 2 } else { 0 }) + 2 * (variant_bin_len(vi) - VARIANT_BUCKETS[vi] / 4) + 2;
            let mut positions: Vec<usize> = (0..header.min(base.len())).collect();
            let mut p = start;
            while p < base.len() { if p >= header { positions.push(p); } p += step; }
            for p in positions {
                for b in 0..=255u8 {
                    let mut s = base.clone();
                    s[p] = b;
                    emit_parse(out, vi, mode, &s);
                }
                // two positions at once: the aligned digit pair containing p, over a grid of
                // interesting byte values (both invalid, one invalid, case mixes)
                let grid: [u8; 14] = [b'0', b'9', b'A', b'f', b'g', b'G', b'@', b'/', b':', 0x00, 0x80, 0xff, b'+', b'-'];
                let off = if with_prefix { 2 } else { 0 };
                if p >= off {
                    let q = off + ((p - off) & !1);
                    if q + 1 < base.len() {
                        for &c1 in &grid {
                            for &c2 in &grid {
                                let mut s = base.clone();
                                s[q] = c1;
                                s[q + 1] = c2;
                                emit_parse(out, vi, mode, &s);
                            }
                        }
                    }
                }
            }
        }
    }
}

/// `fmt <vi> <bin> => <text with prefix> <text without>` + round-trip oracles
pub fn emit_fmt(out: &mut impl Write, vi: usize, bin: &[u8]) {
    with_variant!(vi, T => {
        let r = guarded(|| {
            let h = match T::try_from(bin) { Ok(h) => h, Err(e) => return Err(parse_err_str(e)) };
            let mut b1 = vec![0u8; variant_str_len(vi)];
            let n1 = h.store_into_str_bytes(&mut b1, HexStringPrefix::WithVersion).unwrap();
            let mut b2 = vec![0u8; variant_str_len(vi)];
            let n2 = h.store_into_str_bytes(&mut b2, HexStringPrefix::Empty).unwrap();
            b2.truncate(n2);
            let disp = format!("{}", h);
            let tos = h.to_string();
            let mut ok = n1 == variant_str_len(vi) && n2 + 2 == n1;
            ok &= disp.as_bytes() == &b1[..] && tos == disp;
            // Display writes exactly the text whatever the format spec says (width, fill, alignment, precision):
            // "the text is always exactly the advertised length"
            ok &= format!("{:>200}", h) == disp && format!("{:<10}", h) == disp && format!("{:*^150}", h) == disp
                && format!("{:.8}", h) == disp && format!("{:08}", h) == disp && format!("{:.0}", h) == disp;
            // round trips through every parse entry point
            let hh = Some(&h);
            ok &= T::from_str(&disp).ok().as_ref() == hh;
            ok &= T::from_str_with(&disp, None).ok().as_ref() == hh;
            ok &= T::from_str_with(&disp, Some(HexStringPrefix::WithVersion)).ok().as_ref() == hh;
            ok &= T::from_str_bytes(&b1, None).ok().as_ref() == hh;
            ok &= T::from_str_bytes(&b1, Some(HexStringPrefix::WithVersion)).ok().as_ref() == hh;
            ok &= T::from_str_bytes(&b2, None).ok().as_ref() == hh;
            ok &= T::from_str_bytes(&b2, Some(HexStringPrefix::Empty)).ok().as_ref() == hh;
            ok &= T::from_str_bytes(&b1.to_ascii_lowercase()[..], Some(HexStringPrefix::WithVersion)).is_err(); // "t1" prefix
            let mut lower = b1.clone();
            for c in lower[2..].iter_mut() { *c = c.to_ascii_lowercase(); }
            ok &= T::from_str_bytes(&lower, None).ok().as_ref() == hh;
            // canonical: only upper-case hex after the prefix
            ok &= b1[2..].iter().all(|c| c.is_ascii_digit() || (b'A'..=b'F').contains(c)) && &b1[..2] == b"T1";
            Ok((hex(&b1), hex(&b2), ok))
        });
        let head = format!("fmt {} {}", vi, hex(bin));
        match r {
            Ok(Ok((a, b, ok))) => {
                writeln!(out, "{} => {} {}", head, a, b).unwrap();
                if !ok { writeln!(out, "ORACLE C04 format-parse-round-trip-or-canonical-form {}", head).unwrap(); }
            }
            Ok(Err(e)) => writeln!(out, "{} => {}", head, e).unwrap(),
            Err(()) => { writeln!(out, "{} => panic", head).unwrap(); writeln!(out, "ORACLE C04 format-panicked {}", head).unwrap(); }
        }
    })
}

pub fn stream_fmt(out: &mut impl Write, seed: u64, budget: usize) {
    let mut rng = Rng::new(seed, 12);
    // every byte value in every header position once, and in two body positions
    for vi in 0..5 {
        let n = variant_bin_len(vi);
        for pos in (0..VARIANT_CKSUM[vi] + 2).chain([VARIANT_CKSUM[vi] + 2, n - 1]) {
            let base = rng.bytes(n);
            for b in 0..=255u8 {
                let mut v = base.clone();
                v[pos] = b;
                emit_fmt(out, vi, &v);
            }
        }
    }
    for i in 0..budget {
        let vi = i % 5;
        let bin = random_hash_bytes(&mut rng, vi);
        emit_fmt(out, vi, &bin);
    }
}

/// `frombin <vi> <kind> <bytes> => ok:<bin>|err|panic`   kind: a = &[u8; N], s = &[u8]
pub fn emit_frombin(out: &mut impl Write, vi: usize, bytes: &[u8]) {
    let bin_len = variant_bin_len(vi);
    macro_rules! arr_try {
        ($T:ty, $n:literal) => {{
            if bytes.len() == $n {
                let a: &[u8; $n] = bytes.try_into().unwrap();
                Some(<$T>::try_from(a))
            } else {
                None
            }
        }};
    }
    let r = guarded(|| {
        let (rs, ra) = match vi {
            0 => (tlsh::hashes::Short::try_from(bytes).map(|h| hash_bin(&h, bin_len)), arr_try!(tlsh::hashes::Short, 15).map(|r| r.map(|h| hash_bin(&h, bin_len)))),
            1 => (tlsh::hashes::Normal::try_from(bytes).map(|h| hash_bin(&h, bin_len)), arr_try!(tlsh::hashes::Normal, 35).map(|r| r.map(|h| hash_bin(&h, bin_len)))),
            2 => (tlsh::hashes::NormalWithLongChecksum::try_from(bytes).map(|h| hash_bin(&h, bin_len)), arr_try!(tlsh::hashes::NormalWithLongChecksum, 37).map(|r| r.map(|h| hash_bin(&h, bin_len)))),
            3 => (tlsh::hashes::Long::try_from(bytes).map(|h| hash_bin(&h, bin_len)), arr_try!(tlsh::hashes::Long, 67).map(|r| r.map(|h| hash_bin(&h, bin_len)))),
            _ => (tlsh::hashes::LongWithLongChecksum::try_from(bytes).map(|h| hash_bin(&h, bin_len)), arr_try!(tlsh::hashes::LongWithLongChecksum, 69).map(|r| r.map(|h| hash_bin(&h, bin_len)))),
        };
        let f = |r: Result<String, tlsh::ParseError>| match r { Ok(s) => format!("ok:{}", s), Err(e) => parse_err_str(e) };
        (f(rs), ra.map(f))
    });
    let head = format!("frombin {} {}", vi, hex(bytes));
    match r {
        Ok((s, a)) => {
            writeln!(out, "{} s => {}", head, s).unwrap();
            if let Some(a) = &a { writeln!(out, "{} a => {}", head, a).unwrap(); }
            // direct oracle (C06): a hash value obtained through the TEXT parser of this build stores to these
            // bytes and converts back from them (slice and array) to the identical hash
            if bytes.len() == bin_len {
                let text = hash_text(vi, bytes, true);
                let via_text: Option<String> = with_variant!(vi, T => T::from_str_bytes(&text, None).ok().map(|h| hash_bin(&h, bin_len)));
                if let Some(t) = via_text {
                    let want = format!("ok:{}", t);
                    if t != hex(bytes) || s != want || a.as_deref().map(|x| x != want).unwrap_or(false) {
                        writeln!(out, "ORACLE C06 binary-form-does-not-round-trip-a-hash-the-text-parser-accepts {}", head).unwrap();
                    }
                }
            }
        }
        Err(()) => { writeln!(out, "{} s => panic", head).unwrap(); writeln!(out, "ORACLE C06 try-from-panicked {}", head).unwrap(); }
    }
}

pub fn stream_frombin(out: &mut impl Write, seed: u64, budget: usize) {
    let mut rng = Rng::new(seed, 13);
    for vi in 0..5 {
        // every length 0..=N+8
        for l in 0..=variant_bin_len(vi) + 8 {
            let b = rng.bytes(l);
            emit_frombin(out, vi, &b);
        }
        // header bytes swept (strict parser): checksum byte 0 and length code
        for pos in [0usize, VARIANT_CKSUM[vi]] {
            let base = rng.bytes(variant_bin_len(vi));
            for b in 0..=255u8 {
                let mut v = base.clone();
                v[pos] = b;
                emit_frombin(out, vi, &v);
            }
        }
    }
    for i in 0..budget {
        let vi = i % 5;
        let b = random_hash_bytes(&mut rng, vi);
        emit_frombin(out, vi, &b);
    }
}

/// `store <vi> <form> <L> <fill> <bin> => <ret> <buffer after>`   form: b / e / w
pub fn emit_store(out: &mut impl Write, vi: usize, form: char, l: usize, fill: u8, bin: &[u8]) {
    with_variant!(vi, T => {
        let r = guarded(|| {
            let h = match T::try_from(bin) { Ok(h) => h, Err(e) => return Err(parse_err_str(e)) };
            // sentinel pattern: fill, fill+1, ...
            let mut buf: Vec<u8> = (0..l).map(|i| fill.wrapping_add((i * 7) as u8)).collect();
            let before = buf.clone();
            let ret = match form {
                'b' => h.store_into_bytes(&mut buf),
                'e' => h.store_into_str_bytes(&mut buf, HexStringPrefix::Empty),
                _ => h.store_into_str_bytes(&mut buf, HexStringPrefix::WithVersion),
            };
            let n = match form { 'b' => variant_bin_len(vi), 'e' => variant_str_len(vi) - 2, _ => variant_str_len(vi) };
            // direct oracle (C14)
            let ok = match &ret {
                Err(_) => l < n && buf == before,
                Ok(k) => l >= n && *k == n && buf[n..] == before[n..],
            };
            let rs = match ret { Ok(k) => format!("ok:{}", k), Err(e) => format!("err:{:?}", e) };
            Ok((rs, hex(&buf), ok))
        });
        let head = format!("store {} {} {} {} {}", vi, form, l, fill, hex(bin));
        match r {
            Ok(Ok((rs, b, ok))) => {
                writeln!(out, "{} => {} {}", head, rs, b).unwrap();
                if !ok { writeln!(out, "ORACLE C14 buffer-contract {}", head).unwrap(); }
            }
            Ok(Err(e)) => writeln!(out, "{} => {}", head, e).unwrap(),
            Err(()) => { writeln!(out, "{} => panic", head).unwrap(); writeln!(out, "ORACLE C14 store-panicked {}", head).unwrap(); }
        }
    })
}

pub fn stream_store(out: &mut impl Write, seed: u64, budget: usize) {
    let mut rng = Rng::new(seed, 14);
    for vi in 0..5 {
        for form in ['b', 'e', 'w'] {
            let n = match form { 'b' => variant_bin_len(vi), 'e' => variant_str_len(vi) - 2, _ => variant_str_len(vi) };
            for rep in 0..budget.max(1) {
                let bin = random_hash_bytes(&mut rng, vi);
                let fill = rng.byte();
                if rep == 0 {
                    for l in 0..=n + 64 { emit_store(out, vi, form, l, fill, &bin); }
                } else {
                    // around the boundary and a few random lengths
                    for l in [n.saturating_sub(1), n, n + 1, rng.range(0, (n + 64) as u64) as usize] {
                        emit_store(out, vi, form, l, fill, &bin);
                    }
                }
            }
        }
    }
}

/// `acc <vi> <bin> => <checksum> <lvalue> <qratios> <q1> <q2> <body> <quartiles as digits> <out-of-range: panic|ok> <clear: bin>`
pub fn emit_acc(out: &mut impl Write, vi: usize, bin: &[u8]) {
    let bin_len = variant_bin_len(vi);
    with_variant!(vi, T => {
        let r = guarded(|| {
            let h = match T::try_from(bin) { Ok(h) => h, Err(e) => return Err(parse_err_str(e)) };
            let ck = hex(h.checksum().data());
            let lv = h.length().value();
            let qr = h.qratios().value();
            let q1 = h.qratios().q1ratio();
            let q2 = h.qratios().q2ratio();
            let body = hex(h.body().data());
            let nb = T::NUMBER_OF_BUCKETS;
            let quart: String = (0..nb).map(|i| char::from(b'0' + h.body().quartile(i))).collect();
            let oob = match guarded(|| h.body().quartile(nb)) { Ok(_) => "ok", Err(()) => "panic" };
            let oob2 = match guarded(|| h.body().quartile(usize::MAX)) { Ok(_) => "ok", Err(()) => "panic" };
            let mut c = h.clone();
            c.clear_checksum();
            let cl = hash_bin(&c, bin_len);
            let valid = format!("{}{}", h.checksum().is_valid() as u8, h.length().is_valid() as u8);
            Ok(format!("{} {} {} {} {} {} {} {}{} {} {}", ck, lv, qr, q1, q2, body, quart, oob, oob2, cl, valid))
        });
        let head = format!("acc {} {}", vi, hex(bin));
        match r {
            Ok(Ok(s)) => writeln!(out, "{} => {}", head, s).unwrap(),
            Ok(Err(e)) => writeln!(out, "{} => {}", head, e).unwrap(),
            Err(()) => { writeln!(out, "{} => panic", head).unwrap(); writeln!(out, "ORACLE C06 accessor-panicked {}", head).unwrap(); }
        }
    })
}

pub fn stream_acc(out: &mut impl Write, seed: u64, budget: usize) {
    let mut rng = Rng::new(seed, 15);
    // Q-ratio byte swept exhaustively (bitfield packing)
    for vi in 0..5 {
        let base = rng.bytes(variant_bin_len(vi));
        for b in 0..=255u8 {
            let mut v = base.clone();
            v[VARIANT_CKSUM[vi] + 1] = b;
            emit_acc(out, vi, &v);
        }
    }
    for i in 0..budget {
        let vi = i % 5;
        let b = random_hash_bytes(&mut rng, vi);
        emit_acc(out, vi, &b);
    }
}
