//! Convenience-function streams: hash_stream / hash_file with scripted readers
//! (C12, C17), compare / compare_with (C13).

use crate::codecstream::{hash_text, random_hash_bytes};
use crate::genstream::gen_data;
use crate::util::*;
use crate::with_variant;
use std::io::{Read, Write};
use tlsh::FuzzyHashType;

pub fn pattern(seed: u64, len: usize) -> Vec<u8> {
    (0..len).map(|i| ((seed as usize + i * 31 + (i >> 8) * 7) & 0xff) as u8).collect()
}

#[derive(Clone)]
pub enum Ev {
    Deliver(Vec<u8>),
    Pattern(u64, usize),
    Interrupted,
    Error(std::io::ErrorKind),
    Zero,
    Lie(usize),
}

pub fn ev_str(e: &Ev) -> String {
    match e {
        Ev::Deliver(b) => format!("d:{}", hex(b)),
        Ev::Pattern(s, l) => format!("p:{}:{}", s, l),
        Ev::Interrupted => "i".to_string(),
        Ev::Error(k) => format!("e:{:?}", k),
        Ev::Zero => "z".to_string(),
        Ev::Lie(n) => format!("l:{}", n),
    }
}

pub struct ScriptReader {
    pub script: Vec<Ev>,
    pub pos: usize,
    pub delivered: Vec<u8>,
    pub hard_error: Option<std::io::ErrorKind>,
    pub ended: bool,
}

thread_local! {
    /// set when a reader is handed a buffer whose never-written part holds allocator poison (C17)
    pub static SAW_POISON: std::cell::Cell<bool> = std::cell::Cell::new(false);
    /// how far into the buffer this thread's current reader has written so far
    static HIGH_WATER: std::cell::Cell<usize> = std::cell::Cell::new(0);
}

/// A `Read` implementation may look at the buffer it is given.  The part it has never written must be
/// initialised memory; the probe's allocator poisons memory that was not requested zeroed, so a run of
/// poison bytes there means the library handed out uninitialised memory.
fn inspect_buffer(buf: &[u8], about_to_write: usize) {
    if cfg!(miri) { return; }   // the interpreter reports reads of uninitialised memory itself
    let hw = HIGH_WATER.with(|h| h.get());
    if buf.len() > hw {
        let fresh = &buf[hw..];
        let mut run = 0usize;
        for &b in fresh { if b == crate::allocstream::POISON { run += 1; if run >= 64 { SAW_POISON.with(|c| c.set(true)); break; } } else { run = 0; } }
    }
    HIGH_WATER.with(|h| h.set(hw.max(about_to_write.min(buf.len()))));
}

thread_local! {
    /// set when the consumer asked for a read into an EMPTY buffer while the script still had events
    pub static EMPTY_BUF_READ: std::cell::Cell<bool> = std::cell::Cell::new(false);
}

impl Read for ScriptReader {
    fn read(&mut self, buf: &mut [u8]) -> std::io::Result<usize> {
        if buf.is_empty() && self.pos < self.script.len() {
            // `Ok(0)` for an empty buffer says nothing about the end of the stream (std::io::Read)
            EMPTY_BUF_READ.with(|c| c.set(true));
            return Ok(0);
        }
        if self.pos >= self.script.len() {
            self.ended = true;
            return Ok(0);
        }
        let ev = self.script[self.pos].clone();
        self.pos += 1;
        inspect_buffer(buf, match &ev { Ev::Deliver(b) => b.len(), Ev::Pattern(_, l) => *l, _ => 0 });
        match ev {
            Ev::Deliver(b) => {
                let n = b.len().min(buf.len());
                buf[..n].copy_from_slice(&b[..n]);
                if !self.ended && self.hard_error.is_none() { self.delivered.extend_from_slice(&b[..n]); }
                if n == 0 { self.ended = true; }
                Ok(n)
            }
            Ev::Pattern(s, l) => {
                let b = pattern(s, l);
                let n = b.len().min(buf.len());
                buf[..n].copy_from_slice(&b[..n]);
                if !self.ended && self.hard_error.is_none() { self.delivered.extend_from_slice(&b[..n]); }
                if n == 0 { self.ended = true; }
                Ok(n)
            }
            Ev::Interrupted => Err(std::io::Error::from(std::io::ErrorKind::Interrupted)),
            Ev::Error(k) => {
                if self.hard_error.is_none() && !self.ended { self.hard_error = Some(k); }
                Err(std::io::Error::from(k))
            }
            Ev::Zero => { self.ended = true; Ok(0) }
            Ev::Lie(n) => Ok(n),
        }
    }
}

fn stream_result<T: FuzzyHashType>(r: Result<T, tlsh::GeneratorOrIOError>, bin_len: usize) -> String {
    match r {
        Ok(h) => { let mut b = vec![0u8; bin_len]; h.store_into_bytes(&mut b).unwrap(); format!("ok:{}", hex(&b)) }
        Err(tlsh::GeneratorOrIOError::GeneratorError(e)) => format!("err:{:?}", e),
        Err(tlsh::GeneratorOrIOError::IOError(e)) => format!("ioerr:{:?}", e.kind()),
    }
}

fn buf_result<T: FuzzyHashType>(r: Result<T, tlsh::GeneratorError>, bin_len: usize) -> String {
    match r {
        Ok(h) => { let mut b = vec![0u8; bin_len]; h.store_into_bytes(&mut b).unwrap(); format!("ok:{}", hex(&b)) }
        Err(e) => format!("err:{:?}", e),
    }
}

/// `stream <vi> <script> => ok:<bin>|err:<GenError>|ioerr:<Kind>|panic`
pub fn emit_stream(out: &mut impl Write, vi: usize, script: &[Ev]) {
    let bin_len = variant_bin_len(vi);
    let sc = script.to_vec();
    with_variant!(vi, T => {
        HIGH_WATER.with(|h| h.set(0));
        SAW_POISON.with(|c| c.set(false));
        EMPTY_BUF_READ.with(|c| c.set(false));
        let r = guarded(move || {
            let mut rd = ScriptReader { script: sc, pos: 0, delivered: Vec::new(), hard_error: None, ended: false };
            let res = stream_result(tlsh::hash_stream_for::<T, _>(&mut rd), bin_len);
            // direct oracle (C12): no hard error => equals hash_buf of the delivered bytes; else that io error
            let expect = match rd.hard_error {
                Some(k) => format!("ioerr:{:?}", k),
                None => buf_result(tlsh::hash_buf_for::<T>(&rd.delivered), bin_len),
            };
            (res, expect)
        });
        let head = format!("stream {} {}", vi, join(&script.iter().map(ev_str).collect::<Vec<_>>(), ","));
        match r {
            Ok((res, expect)) => {
                writeln!(out, "{} => {}", head, res).unwrap();
                if EMPTY_BUF_READ.with(|c| c.replace(false)) && !res.starts_with("ioerr:") {
                    writeln!(out, "ORACLE C12 stream-ended-on-a-zero-length-read-into-an-empty-buffer {}", &head[..head.len().min(600)]).unwrap();
                }
                if SAW_POISON.with(|c| c.replace(false)) {
                    writeln!(out, "ORACLE C17 reader-was-handed-uninitialised-memory {}", &head[..head.len().min(600)]).unwrap();
                }
                if res != expect {
                    let what = if script.iter().any(|e| matches!(e, Ev::Interrupted)) { "interrupted-read-not-retried" } else { "stream-differs-from-hash-buf" };
                    writeln!(out, "ORACLE C12 {} expected={} {}", what, &expect[..expect.len().min(90)], &head[..head.len().min(600)]).unwrap();
                }
            }
            Err(()) => {
                writeln!(out, "{} => panic", head).unwrap();
                writeln!(out, "ORACLE C12 stream-panicked {}", &head[..head.len().min(600)]).unwrap();
            }
        }
    })
}

const KINDS: [std::io::ErrorKind; 7] = [
    std::io::ErrorKind::Other, std::io::ErrorKind::UnexpectedEof, std::io::ErrorKind::PermissionDenied,
    std::io::ErrorKind::BrokenPipe, std::io::ErrorKind::WouldBlock, std::io::ErrorKind::TimedOut,
    std::io::ErrorKind::InvalidData,
];

pub fn stream_stream(out: &mut impl Write, seed: u64, budget: usize) {
    let mut rng = Rng::new(seed, 40);
    for i in 0..budget {
        let vi = i % 5;
        let n = rng.range(0, 8) as usize;
        let mut script = Vec::new();
        for _ in 0..n {
            let e = match rng.below(20) {
                0..=9 => {
                    let l = *rng.pick(&[1usize, 3, 4, 5, 7, 60, 200, 4095]);
                    let l = if rng.chance(1, 3) { rng.range(1, 300) as usize } else { l };
                    let dist = rng.below(4);
                    Ev::Deliver(gen_data(&mut rng, l, dist))
                }
                10..=13 => Ev::Interrupted,
                14 => Ev::Error(*rng.pick(&KINDS)),
                15 => Ev::Zero,
                16 => { let sd = rng.below(256); Ev::Pattern(sd, rng.range(1, 3000) as usize) }
                _ => { let k = rng.below(80) as usize + 1; Ev::Deliver(rng.bytes(k)) }
            };
            script.push(e);
        }
        emit_stream(out, vi, &script);
    }
    // a few scripts around the 1 MiB internal buffer
    for (k, sizes) in [vec![1usize << 20], vec![(1 << 20) - 1, 1], vec![1 << 20, 1], vec![1 << 20, 1 << 20, 7], vec![5, 1 << 20]].iter().enumerate() {
        let mut script: Vec<Ev> = Vec::new();
        for (j, &s) in sizes.iter().enumerate() {
            script.push(Ev::Pattern((k * 10 + j) as u64, s));
            if j == 0 && k % 2 == 1 { script.push(Ev::Interrupted); }
        }
        emit_stream(out, 1 + k % 4, &script);
    }
    // long runs of small reads whose total exceeds the internal buffer (a consumer that batches small
    // reads must not lose or stop on them), with an interruption and a trailing odd piece
    for (k, (piece, count)) in [(1000usize, 1100usize), (4095, 300), (1, 5000), (65536, 20), (65535, 20)].iter().enumerate() {
        let mut script: Vec<Ev> = (0..*count).map(|j| Ev::Pattern((1000 + k * 7 + j % 5) as u64, *piece)).collect();
        script.insert(count / 2, Ev::Interrupted);
        script.push(Ev::Pattern(77, 123));
        emit_stream(out, [1usize, 3, 0, 2, 4][k], &script);
    }
}

/// `file <vi> <spec> => result`   spec = `s:<size>:<seed>` | `missing`
pub fn stream_file(out: &mut impl Write, seed: u64) {
    let dir = std::path::PathBuf::from(format!("/verif/.cache/tmp/probe-{}-{}", std::process::id(), seed));
    let _ = std::fs::create_dir_all(&dir);
    let sizes = [0usize, 1, 49, 50, 51, 300, 4096, (1 << 20) - 1, 1 << 20, (1 << 20) + 1, 3 * (1 << 20) + 7];
    for (i, &size) in sizes.iter().enumerate() {
        let vi = i % 5;
        let bin_len = variant_bin_len(vi);
        let data = pattern(seed + i as u64, size);
        let path = dir.join(format!("f{}.bin", i));
        std::fs::write(&path, &data).unwrap();
        with_variant!(vi, T => {
            let res = match guarded(|| stream_result(tlsh::hash_file_for::<T, _>(&path), bin_len)) { Ok(s) => s, Err(()) => "panic".to_string() };
            let expect = buf_result(tlsh::hash_buf_for::<T>(&data), bin_len);
            writeln!(out, "file {} s:{}:{} => {}", vi, size, seed + i as u64, res).unwrap();
            if res != expect { writeln!(out, "ORACLE C12 hash-file-differs-from-hash-buf size={}", size).unwrap(); }
            if vi == 1 {
                let r2 = stream_result(tlsh::hash_file(&path), bin_len);
                let mut f = std::fs::File::open(&path).unwrap();
                let r3 = stream_result(tlsh::hash_stream(&mut f), bin_len);
                if r2 != expect || r3 != expect { writeln!(out, "ORACLE C12 hash-file-or-hash-stream-differs-from-hash-buf size={}", size).unwrap(); }
            }
        });
        let _ = std::fs::remove_file(&path);
    }
    // files whose metadata say "0 bytes" although reading delivers data: a FIFO fed by a writer thread
    // and a few stable procfs entries.  `hash_file` must hash what the reads deliver.
    {
        let fifo = dir.join("pipe.fifo");
        let made = std::process::Command::new("mkfifo").arg(&fifo).status().map(|s| s.success()).unwrap_or(false);
        if made {
            for (k, size) in [300usize, 70_000, (1 << 20) + 5].iter().enumerate() {
                let vi = [1usize, 0, 3][k];
                let bin_len = variant_bin_len(vi);
                let data = pattern(seed + 100 + k as u64, *size);
                let d2 = data.clone();
                let f2 = fifo.clone();
                let w = std::thread::spawn(move || { if let Ok(mut f) = std::fs::OpenOptions::new().write(true).open(&f2) { use std::io::Write as _; let _ = f.write_all(&d2); } });
                with_variant!(vi, T => {
                    let res = match guarded(|| stream_result(tlsh::hash_file_for::<T, _>(&fifo), bin_len)) { Ok(s) => s, Err(()) => "panic".to_string() };
                    let expect = buf_result(tlsh::hash_buf_for::<T>(&data), bin_len);
                    writeln!(out, "file {} s:{}:{} => {}", vi, size, seed + 100 + k as u64, res).unwrap();
                    if res != expect { writeln!(out, "ORACLE C12 hash-file-of-a-fifo-differs-from-hash-buf size={}", size).unwrap(); }
                });
                let _ = w.join();
            }
            let _ = std::fs::remove_file(&fifo);
        }
        for p in ["/proc/filesystems", "/proc/version", "/proc/cpuinfo"] {
            let (a, b) = (std::fs::read(p), std::fs::read(p));
            if let (Ok(a), Ok(b)) = (a, b) {
                if a == b && a.len() >= 50 {
                    let bin_len = variant_bin_len(1);
                    let res = match guarded(|| stream_result(tlsh::hash_file(p), bin_len)) { Ok(s) => s, Err(()) => "panic".to_string() };
                    let expect = buf_result(tlsh::hash_buf(&a), bin_len);
                    // contents are machine-specific: only the direct oracle, no model line
                    if res != expect { writeln!(out, "ORACLE C12 hash-file-of-a-procfs-entry-differs-from-hash-buf {} ({} bytes)", p, a.len()).unwrap(); }
                }
            }
        }
    }
    for vi in 0..5 {
        let bin_len = variant_bin_len(vi);
        let path = dir.join("does-not-exist.bin");
        with_variant!(vi, T => {
            let res = stream_result(tlsh::hash_file_for::<T, _>(&path), bin_len);
            writeln!(out, "file {} missing => {}", vi, res).unwrap();
            if !res.starts_with("ioerr:") { writeln!(out, "ORACLE C12 missing-path-is-not-an-io-error").unwrap(); }
        });
    }
    let _ = std::fs::remove_dir_all(&dir);
}

/// Child process body for one contract-violating reader: prints the result line.
pub fn lie_child(vi: usize, n: usize) {
    let bin_len = variant_bin_len(vi);
    with_variant!(vi, T => {
        let r = guarded(move || {
            let mut rd = ScriptReader { script: vec![Ev::Lie(n)], pos: 0, delivered: Vec::new(), hard_error: None, ended: false };
            stream_result(tlsh::hash_stream_for::<T, _>(&mut rd), bin_len)
        });
        match r { Ok(s) => println!("RESULT {}", s), Err(()) => println!("RESULT panic") }
    })
}

/// `lie <vi> <n> => panic|ok:…|signal:<n>|exit:<code>` — each case in a child process.
pub fn stream_lie(out: &mut impl Write) {
    let exe = std::env::current_exe().unwrap();
    for (i, n) in [(1usize << 20) + 1, (1 << 20) + 4096, 1 << 21, 1 << 24].iter().enumerate() {
        let vi = 1 + (i % 2) * 2;
        let o = std::process::Command::new(&exe).args(["lie-child", "--seed", &vi.to_string(), "--budget", &n.to_string()]).output();
        let res = match o {
            Ok(o) => {
                let s = String::from_utf8_lossy(&o.stdout).to_string();
                if let Some(l) = s.lines().find(|l| l.starts_with("RESULT ")) {
                    let r = &l[7..];
                    if r.starts_with("ok:") { "ok".to_string() } else { r.to_string() }
                } else {
                    #[cfg(unix)]
                    { use std::os::unix::process::ExitStatusExt; match o.status.signal() { Some(sg) => format!("signal:{}", sg), None => format!("exit:{:?}", o.status.code()) } }
                    #[cfg(not(unix))]
                    { format!("exit:{:?}", o.status.code()) }
                }
            }
            Err(e) => format!("spawn-failed:{}", e),
        };
        writeln!(out, "lie {} {} => {}", vi, n, res).unwrap();
        if res != "panic" {
            writeln!(out, "ORACLE C17 misreporting-reader-did-not-panic-cleanly lie {} {} => {}", vi, n, res).unwrap();
        }
    }
}

/// `cmpstr <vi> <l> <r> => ok:<d>|err:L:<E>|err:R:<E>`
pub fn emit_cmpstr(out: &mut impl Write, vi: usize, l: &str, r: &str) {
    with_variant!(vi, T => {
        let res = guarded(|| {
            let res = tlsh::compare_with::<T>(l, r);
            let s = match &res {
                Ok(d) => format!("ok:{}", d),
                Err(e) => format!("err:{}:{:?}", match e.side() { tlsh::ParseErrorSide::Left => "L", tlsh::ParseErrorSide::Right => "R" }, e.inner_err()),
            };
            // direct oracle (C13): parse both, then compare
            let expect = match (l.parse::<T>(), r.parse::<T>()) {
                (Ok(a), Ok(b)) => format!("ok:{}", a.compare(&b)),
                (Err(e), _) => format!("err:L:{:?}", e),
                (Ok(_), Err(e)) => format!("err:R:{:?}", e),
            };
            let mut ok = s == expect;
            if vi == 1 {
                let s2 = match tlsh::compare(l, r) { Ok(d) => format!("ok:{}", d), Err(e) => format!("err:{}:{:?}", match e.side() { tlsh::ParseErrorSide::Left => "L", tlsh::ParseErrorSide::Right => "R" }, e.inner_err()) };
                ok &= s2 == expect;
            }
            (s, ok)
        });
        let head = format!("cmpstr {} {} {}", vi, hex(l.as_bytes()), hex(r.as_bytes()));
        match res {
            Ok((s, ok)) => {
                writeln!(out, "{} => {}", head, s).unwrap();
                if !ok { writeln!(out, "ORACLE C13 differs-from-parse-then-compare {}", head).unwrap(); }
            }
            Err(()) => { writeln!(out, "{} => panic", head).unwrap(); writeln!(out, "ORACLE C13 compare-helper-panicked {}", head).unwrap(); }
        }
    })
}

fn operand(rng: &mut Rng, vi: usize) -> String {
    let bin = random_hash_bytes(rng, vi);
    let with_prefix = rng.chance(2, 3);
    let mut s = hash_text(vi, &bin, with_prefix);
    match rng.below(12) {
        0..=3 => {}
        4 => { for c in s.iter_mut() { *c = c.to_ascii_lowercase(); } if with_prefix { s[0] = b'T'; } }
        5 => { for c in s.iter_mut().skip(2) { if rng.chance(1, 2) { *c = c.to_ascii_lowercase(); } } }
        6 => { let p = rng.below(s.len() as u64) as usize; s[p] = *rng.pick(b"gGxz /:@`"); }
        7 => { s.truncate(rng.below(s.len() as u64 + 1) as usize); }
        8 => { s.push(b'0'); }
        9 => { if with_prefix { s[1] = b'2'; } else { s.insert(0, b'T'); s.insert(1, b'1'); s.pop(); } }
        10 => {
            // a multi-byte character replacing as many bytes (length preserved); half of the time near the
            // start, so that it straddles the prefix boundary (byte offsets 1..3)
            let ch: &str = *rng.pick(&["é", "€", "𝄞"]);
            let p = if rng.chance(1, 2) { rng.below(4) as usize } else { rng.below(s.len() as u64) as usize };
            let p = p.min(s.len());
            let mut t = s[..p].to_vec(); t.extend_from_slice(ch.as_bytes()); t.extend_from_slice(&s[(p + ch.len()).min(s.len())..]); s = t;
        }
        _ => { s.clear(); }
    }
    String::from_utf8(s).unwrap_or_default()
}

/// A re-spelling (or near miss) of `l`.
fn related(rng: &mut Rng, l: &str) -> String {
    let mut s = l.as_bytes().to_vec();
    match rng.below(9) {
        0 => { for c in s.iter_mut() { *c = c.to_ascii_lowercase(); } }                       // also lowers the prefix: "t1…"
        1 => { for c in s.iter_mut() { *c = c.to_ascii_uppercase(); } }
        2 => { for c in s.iter_mut() { if rng.chance(1, 2) { *c = c.to_ascii_lowercase(); } } }
        3 => { if s.starts_with(b"T1") { s.drain(..2); } else { s.insert(0, b'T'); s.insert(1, b'1'); } }
        4 => { if s.starts_with(b"T1") { s[0] = b't'; } else if !s.is_empty() { s[0] = s[0].to_ascii_lowercase(); } }
        5 => { for c in s.iter_mut().skip(2) { *c = c.to_ascii_lowercase(); } }              // digits lowered, prefix kept
        6 => { if !s.is_empty() { let p = rng.below(s.len() as u64) as usize; s[p] = *rng.pick(b"gG@ 0fF"); } }
        7 => { s.pop(); }
        _ => { s.push(b'0'); }
    }
    String::from_utf8(s).unwrap_or_default()
}

pub fn stream_cmpstr(out: &mut impl Write, seed: u64, budget: usize) {
    let mut rng = Rng::new(seed, 41);
    for i in 0..budget {
        let vi = i % 5;
        let l = operand(&mut rng, vi);
        // related pairs: the second operand is the first one re-spelt (case, prefix) or slightly damaged,
        // in either order — equality shortcuts and normalisation slips only show on such pairs
        let r = match rng.below(10) {
            0 | 1 => l.clone(),
            2..=4 => related(&mut rng, &l),
            _ => operand(&mut rng, vi),
        };
        if rng.chance(1, 2) { emit_cmpstr(out, vi, &l, &r); } else { emit_cmpstr(out, vi, &r, &l); }
    }
}


// ---------------------------------------------------------------------------
// hugestream: the stream helper fed MAX, MAX + k bytes with a read boundary exactly at MAX (C11 / C12).
// About 4.2 GB are really hashed per case (~30 s in a release build; skipped in dev builds); the cases
// run concurrently.
// ---------------------------------------------------------------------------

struct SeamReader { first: u64, extra: u64, pos: u64, fail_at_end: bool }

impl Read for SeamReader {
    fn read(&mut self, buf: &mut [u8]) -> std::io::Result<usize> {
        if buf.is_empty() { return Ok(0); }
        let end = if self.pos < self.first { self.first } else { self.first + self.extra };
        if self.pos == self.first + self.extra && self.fail_at_end {
            return Err(std::io::Error::from(std::io::ErrorKind::BrokenPipe));   // a hard error after all the data
        }
        let n = ((end - self.pos) as usize).min(buf.len());   // short read at the seam, like `Chain`
        for (i, b) in buf[..n].iter_mut().enumerate() { *b = ((self.pos as usize + i) as u8).wrapping_mul(31) ^ ((self.pos >> 8) as u8); }
        self.pos += n as u64;
        Ok(n)
    }
}

/// `hstream <vi> <first> <extra> => toolarge|ok:<length code>|other:<…>`
pub fn stream_hugestream(out: &mut impl Write) {
    if cfg!(debug_assertions) { return; }
    const MAX: u64 = 4_224_281_216;
    let cases: [(usize, u64, u64, bool); 4] = [(1, MAX, 0, false), (1, MAX, 16, false), (4, MAX, 1, false), (3, MAX, 70_000, true)];
    let lines: Vec<String> = std::thread::scope(|sc| {
        let hs: Vec<_> = cases.iter().map(|&(vi, first, extra, fail)| sc.spawn(move || {
            with_variant!(vi, T => {
                let r = guarded(|| {
                    let mut rd = SeamReader { first, extra, pos: 0, fail_at_end: fail };
                    match tlsh::hash_stream_for::<T, _>(&mut rd) {
                        Ok(h) => format!("ok:{}", h.length().value()),
                        Err(tlsh::GeneratorOrIOError::GeneratorError(tlsh::GeneratorError::TooLargeInput)) => "toolarge".to_string(),
                        Err(tlsh::GeneratorOrIOError::IOError(_)) => "ioerr".to_string(),
                        Err(e) => format!("other:{:?}", e).replace(' ', "_"),
                    }
                });
                let res = match r { Ok(s) => s, Err(()) => "panic".to_string() };
                let head = format!("{} {} {} {} {}", if fail { "hstreamerr" } else { "hstream" }, vi, first, extra, fail as u8);
                let expect = if fail { "ioerr".to_string() } else if first + extra > MAX { "toolarge".to_string() } else { "ok:169".to_string() };
                let mut l = format!("{} => {}", head, res);
                if res != expect {
                    if !fail { l.push_str(&format!("\nORACLE C11 stream-of-{}-bytes-gives-{}-instead-of-{} {}", first + extra, res, expect, head)); }
                    l.push_str(&format!("\nORACLE C12 stream-result-is-{}-instead-of-{} {}", res, expect, head));
                }
                l
            })
        })).collect();
        hs.into_iter().map(|h| h.join().unwrap()).collect()
    });
    for l in lines { writeln!(out, "{}", l).unwrap(); }
}
