//! Generator streams: `gen` (inputs × chunkings × options), `state` (injected
//! internal states), `hist` (histories over update / finalize / clone).

use crate::util::*;
use crate::with_variant;
use std::io::Write;
use tlsh::generate::Generator;
use tlsh::length::DataLengthProcessingMode;
use tlsh::verif::GeneratorStateAccess;
use tlsh::{FuzzyHashType, GeneratorOptions, GeneratorType};

thread_local! {
    /// varies the order in which the option setters are called (the value of an options object must not
    /// depend on it)
    static OPT_ORDER: std::cell::Cell<u32> = std::cell::Cell::new(0);
}

/// The options with these bits, built by calling the five setters in an order that changes from call to
/// call; a setter whose argument is the default is sometimes skipped, sometimes preceded by the opposite
/// value.  0: conservative, 1: pure integer, 2: small, 3: half, 4: quarter.
pub fn options_from_bits(bits: u32) -> GeneratorOptions {
    let k = OPT_ORDER.with(|c| { let v = c.get(); c.set(v.wrapping_add(1)); v });
    let mut order = [0usize, 1, 2, 3, 4];
    // k-th permutation (Lehmer code)
    let mut code = k % 120;
    for i in 0..5 { let j = i + (code % (5 - i as u32)) as usize; code /= 5 - i as u32; order.swap(i, j); }
    let mut o = GeneratorOptions::new();
    for (n, &which) in order.iter().enumerate() {
        let on = bits & (1 << which) != 0;
        let style = (k / 120 + n as u32 + which as u32) % 3;   // 0: set, 1: skip if default, 2: opposite first
        if !on && style == 1 { continue; }
        let set = |o: &mut GeneratorOptions, v: bool| { match which {
            0 => { o.length_processing_mode(if v { DataLengthProcessingMode::Conservative } else { DataLengthProcessingMode::Optimistic }); }
            1 => { o.pure_integer_qratio_computation(v); }
            2 => { o.allow_small_size_files(v); }
            3 => { o.allow_statistically_weak_buckets_half(v); }
            _ => { o.allow_statistically_weak_buckets_quarter(v); }
        } };
        if style == 2 { set(&mut o, !on); }
        set(&mut o, on);
    }
    o
}

thread_local! {
    pub static DEFAULT_FINALIZE_DIFFERS: std::cell::Cell<bool> = std::cell::Cell::new(false);
    /// set when a generated hash fails the strict-validity / round-trip oracle (C15)
    pub static C15_FAIL: std::cell::Cell<bool> = std::cell::Cell::new(false);
}

pub fn result_str<T: FuzzyHashType + PartialEq>(r: Result<T, tlsh::GeneratorError>, bin_len: usize) -> String {
    match r {
        Ok(h) => {
            let mut buf = vec![0u8; bin_len];
            h.store_into_bytes(&mut buf).unwrap();
            // direct oracle (C15): every generated hash is strictly valid and survives both round trips
            {
                use tlsh::hash::checksum::FuzzyHashChecksum;
                let mut ok = h.checksum().is_valid() && h.length().is_valid();
                let mut text = vec![0u8; 2 * bin_len + 2];
                h.store_into_str_bytes(&mut text, tlsh::HexStringPrefix::WithVersion).unwrap();
                ok &= T::from_str_bytes(&text, None).ok().as_ref() == Some(&h);
                if !ok {
                    C15_FAIL.with(|c| c.set(true));
                }
            }
            format!("ok:{}", hex(&buf))
        }
        Err(e) => format!("err:{:?}", e),
    }
}

pub fn len_str(l: Option<u32>) -> String {
    match l {
        Some(n) => n.to_string(),
        None => "none".to_string(),
    }
}

pub fn gen_data(rng: &mut Rng, len: usize, dist: u64) -> Vec<u8> {
    match dist {
        0 => rng.bytes(len),
        1 => {
            let k = rng.range(2, 6) as usize;
            let alpha = rng.bytes(k);
            (0..len).map(|_| *rng.pick(&alpha)).collect()
        }
        2 => {
            let period = *rng.pick(&[1usize, 2, 3, 4, 5, 6, 7, 26, 90]);
            let block = rng.bytes(period);
            (0..len).map(|i| block[i % period]).collect()
        }
        3 => {
            // sparse: a short block repeated, with rare single-byte mutations
            let period = rng.range(5, 40) as usize;
            let block = rng.bytes(period);
            let mut v: Vec<u8> = (0..len).map(|i| block[i % period]).collect();
            let muts = rng.below(4) as usize;
            for _ in 0..muts {
                if len > 0 {
                    let i = rng.below(len as u64) as usize;
                    v[i] = rng.byte();
                }
            }
            v
        }
        _ => vec![rng.byte(); len],
    }
}

pub fn pick_len(rng: &mut Rng) -> usize {
    let r = rng.below(100);
    if r < 22 {
        rng.range(0, 12) as usize
    } else if r < 47 {
        let c = *rng.pick(&[4i64, 5, 10, 18, 50, 65, 128, 129, 256]);
        (c + rng.range(0, 4) as i64 - 2).max(0) as usize
    } else if r < 80 {
        rng.range(13, 600) as usize
    } else if r < 96 {
        rng.range(600, 5000) as usize
    } else {
        rng.range(5000, 70000) as usize
    }
}

pub fn chunking(rng: &mut Rng, data: &[u8]) -> Vec<Vec<u8>> {
    let mode = rng.below(10);
    if mode == 0 {
        return vec![data.to_vec()];
    }
    let mut pieces = Vec::new();
    let mut pos = 0;
    while pos < data.len() {
        let want = match rng.below(12) {
            0 => 0,
            1 => 1,
            2 => 2,
            3 => 3,
            4 => 4,
            5 => 5,
            6 => 7,
            7 => 64,
            8 => rng.range(1, 300) as usize,
            9 => 4096,
            _ => {
                if mode < 4 {
                    data.len() - pos
                } else {
                    rng.range(1, 9) as usize
                }
            }
        };
        let n = want.min(data.len() - pos);
        pieces.push(data[pos..pos + n].to_vec());
        pos += n;
        if pieces.len() > 4000 {
            pieces.push(data[pos..].to_vec());
            break;
        }
    }
    if rng.chance(1, 4) {
        pieces.push(Vec::new());
    }
    pieces
}

fn opts_list(rng: &mut Rng, all: bool) -> (String, Vec<u32>) {
    if all {
        ("*".to_string(), (0..32).collect())
    } else {
        let v: Vec<u32> = (0..3).map(|_| rng.below(32) as u32).collect();
        (join(&v, ","), v)
    }
}

/// Emits one `gen` line; returns oracle complaints (C03: chunked vs one-shot).
pub fn emit_gen(out: &mut impl Write, vi: usize, data: &[u8], pieces: &[Vec<u8>], opts_s: &str, opts: &[u32]) {
    let bin_len = variant_bin_len(vi);
    with_variant!(vi, T => {
        let r = guarded(|| {
            let mut g = Generator::<T>::new();
            let mut lens = Vec::new();
            for p in pieces {
                g.update(p);
                lens.push(len_str(g.processed_len()));
            }
            // one options object per option set, shared by the chunked and the one-shot generator (how an
            // options object is built is C10's / C01's business, not a difference between the two)
            let objs: Vec<GeneratorOptions> = opts.iter().map(|&o| options_from_bits(o)).collect();
            let res: Vec<String> = objs.iter().map(|o| result_str(g.finalize_with_options(o), bin_len)).collect();
            // direct oracle: one update with the whole input (through `Default`, the other constructor)
            let mut g1 = <Generator<T> as Default>::default();
            g1.update(data);
            let res1: Vec<String> = objs.iter().map(|o| result_str(g1.finalize_with_options(o), bin_len)).collect();
            let same = res == res1 && g.processed_len() == g1.processed_len();
            // `finalize()` is `finalize_with_options` at the default options, however those are spelt
            let d0 = result_str(g.finalize(), bin_len);
            let dflt = d0 == result_str(g.finalize_with_options(&GeneratorOptions::default()), bin_len)
                && d0 == result_str(g.finalize_with_options(&GeneratorOptions::new()), bin_len)
                && d0 == result_str(g.finalize_with_options(&options_from_bits(0)), bin_len);
            if !dflt { DEFAULT_FINALIZE_DIFFERS.with(|c| c.set(true)); }
            (lens, res, same)
        });
        match r {
            Ok((lens, res, same)) => {
                writeln!(out, "gen {} {} {} => {} {}", vi, opts_s, pieces_str(pieces), join(&lens, ","), res.join(";")).unwrap();
                if C15_FAIL.with(|c| c.replace(false)) {
                    writeln!(out, "ORACLE C15 generated-hash-not-strictly-valid-or-no-round-trip gen {} {} {}", vi, opts_s, pieces_str(pieces)).unwrap();
                }
                if !same {
                    writeln!(out, "ORACLE C03 chunked-differs-from-one-shot gen {} {} {}", vi, opts_s, pieces_str(pieces)).unwrap();
                }
                if DEFAULT_FINALIZE_DIFFERS.with(|c| c.replace(false)) {
                    writeln!(out, "ORACLE C01 finalize-differs-from-finalize-with-default-options gen {} {} {}", vi, opts_s, pieces_str(pieces)).unwrap();
                }
            }
            Err(()) => {
                writeln!(out, "gen {} {} {} => panic", vi, opts_s, pieces_str(pieces)).unwrap();
            }
        }
    })
}

pub fn stream_gen(out: &mut impl Write, seed: u64, budget: usize) {
    let mut rng = Rng::new(seed, 1);
    // exhaustive compositions of short inputs over a 3-letter alphabet sample
    for vi in 0..5 {
        for len in 0..=7usize {
            let data = gen_data(&mut rng, len, 1);
            let ncomp = if len == 0 { 1 } else { 1usize << (len - 1) };
            for comp in 0..ncomp {
                let mut pieces = Vec::new();
                let mut cur = Vec::new();
                for i in 0..len {
                    cur.push(data[i]);
                    if i + 1 == len || (comp >> i) & 1 == 1 {
                        pieces.push(std::mem::take(&mut cur));
                    }
                }
                emit_gen(out, vi, &data, &pieces, "4,20,28", &[4, 20, 28]);
            }
        }
    }
    for i in 0..budget {
        let vi = (i % 5) as usize;
        let len = pick_len(&mut rng);
        let dist = rng.below(5);
        let data = gen_data(&mut rng, len, dist);
        let pieces = chunking(&mut rng, &data);
        let (os, ov) = opts_list(&mut rng, len <= 1500);
        emit_gen(out, vi, &data, &pieces, &os, &ov);
    }
}

/// A few large inputs (1 MiB-ish), few options.
pub fn stream_gen_large(out: &mut impl Write, seed: u64, count: usize) {
    let mut rng = Rng::new(seed, 2);
    for i in 0..count {
        let vi = (i % 5) as usize;
        let len = *rng.pick(&[1usize << 20, (1 << 20) + 1, (1 << 20) - 1, 300_000, 2_500_000]);
        let dist = rng.below(3);
        let data = gen_data(&mut rng, len, dist);
        let pieces = chunking(&mut rng, &data);
        let (os, ov) = opts_list(&mut rng, false);
        emit_gen(out, vi, &data, &pieces, &os, &ov);
    }
}

// ---------------------------------------------------------------------------
// injected states
// ---------------------------------------------------------------------------

pub struct RawState {
    pub buckets: Vec<u32>,
    pub len: u32,
    pub tail: Vec<u8>,
    pub cksum: Vec<u8>,
}

fn interesting_u32(rng: &mut Rng) -> u32 {
    match rng.below(12) {
        0 => 0,
        1 => rng.range(0, 3) as u32,
        2 => rng.range(0, 300) as u32,
        3 => (1u32 << 24) - 2 + rng.range(0, 4) as u32,
        4 => (1u32 << 31) - 2 + rng.range(0, 4) as u32,
        5 => u32::MAX - rng.range(0, 3) as u32,
        6 => rng.next() as u32,
        7 => (rng.next() as u32) >> rng.range(0, 31),
        8 => 42_949_672 + rng.range(0, 3) as u32, // q*100 crosses 2^32 here
        9 => 167_772 + rng.range(0, 3) as u32,    // q*100 crosses 2^24 here
        10 => (1u32 << rng.range(0, 31)) + rng.range(0, 2) as u32,
        _ => rng.range(0, 100_000) as u32,
    }
}

pub fn gen_buckets(rng: &mut Rng, phys: usize, nb: usize) -> Vec<u32> {
    let mode = rng.below(8);
    let mut b = vec![0u32; phys];
    match mode {
        0 => {
            for x in b.iter_mut() {
                *x = interesting_u32(rng);
            }
        }
        1 => {
            // few distinct values -> ties at the quartile positions
            let k = rng.range(1, 4) as usize;
            let vals: Vec<u32> = (0..k).map(|_| interesting_u32(rng)).collect();
            for x in b.iter_mut() {
                *x = *rng.pick(&vals);
            }
        }
        2 => {
            // mostly empty: exercises q3 == 0 and the half-empty gate boundaries
            let nz = rng.range(0, nb as u64) as usize;
            for _ in 0..nz {
                let i = rng.below(nb as u64) as usize;
                b[i] = rng.range(1, 50) as u32;
            }
        }
        3 => {
            // exactly k non-zero buckets around the gate thresholds
            let gates = [nb / 4 - 1, nb / 4, nb / 4 + 1, nb / 2 - 1, nb / 2, nb / 2 + 1, nb / 2 + 2, 17, 18, 19];
            let k = (*rng.pick(&gates)).min(nb);
            let mut idx: Vec<usize> = (0..nb).collect();
            for i in 0..k {
                let j = i + rng.below((nb - i) as u64) as usize;
                idx.swap(i, j);
                b[idx[i]] = rng.range(1, 1000) as u32;
            }
        }
        4 => {
            // ramp with a large base: quartiles close together, big q*100
            let base = interesting_u32(rng);
            for (i, x) in b.iter_mut().enumerate() {
                *x = base.wrapping_add((i as u32).wrapping_mul(rng.range(0, 3) as u32));
            }
        }
        5 => {
            // adversarial f32: q3 a large value, q1/q2 near k*q3/100
            let q3 = interesting_u32(rng).max(1);
            for x in b.iter_mut() {
                let k = rng.range(0, 100);
                let base = ((q3 as u64) * k / 100) as u32;
                *x = base.wrapping_add(rng.range(0, 2) as u32).min(q3);
            }
            let hi = nb - nb / 4;
            for x in b[..nb].iter_mut().skip(hi) {
                *x = q3.saturating_add(rng.range(0, 5) as u32);
            }
            let i = rng.below(nb as u64) as usize;
            b[i] = q3;
        }
        _ => {
            for x in b.iter_mut() {
                *x = rng.range(0, 20) as u32;
            }
        }
    }
    b
}

pub fn emit_state(out: &mut impl Write, vi: usize, st: &RawState, pieces: &[Vec<u8>], opts_s: &str, opts: &[u32]) {
    let bin_len = variant_bin_len(vi);
    with_variant!(vi, T => {
        let r = guarded(|| {
            let mut g = Generator::<T>::new();
            g.verif_set_state(&st.buckets, &st.cksum, &st.tail, st.len);
            let mut lens = Vec::new();
            for p in pieces {
                g.update(p);
                lens.push(len_str(g.processed_len()));
            }
            let mut b = [0u32; 256];
            let mut c = [0u8; 3];
            let mut t = [0u8; 4];
            let (phys, cs, len, tail_len) = g.verif_get_state(&mut b, &mut c, &mut t);
            let post = format!("{} {} {} {}", hex_u32s(&b[..phys]), len, hex(&t[..tail_len as usize]), hex(&c[..cs]));
            // each finalisation under its own catch_unwind: a panic under one option setting is a result
            let res: Vec<String> = opts.iter().map(|&o| {
                match std::panic::catch_unwind(std::panic::AssertUnwindSafe(|| result_str(g.finalize_with_options(&options_from_bits(o)), bin_len))) {
                    Ok(s) => s,
                    Err(_) => "panic".to_string(),
                }
            }).collect();
            // direct oracle C03: finalize does not disturb the generator
            let mut b2 = [0u32; 256];
            let mut c2 = [0u8; 3];
            let mut t2 = [0u8; 4];
            let s2 = g.verif_get_state(&mut b2, &mut c2, &mut t2);
            let undisturbed = s2 == (phys, cs, len, tail_len) && b2 == b && c2 == c && t2 == t;
            // direct oracle C10: more permissive options never turn Ok into Err nor change the hash
            let mut mono = true;
            if opts.len() == 32 {
                for o in 0..32usize {
                    for o2 in 0..32usize {
                        // same Q-ratio mode (bit 1); optimistic (bit0 = 0) is more permissive than conservative;
                        // flags bits 2,3,4 only added
                        let same_q = (o & 2) == (o2 & 2);
                        let mode_ok = (o & 1) >= (o2 & 1);
                        let flags_ok = (o & 0x1c) & !(o2 & 0x1c) == 0;
                        if same_q && mode_ok && flags_ok && res[o].starts_with("ok:") && res[o2] != res[o] {
                            mono = false;
                        }
                    }
                }
                // allowing quarter-empty implies allowing half-empty
                for o in 0..32usize {
                    if o & 16 != 0 && res[o] == "err:BucketsAreHalfEmpty" { mono = false; }
                }
                // length error <=> published validity is an error for the mode and small inputs are
                // not explicitly allowed (too large is never waivable)
                use tlsh::length::{DataLengthProcessingMode as M, DataLengthValidity as V};
                let plen = g.processed_len().unwrap_or(u32::MAX);
                let val = match VARIANT_BUCKETS[vi] { 48 => V::new::<48>(plen), 128 => V::new::<128>(plen), _ => V::new::<256>(plen) };
                for o in 0..32usize {
                    let mode = if o & 1 != 0 { M::Conservative } else { M::Optimistic };
                    let expect = val.is_err_on(mode) && !((o & 4 != 0) && val != V::TooLarge);
                    let is_len_err = res[o] == "err:TooLargeInput" || res[o] == "err:TooSmallInput";
                    if expect != is_len_err { mono = false; }
                    if val == V::TooLarge && res[o] != "err:TooLargeInput" { mono = false; }
                }
            }
            (lens, post, res, undisturbed && mono)
        });
        let head = format!("state {} {} {} {} {} {} {}", vi, opts_s, hex_u32s(&st.buckets), st.len, hex(&st.tail), hex(&st.cksum), pieces_str(pieces));
        match r {
            Ok((lens, post, res, undisturbed)) => {
                writeln!(out, "{} => {} {} {}", head, post, join(&lens, ","), res.join(";")).unwrap();
                // injected states are not reachable ones (arbitrary checksum bytes): the C15 oracle does not apply
                let _ = C15_FAIL.with(|c| c.replace(false));
                if !undisturbed {
                    writeln!(out, "ORACLE C03 finalize-disturbed-state-or-C10-monotonicity {}", head).unwrap();
                    writeln!(out, "ORACLE C10 option-monotonicity-or-finalize-disturbed-state {}", head).unwrap();
                }
                if res.iter().any(|r| r == "panic") {
                    writeln!(out, "ORACLE C11 finalize-panicked {}", head).unwrap();
                }
            }
            Err(()) => {
                writeln!(out, "{} => panic", head).unwrap();
                writeln!(out, "ORACLE C11 generator-panicked {}", head).unwrap();
            }
        }
    })
}

pub fn phys_buckets(vi: usize) -> usize {
    let lowmem = tlsh::verif::build_config().iter().any(|&(k, v)| k == "opt-low-memory-buckets" && v);
    if lowmem {
        VARIANT_BUCKETS[vi]
    } else {
        256
    }
}

pub fn stream_state(out: &mut impl Write, seed: u64, budget: usize) {
    let mut rng = Rng::new(seed, 3);
    for i in 0..budget {
        let vi = (i % 5) as usize;
        let phys = phys_buckets(vi);
        let nb = VARIANT_BUCKETS[vi];
        let buckets = gen_buckets(&mut rng, phys, nb);
        let cksum = rng.bytes(VARIANT_CKSUM[vi]);
        // length: mostly "valid" so that the bucket-driven part is reached
        let (len, tail): (u32, Vec<u8>) = match rng.below(10) {
            0 => { let k = rng.below(5) as usize; (0, rng.bytes(k)) }
            1 => (rng.range(0, 200) as u32, rng.bytes(4)),
            2 => (4_224_281_216 - 4 - rng.range(0, 3) as u32, rng.bytes(4)),
            3 => (4_224_281_216 - 4 + rng.range(0, 3) as u32, rng.bytes(4)),
            4 => (u32::MAX - 3 - rng.range(0, 12) as u32, rng.bytes(4)),
            _ => (rng.range(200, 4_000_000_000) as u32, rng.bytes(4)),
        };
        let npieces = rng.below(3) as usize;
        let pieces: Vec<Vec<u8>> = (0..npieces)
            .map(|_| {
                let l = *rng.pick(&[0usize, 1, 2, 3, 4, 5, 7, 12, 64]);
                rng.bytes(l)
            })
            .collect();
        let st = RawState { buckets, len, tail, cksum };
        emit_state(out, vi, &st, &pieces, "*", &(0..32).collect::<Vec<u32>>());
    }
}

// ---------------------------------------------------------------------------
// histories
// ---------------------------------------------------------------------------

pub fn stream_hist(out: &mut impl Write, seed: u64, budget: usize) {
    let mut rng = Rng::new(seed, 4);
    for i in 0..budget {
        let vi = (i % 5) as usize;
        let nops = rng.range(1, 14) as usize;
        // script
        let mut script: Vec<String> = Vec::new();
        let mut handles = 1usize;
        let big = rng.chance(1, 3);
        for _ in 0..nops {
            match rng.below(10) {
                0..=4 => {
                    let l = if big { rng.range(0, 120) as usize } else { rng.range(0, 9) as usize };
                    let dist = rng.below(5);
                    let p = gen_data(&mut rng, l, dist);
                    script.push(format!("u:{}", if p.is_empty() { ".".to_string() } else { hex(&p) }));
                }
                5..=6 => script.push(format!("f:{}", rng.below(32))),
                7 => {
                    if handles < 4 {
                        handles += 1;
                        script.push("c".to_string());
                    } else {
                        script.push(format!("s:{}", rng.below(handles as u64)));
                    }
                }
                8 if handles >= 2 => script.push(format!("cf:{}", rng.below(handles as u64))),
                _ => script.push(format!("s:{}", rng.below(handles as u64))),
            }
        }
        emit_hist(out, vi, &script);
    }
}

pub fn emit_hist(out: &mut impl Write, vi: usize, script: &[String]) {
    let bin_len = variant_bin_len(vi);
    with_variant!(vi, T => {
        let r = guarded(|| {
            let mut gens: Vec<Generator<T>> = vec![Generator::<T>::new()];
            let mut seen: Vec<Vec<u8>> = vec![Vec::new()];
            let mut cur = 0usize;
            let mut outs: Vec<String> = Vec::new();
            let mut oracle_ok = true;
            for op in script {
                if let Some(h) = op.strip_prefix("u:") {
                    let p = if h == "." { Vec::new() } else { unhex(h) };
                    gens[cur].update(&p);
                    seen[cur].extend_from_slice(&p);
                    outs.push(len_str(gens[cur].processed_len()));
                } else if let Some(o) = op.strip_prefix("f:") {
                    let o: u32 = o.parse().unwrap();
                    let obj = options_from_bits(o);
                    let r = result_str(gens[cur].finalize_with_options(&obj), bin_len);
                    // direct oracle: a fresh generator fed exactly the bytes this handle has seen
                    let mut fresh = Generator::<T>::new();
                    fresh.update(&seen[cur]);
                    let r2 = result_str(fresh.finalize_with_options(&obj), bin_len);
                    if r != r2 || fresh.processed_len() != gens[cur].processed_len() {
                        oracle_ok = false;
                    }
                    outs.push(r);
                } else if op == "c" {
                    let g = gens[cur].clone();
                    gens.push(g);
                    let s = seen[cur].clone();
                    seen.push(s);
                    outs.push("-".to_string());
                } else if let Some(k) = op.strip_prefix("cf:") {
                    // `Clone::clone_from`: handle k becomes a copy of the current handle, in place
                    let k: usize = k.parse().unwrap();
                    if k != cur {
                        let src = gens[cur].clone();
                        gens[k].clone_from(&src);
                        let sb = seen[cur].clone();
                        seen[k] = sb;
                    }
                    outs.push("-".to_string());
                } else if let Some(k) = op.strip_prefix("s:") {
                    cur = k.parse().unwrap();
                    outs.push("-".to_string());
                }
            }
            let finals: Vec<String> = gens
                .iter()
                .map(|g| format!("{}/{}", len_str(g.processed_len()), result_str(g.finalize_with_options(&options_from_bits(28)), bin_len)))
                .collect();
            (outs, finals, oracle_ok)
        });
        let head = format!("hist {} {}", vi, script.join(","));
        match r {
            Ok((outs, finals, ok)) => {
                writeln!(out, "{} => {} {}", head, outs.join(","), finals.join(",")).unwrap();
                if !ok {
                    writeln!(out, "ORACLE C03 history-differs-from-fresh-generator {}", head).unwrap();
                }
            }
            Err(()) => writeln!(out, "{} => panic", head).unwrap(),
        }
    })
}

// ---------------------------------------------------------------------------
// core: only what is independent of the bucket / checksum step (C03, C11)
// ---------------------------------------------------------------------------

fn core_obs<G: GeneratorStateAccess + GeneratorType>(g: &G) -> String {
    let mut b = [0u32; 256];
    let mut c = [0u8; 3];
    let mut t = [0u8; 4];
    let (_, _, len, tail_len) = g.verif_get_state(&mut b, &mut c, &mut t);
    format!("{}:{}:{}", len, hex(&t[..tail_len as usize]), len_str(g.processed_len()))
}

fn full_state<G: GeneratorStateAccess>(g: &G) -> (Vec<u32>, Vec<u8>, Vec<u8>, u32) {
    let mut b = [0u32; 256];
    let mut c = [0u8; 3];
    let mut t = [0u8; 4];
    let (phys, cs, len, tail_len) = g.verif_get_state(&mut b, &mut c, &mut t);
    (b[..phys].to_vec(), c[..cs].to_vec(), t[..tail_len as usize].to_vec(), len)
}

/// `core <vi> <len0> <tail0> <pieces> => obs after each piece … toolarge=<0|1>`
/// starting from an injected `(len, tail)` (buckets and checksum zero).
pub fn emit_core(out: &mut impl Write, vi: usize, len0: u32, tail0: &[u8], pieces: &[Vec<u8>]) {
    with_variant!(vi, T => {
        let r = guarded(|| {
            let mut g = Generator::<T>::new();
            let phys = phys_buckets(vi);
            g.verif_set_state(&vec![0u32; phys], &[0u8; 3], tail0, len0);
            let mut obs = Vec::new();
            for p in pieces {
                g.update(p);
                obs.push(core_obs(&g));
            }
            let too_large = matches!(g.finalize_with_options(&options_from_bits(28)), Err(tlsh::GeneratorError::TooLargeInput));
            // direct oracle (C03): one update with the concatenation reaches the same full state
            let mut g1 = Generator::<T>::new();
            g1.verif_set_state(&vec![0u32; phys], &[0u8; 3], tail0, len0);
            let all: Vec<u8> = pieces.iter().flatten().copied().collect();
            g1.update(&all);
            let same = full_state(&g) == full_state(&g1);
            // direct oracle (C03): a clone continues independently
            let mut g2 = g.clone();
            g2.update(b"xyz");
            let clone_ok = full_state(&g) == full_state(&g1) && {
                let mut g3 = g1.clone();
                g3.update(b"xyz");
                full_state(&g2) == full_state(&g3)
            };
            (obs, too_large, same, clone_ok)
        });
        let head = format!("core {} {} {} {}", vi, len0, hex(tail0), pieces_str(pieces));
        match r {
            Ok((obs, tl, same, clone_ok)) => {
                writeln!(out, "{} => {} toolarge={}", head, join(&obs, ","), tl as u8).unwrap();
                if !same {
                    writeln!(out, "ORACLE C03 chunked-state-differs-from-one-shot {}", head).unwrap();
                }
                if !clone_ok {
                    writeln!(out, "ORACLE C03 clone-not-independent {}", head).unwrap();
                }
            }
            Err(()) => {
                writeln!(out, "{} => panic", head).unwrap();
                writeln!(out, "ORACLE C11 generator-panicked {}", head).unwrap();
            }
        }
    })
}

pub fn stream_core(out: &mut impl Write, seed: u64, budget: usize) {
    let mut rng = Rng::new(seed, 5);
    // exhaustive compositions of every length 0..=9 (2^(n-1) each) for one variant per length
    for len in 0..=9usize {
        let vi = len % 5;
        let data = gen_data(&mut rng, len, 0);
        let ncomp = if len == 0 { 1 } else { 1usize << (len - 1) };
        for comp in 0..ncomp {
            let mut pieces = Vec::new();
            let mut cur = Vec::new();
            for i in 0..len {
                cur.push(data[i]);
                if i + 1 == len || (comp >> i) & 1 == 1 {
                    pieces.push(std::mem::take(&mut cur));
                }
            }
            if comp % 3 == 0 {
                pieces.insert(comp % (pieces.len() + 1), Vec::new());
            }
            emit_core(out, vi, 0, &[], &pieces);
        }
    }
    for i in 0..budget {
        let vi = i % 5;
        let len = pick_len(&mut rng).min(3000);
        let dist = rng.below(5);
        let data = gen_data(&mut rng, len, dist);
        let pieces = chunking(&mut rng, &data);
        // start state: fresh, or a partly / fully filled tail with len near a boundary
        let (len0, tail0): (u32, Vec<u8>) = match rng.below(10) {
            0..=4 => (0, Vec::new()),
            5 => { let k = rng.below(5) as usize; (0, rng.bytes(k)) }
            6 => (4_224_281_216 - 4 - rng.range(0, 40) as u32 + 20, rng.bytes(4)),
            7 => (u32::MAX - 3 - rng.range(0, 40) as u32, rng.bytes(4)),
            8 => (u32::MAX - 3, rng.bytes(4)),
            _ => (rng.next() as u32 % (u32::MAX - 3), rng.bytes(4)),
        };
        emit_core(out, vi, len0, &tail0, &pieces);
    }
}

// ---------------------------------------------------------------------------
// known-answer vectors (corpus/kat.txt)
// ---------------------------------------------------------------------------

fn kat_input(spec: &str) -> Option<Vec<u8>> {
    if let Some(h) = spec.strip_prefix("hex:") {
        return Some(unhex(h));
    }
    if let Some(rest) = spec.strip_prefix("cycle:") {
        // cycle:<first>:<period>:<count>:<final byte hex>
        let f: Vec<&str> = rest.split(':').collect();
        let first: u8 = f[0].parse().ok()?;
        let period: usize = f[1].parse().ok()?;
        let count: usize = f[2].parse().ok()?;
        let mut v: Vec<u8> = (0..count).map(|i| first + (i % period) as u8).collect();
        v.extend_from_slice(&unhex(f[3]));
        return Some(v);
    }
    if let Some(path) = spec.strip_prefix("file:") {
        let root = std::env::var("VERIF_REPO").unwrap_or_else(|_| "/repo".to_string());
        return std::fs::read(std::path::Path::new(&root).join(path)).ok();
    }
    None
}

pub fn stream_kat(out: &mut impl Write, corpus: &str) {
    let text = std::fs::read_to_string(corpus).expect("corpus file");
    for line in text.lines() {
        if line.starts_with('#') || line.trim().is_empty() {
            continue;
        }
        let f: Vec<&str> = line.split(' ').collect();
        let (kind, vi, opts, input, expected) = (f[0], f[1].parse::<usize>().unwrap(), f[2].parse::<u32>().unwrap(), f[3], f[4]);
        let data = match kat_input(input) {
            Some(d) => d,
            None => {
                writeln!(out, "ORACLE C01 kat-input-unavailable {}", line).unwrap();
                continue;
            }
        };
        emit_gen(out, vi, &data, &[data.clone()], &opts.to_string(), &[opts]);
        // the code must reproduce the recorded digest
        let got = with_variant!(vi, T => {
            let mut g = Generator::<T>::new();
            g.update(&data);
            match g.finalize_with_options(&options_from_bits(opts)) {
                Ok(h) => {
                    let mut buf = vec![0u8; variant_str_len(vi)];
                    h.store_into_str_bytes(&mut buf, tlsh::HexStringPrefix::WithVersion).unwrap();
                    String::from_utf8(buf).unwrap()
                }
                Err(e) => format!("err:{:?}", e),
            }
        });
        if got != expected {
            writeln!(out, "ORACLE C01 kat-{}-digest-not-reproduced expected={} got={} input={}", kind, expected, got, &input[..input.len().min(80)]).unwrap();
        }
    }
}

// ---------------------------------------------------------------------------
// real multi-GiB streams (thorough tier, C11): total sizes around MAX and 2^32
// ---------------------------------------------------------------------------

/// `huge <vi> <n> => <processed_len> toolarge=<0|1> lvalue=<code|->`
/// feeds `n` bytes of a periodic pattern in pieces of 1 MiB + 1.
pub fn stream_huge(out: &mut impl Write, which: usize) {
    let sizes: [u64; 6] = [4_224_281_215, 4_224_281_216, 4_224_281_217, (1u64 << 32) - 1, 1u64 << 32, (1u64 << 32) + 5];
    let piece: Vec<u8> = (0..(1usize << 20) + 1).map(|i| (i % 251) as u8 ^ ((i >> 9) as u8)).collect();
    let sel: Vec<(usize, u64)> = sizes.iter().enumerate().map(|(i, &n)| ([1usize, 0, 3, 1, 0, 3][i], n)).collect();
    let handles: Vec<_> = sel
        .into_iter()
        .enumerate()
        .filter(|(i, _)| which == 0 || *i < which)
        .map(|(_, (vi, n))| {
            let piece = piece.clone();
            std::thread::spawn(move || {
                with_variant!(vi, T => {
                    let mut g = Generator::<T>::new();
                    let mut left = n;
                    while left > 0 {
                        let k = (piece.len() as u64).min(left) as usize;
                        g.update(&piece[..k]);
                        left -= k as u64;
                    }
                    let plen = len_str(g.processed_len());
                    let r = g.finalize_with_options(&options_from_bits(28));
                    let (tl, lv) = match &r {
                        Err(tlsh::GeneratorError::TooLargeInput) => (1, "-".to_string()),
                        Ok(h) => (0, h.length().value().to_string()),
                        Err(_) => (0, "err".to_string()),
                    };
                    format!("huge {} {} => {} toolarge={} lvalue={}", vi, n, plen, tl, lv)
                })
            })
        })
        .collect();
    for h in handles {
        writeln!(out, "{}", h.join().unwrap()).unwrap();
    }
}


// ---------------------------------------------------------------------------
// a single update() piece of 4 GiB or more (C03 / C11): the state is placed just
// below MAX_LEN through the hook, so the correct code consumes only a few bytes
// of the (lazily zeroed) giant slice.
// ---------------------------------------------------------------------------

pub fn stream_hugepiece(out: &mut impl Write, seed: u64) {
    let mut rng = Rng::new(seed, 6);
    let sizes: [usize; 3] = [1usize << 32, (1usize << 32) + 256, (1usize << 32) + 1000];
    let big: Vec<u8> = vec![0u8; sizes[2]]; // calloc: pages are mapped lazily
    for (i, &n) in sizes.iter().enumerate() {
        for room in [5u32, 300, 1000] {
            let vi = (i + room as usize) % 5;
            let len0 = (u32::MAX - 3) - room;
            let tail0 = rng.bytes(4);
            let npre = rng.below(3) as usize;
            let pre = rng.bytes(npre);
            with_variant!(vi, T => {
                let r = guarded(|| {
                    let phys = phys_buckets(vi);
                    let mut g = Generator::<T>::new();
                    g.verif_set_state(&vec![0u32; phys], &[0u8; 3], &tail0, len0);
                    let mut obs = Vec::new();
                    g.update(&pre);
                    obs.push(core_obs(&g));
                    g.update(&big[..n]);
                    obs.push(core_obs(&g));
                    let too_large = matches!(g.finalize_with_options(&options_from_bits(28)), Err(tlsh::GeneratorError::TooLargeInput));
                    // direct oracle (C03): the same bytes in two pieces of about 2 GiB each
                    let mut g1 = Generator::<T>::new();
                    g1.verif_set_state(&vec![0u32; phys], &[0u8; 3], &tail0, len0);
                    g1.update(&pre);
                    g1.update(&big[..n / 2]);
                    g1.update(&big[n / 2..n]);
                    let same = full_state(&g) == full_state(&g1);
                    (obs, too_large, same)
                });
                let head = format!("core {} {} {} {},Z{}", vi, len0, hex(&tail0), if pre.is_empty() { ".".to_string() } else { hex(&pre) }, n);
                match r {
                    Ok((obs, tl, same)) => {
                        writeln!(out, "{} => {} toolarge={}", head, join(&obs, ","), tl as u8).unwrap();
                        if !same {
                            writeln!(out, "ORACLE C03 one-huge-piece-differs-from-two-pieces {}", head).unwrap();
                            writeln!(out, "ORACLE C11 one-huge-piece-differs-from-two-pieces {}", head).unwrap();
                        }
                    }
                    Err(()) => {
                        writeln!(out, "{} => panic", head).unwrap();
                        writeln!(out, "ORACLE C11 generator-panicked {}", head).unwrap();
                    }
                }
            });
        }
    }
    // A generator whose tail is not yet full and whose counter is far from the limit: the whole
    // first 4 GiB really are processed (about ten seconds each in a release build; skipped in dev
    // builds).  One piece versus two pieces, concurrently.
    if !cfg!(debug_assertions) {
        let big = &big;
        let cases: [(usize, &[u8], usize); 2] = [(1, &[], 1usize << 32), (0, &[0x41], (1usize << 32) + 256)];
        let lines: Vec<String> = std::thread::scope(|sc| {
            let hs: Vec<_> = cases.iter().map(|&(vi, pre, n)| sc.spawn(move || {
                with_variant!(vi, T => {
                    let r = guarded(|| {
                        std::thread::scope(|s2| {
                            let one = s2.spawn(move || {
                                let mut g = Generator::<T>::new();
                                let mut obs = Vec::new();
                                if !pre.is_empty() { g.update(pre); obs.push(core_obs(&g)); }
                                g.update(&big[..n]);
                                obs.push(core_obs(&g));
                                let tl = matches!(g.finalize_with_options(&options_from_bits(28)), Err(tlsh::GeneratorError::TooLargeInput));
                                (obs, tl, full_state(&g))
                            });
                            let two = s2.spawn(move || {
                                let mut g1 = Generator::<T>::new();
                                if !pre.is_empty() { g1.update(pre); }
                                g1.update(&big[..n / 2]);
                                g1.update(&big[n / 2..n]);
                                full_state(&g1)
                            });
                            let (obs, tl, st) = one.join().map_err(|_| ())?;
                            let st1 = two.join().map_err(|_| ())?;
                            Ok::<_, ()>((obs, tl, st == st1))
                        })
                    });
                    let head = format!("core {} 0 - {}Z{}", vi, if pre.is_empty() { String::new() } else { format!("{},", hex(pre)) }, n);
                    match r {
                        Ok(Ok((obs, tl, same))) => {
                            let mut l = format!("{} => {} toolarge={}", head, join(&obs, ","), tl as u8);
                            if !same {
                                l.push_str(&format!("\nORACLE C03 one-huge-piece-differs-from-two-pieces {}\nORACLE C11 one-huge-piece-differs-from-two-pieces {}", head, head));
                            }
                            l
                        }
                        _ => format!("{} => panic\nORACLE C11 generator-panicked {}", head, head),
                    }
                })
            })).collect();
            hs.into_iter().map(|h| h.join().unwrap()).collect()
        });
        for l in lines { writeln!(out, "{}", l).unwrap(); }
    }
}
