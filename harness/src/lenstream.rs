//! Length-code streams (C09) and length-limit constants (C10).

use crate::util::*;
use crate::with_variant;
use std::io::Write;
use tlsh::length::{DataLengthProcessingMode, DataLengthValidity, FuzzyHashLengthEncoding};
use tlsh::generate::Generator;
use tlsh::GeneratorType;

thread_local! { static LEN_ENTRY_POINTS_DISAGREE: std::cell::Cell<bool> = std::cell::Cell::new(false); }

fn enc(n: u32) -> Option<u8> {
    let a = FuzzyHashLengthEncoding::new(n).map(|x| x.value());
    // the conversion trait is the same function
    let b = FuzzyHashLengthEncoding::try_from(n).ok().map(|x| x.value());
    if a != b { LEN_ENTRY_POINTS_DISAGREE.with(|c| c.set(true)); }
    a
}

fn enc_str(n: u32) -> String {
    match enc(n) { Some(c) => format!("some:{}", c), None => "none".to_string() }
}

pub fn stream_len(out: &mut impl Write, seed: u64, budget: usize) {
    stream_len_inner(out, seed, budget);
    if LEN_ENTRY_POINTS_DISAGREE.with(|c| c.replace(false)) {
        writeln!(out, "ORACLE C09 try-from-u32-differs-from-new").unwrap();
    }
}

fn stream_len_inner(out: &mut impl Write, seed: u64, budget: usize) {
    let mut rng = Rng::new(seed, 30);
    // boundaries: powers of two and neighbours
    for k in 0..32 {
        let p = 1u32 << k;
        for n in [p.wrapping_sub(2), p.wrapping_sub(1), p, p.wrapping_add(1), p.wrapping_add(2)] {
            writeln!(out, "lenc {} => {}", n, enc_str(n)).unwrap();
        }
    }
    for n in [0u32, 1, 2, 3, u32::MAX, u32::MAX - 1, 4_224_281_215, 4_224_281_216, 4_224_281_217] {
        writeln!(out, "lenc {} => {}", n, enc_str(n)).unwrap();
    }
    // every code: range, validity, and the encodings at / around the range ends
    for c in 0..=255u8 {
        // obtain a FuzzyHashLengthEncoding with raw value c through the public parser of a Normal hash
        let mut bin = vec![0u8; 35];
        bin[1] = c;
        let r = guarded(|| {
            let h = tlsh::hashes::Normal::try_from(&bin[..]);
            match h {
                Ok(h) => {
                    use tlsh::FuzzyHashType;
                    let l = h.length();
                    let rg = l.range();
                    let s = match &rg { Some(r) => format!("some:{}:{}", r.start(), r.end()), None => "none".to_string() };
                    Some((s, l.is_valid(), rg))
                }
                Err(_) => None,
            }
        });
        if let Ok(Some((s, valid, rg))) = r {
            writeln!(out, "lrange {} => {} valid={}", c, s, valid as u8).unwrap();
            if let Some(rg) = rg {
                for n in [*rg.start(), *rg.end(), rg.start().saturating_sub(1), rg.end().saturating_add(1)] {
                    writeln!(out, "lenc {} => {}", n, enc_str(n)).unwrap();
                    // direct oracle: the range contains exactly the lengths that encode to it
                    let inside = rg.contains(&n);
                    if (enc(n) == Some(c)) != inside && !(c == 0 && n <= 1) {
                        writeln!(out, "ORACLE C09 range-disagrees-with-encoding code={} n={}", c, n).unwrap();
                    }
                }
            }
        }
    }
    for _ in 0..budget {
        let n = match rng.below(4) {
            0 => rng.next() as u32,
            1 => (rng.next() as u32) >> rng.range(0, 31),
            2 => 4_224_281_216u32.wrapping_add(rng.range(0, 2000) as u32).wrapping_sub(1000),
            _ => rng.range(0, 5000) as u32,
        };
        writeln!(out, "lenc {} => {}", n, enc_str(n)).unwrap();
    }
}

/// Exhaustive sweep of all 2^32 lengths in 16 threads: emits the break points.
pub fn stream_len_sweep(out: &mut impl Write) {
    let threads = 16u64;
    let chunk = (1u64 << 32) / threads;
    let handles: Vec<_> = (0..threads)
        .map(|t| {
            std::thread::spawn(move || {
                let lo = t * chunk;
                let hi = lo + chunk;
                let mut breaks: Vec<(u32, Option<u8>)> = Vec::new();
                let mut prev = enc(lo as u32);
                breaks.push((lo as u32, prev));
                let mut mono = true;
                let mut n = lo + 1;
                while n < hi {
                    let c = enc(n as u32);
                    if c != prev {
                        // monotone: Some(a) -> Some(b) with b > a, or Some -> None; never None -> Some
                        mono &= match (prev, c) { (Some(a), Some(b)) => b > a, (Some(_), None) => true, _ => false };
                        breaks.push((n as u32, c));
                        prev = c;
                    }
                    n += 1;
                }
                (breaks, mono)
            })
        })
        .collect();
    let mut all: Vec<(u32, Option<u8>)> = Vec::new();
    let mut mono = true;
    for h in handles {
        let (b, m) = h.join().unwrap();
        mono &= m;
        for e in b {
            if all.last().map(|l| l.1) != Some(e.1) {
                if let Some(l) = all.last() {
                    mono &= match (l.1, e.1) { (Some(a), Some(b)) => b > a, (Some(_), None) => true, _ => false };
                }
                all.push(e);
            }
        }
    }
    let s: Vec<String> = all.iter().map(|(n, c)| format!("{}:{}", n, match c { Some(c) => c.to_string(), None => "none".to_string() })).collect();
    writeln!(out, "lsweep => {}", s.join(",")).unwrap();
    if !mono {
        writeln!(out, "ORACLE C09 length-code-not-monotone lsweep").unwrap();
    }
}

fn validity_str(v: DataLengthValidity) -> &'static str {
    match v {
        DataLengthValidity::TooSmall => "TooSmall",
        DataLengthValidity::ValidWhenOptimistic => "ValidWhenOptimistic",
        DataLengthValidity::Valid => "Valid",
        DataLengthValidity::TooLarge => "TooLarge",
    }
}

/// `lenlimits <vi> <len> => <validity> <is_err> <err_opt> <err_cons> <MIN> <MIN_CONSERVATIVE> <MAX>`
pub fn stream_limits(out: &mut impl Write, seed: u64, budget: usize) {
    // published constants of every variant, and the aliases: `consts <vi> => buckets bytes str str-2 aliases`
    for vi in 0..5 {
        with_variant!(vi, T => {
            use tlsh::FuzzyHashType;
            let alias_ok = std::any::TypeId::of::<tlsh::Tlsh>() == std::any::TypeId::of::<tlsh::hashes::Normal>()
                && std::any::TypeId::of::<tlsh::TlshGenerator>() == std::any::TypeId::of::<Generator<tlsh::hashes::Normal>>()
                && std::any::TypeId::of::<tlsh::TlshGeneratorFor<T>>() == std::any::TypeId::of::<Generator<T>>()
                && std::any::TypeId::of::<<Generator<T> as tlsh::GeneratorType>::Output>() == std::any::TypeId::of::<T>();
            writeln!(out, "consts {} => {} {} {} {} {}", vi, T::NUMBER_OF_BUCKETS, T::SIZE_IN_BYTES, T::LEN_IN_STR,
                     T::LEN_IN_STR_EXCEPT_PREFIX, alias_ok as u8).unwrap();
        });
    }
    let mut rng = Rng::new(seed, 31);
    let mut lens: Vec<u32> = vec![0, 1, 9, 10, 11, 49, 50, 51, 127, 128, 129, 4_224_281_215, 4_224_281_216, 4_224_281_217, u32::MAX];
    // truncation-shaped lengths: 2^k + d and m * 2^16 + d for small d (a classification that looks at a
    // narrowed copy of the length only goes wrong there)
    for k in 8..32u32 { for d in [0u32, 1, 9, 10, 49, 50, 127, 128, 200] { lens.push((1u32 << k).wrapping_add(d)); lens.push((1u32 << k).wrapping_sub(d + 1)); } }
    for _ in 0..budget / 2 { let m = rng.range(1, 65535) as u32; lens.push((m << 16).wrapping_add(rng.range(0, 260) as u32)); }
    for _ in 0..budget { lens.push(match rng.below(3) { 0 => rng.range(0, 300) as u32, 1 => rng.next() as u32, _ => 4_224_281_216u32.wrapping_add(rng.range(0, 200) as u32).wrapping_sub(100) }); }
    for vi in 0..5 {
        for &len in &lens {
            let v = match VARIANT_BUCKETS[vi] { 48 => DataLengthValidity::new::<48>(len), 128 => DataLengthValidity::new::<128>(len), _ => DataLengthValidity::new::<256>(len) };
            let (mn, mc, mx) = with_variant!(vi, T => (Generator::<T>::MIN, Generator::<T>::MIN_CONSERVATIVE, Generator::<T>::MAX));
            writeln!(out, "lenlimits {} {} => {} {} {} {} {} {} {}", vi, len, validity_str(v), v.is_err() as u8,
                v.is_err_on(DataLengthProcessingMode::Optimistic) as u8, v.is_err_on(DataLengthProcessingMode::Conservative) as u8, mn, mc, mx).unwrap();
            // direct oracle (C10): the classification is the one the generator's published constants define
            let expect = if len > mx { "TooLarge" } else if len < mn { "TooSmall" } else if len < mc { "ValidWhenOptimistic" } else { "Valid" };
            if validity_str(v) != expect {
                writeln!(out, "ORACLE C10 validity-differs-from-published-constants lenlimits {} {} => {} expected {}", vi, len, validity_str(v), expect).unwrap();
            }
        }
    }
}
