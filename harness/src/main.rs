//! tlsh-probe: runs the real fast-tlsh code on structured inputs and writes
//! one operation per line together with the observed result, for the Lean
//! model driver to replay (DESIGN §5).
//!
//!   tlsh-probe <stream> [--seed N] [--budget K] [--out FILE]

extern crate tlsh;

mod aggstream;
mod allocstream;
mod cmpstream;
mod codecstream;
#[cfg(feature = "easy")]
mod easystream;
mod genstream;
mod lenstream;
mod ministream;
mod tblstream;
#[cfg(feature = "serde")]
mod serdestream;
mod util;

use std::io::Write;

#[global_allocator]
static GLOBAL: allocstream::Counting = allocstream::Counting;

fn main() {
    let args: Vec<String> = std::env::args().collect();
    if args.len() < 2 {
        eprintln!("usage: tlsh-probe <stream> [--seed N] [--budget K] [--out FILE]");
        std::process::exit(2);
    }
    let stream = args[1].clone();
    let mut seed = 0u64;
    let mut budget = 1000usize;
    let mut out_path: Option<String> = None;
    let mut corpus = String::from("/verif/corpus");
    let mut i = 2;
    while i < args.len() {
        match args[i].as_str() {
            "--seed" => {
                seed = args[i + 1].parse().unwrap();
                i += 2;
            }
            "--budget" => {
                budget = args[i + 1].parse().unwrap();
                i += 2;
            }
            "--corpus" => {
                corpus = args[i + 1].clone();
                i += 2;
            }
            "--out" => {
                out_path = Some(args[i + 1].clone());
                i += 2;
            }
            x => {
                eprintln!("unknown argument {}", x);
                std::process::exit(2);
            }
        }
    }
    // silence panic messages: panics are results here
    std::panic::set_hook(Box::new(|_| {}));
    let sink: Box<dyn Write> = match out_path {
        Some(p) => Box::new(std::fs::File::create(p).unwrap()),
        None => Box::new(std::io::stdout()),
    };
    let mut out = std::io::BufWriter::with_capacity(1 << 20, sink);
    // header: build configuration
    let cfg: Vec<String> = tlsh::verif::build_config()
        .iter()
        .map(|(k, v)| format!("{}={}", k, if *v { 1 } else { 0 }))
        .collect();
    writeln!(out, "cfg {}", cfg.join(" ")).unwrap();
    match stream.as_str() {
        "gen" => genstream::stream_gen(&mut out, seed, budget),
        "gen-large" => genstream::stream_gen_large(&mut out, seed, budget),
        "state" => genstream::stream_state(&mut out, seed, budget),
        "hist" => genstream::stream_hist(&mut out, seed, budget),
        "core" => genstream::stream_core(&mut out, seed, budget),
        "huge" => genstream::stream_huge(&mut out, budget),
        "hugepiece" => genstream::stream_hugepiece(&mut out, seed),
        "parse" => codecstream::stream_parse(&mut out, seed, budget),
        "parse-sweep" => codecstream::stream_parse_sweep(&mut out, seed, budget),
        "fmt" => codecstream::stream_fmt(&mut out, seed, budget),
        "frombin" => codecstream::stream_frombin(&mut out, seed, budget),
        "store" => codecstream::stream_store(&mut out, seed, budget),
        "acc" => codecstream::stream_acc(&mut out, seed, budget),
        "cmp" => cmpstream::stream_cmp(&mut out, seed, budget),
        "body" => cmpstream::stream_body(&mut out, seed, budget),
        "bodyrows" => cmpstream::stream_body_rows(&mut out, seed, budget),
        "hdr" => cmpstream::stream_hdr(&mut out),
        "len" => lenstream::stream_len(&mut out, seed, budget),
        "len-sweep" => lenstream::stream_len_sweep(&mut out),
        "limits" => lenstream::stream_limits(&mut out, seed, budget),
        #[cfg(feature = "easy")]
        "stream" => easystream::stream_stream(&mut out, seed, budget),
        #[cfg(feature = "easy")]
        "file" => easystream::stream_file(&mut out, seed),
        #[cfg(feature = "easy")]
        "hugestream" => easystream::stream_hugestream(&mut out),
        #[cfg(feature = "easy")]
        "lie" => easystream::stream_lie(&mut out),
        #[cfg(feature = "easy")]
        "lie-child" => { easystream::lie_child(seed as usize, budget); return; }
        #[cfg(feature = "easy")]
        "cmpstr" => easystream::stream_cmpstr(&mut out, seed, budget),
        #[cfg(feature = "serde")]
        "serde" => serdestream::stream_serde(&mut out, seed, budget),
        "alloc" => allocstream::stream_alloc(&mut out, seed, budget),
        "agg" => aggstream::stream_agg(&mut out, seed, budget),
        "tables" => tblstream::stream_tables(&mut out, seed, budget),
        #[cfg(feature = "easy")]
        "race" => tblstream::stream_race(&mut out, seed, budget),
        #[cfg(feature = "easy")]
        "race-child" => { tblstream::race_child(seed); return; }
        "mini" => ministream::stream_mini(&mut out, seed, budget),
        "kat" => genstream::stream_kat(&mut out, &format!("{}/kat.txt", corpus)),
        x => {
            eprintln!("unknown stream {}", x);
            std::process::exit(2);
        }
    }
    out.flush().unwrap();
}
