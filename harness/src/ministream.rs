//! `mini`: one or two operations of every kind for every variant — small enough to run under an
//! interpreter that checks for undefined behaviour (Miri) in a few minutes.  The lines are ordinary
//! operation lines, so the model driver replays them like any other stream.
use std::io::Write;

use crate::codecstream::{emit_acc, emit_fmt, emit_frombin, emit_parse, emit_store, hash_text, random_hash_bytes};
use crate::cmpstream::emit_cmp;
use crate::genstream::{chunking, emit_gen, emit_hist, gen_data};
use crate::util::*;

pub fn stream_mini(out: &mut impl Write, seed: u64, budget: usize) {
    let mut rng = Rng::new(seed, 77);
    let all: Vec<u32> = (0..32).collect();
    for round in 0..budget.max(1) {
        for vi in 0..5 {
            // generator: a few hundred bytes in pieces, every option setting
            let len = [0usize, 3, 60, 300, 700][(round + vi) % 5];
            let data = gen_data(&mut rng, len, (round as u64) % 4);
            let pieces = chunking(&mut rng, &data);
            emit_gen(out, vi, &data, &pieces, "*", &all);
            emit_hist(out, vi, &["u:0102030405".to_string(), "f:0".to_string(), "c".to_string(),
                                 format!("u:{}", hex(&data[..data.len().min(40)])), "f:31".to_string(), "s:0".to_string(),
                                 "u:ff".to_string(), "f:7".to_string()]);
            // codec
            let bin = random_hash_bytes(&mut rng, vi);
            let n = variant_bin_len(vi);
            let text = hash_text(vi, &bin, true);
            emit_parse(out, vi, 'n', &text);
            emit_parse(out, vi, 'n', &text[2..]);
            emit_parse(out, vi, 'w', &text[..text.len() - 1]);
            let mut bad = text.clone();
            let p = rng.below(bad.len() as u64) as usize;
            bad[p] = b'g';
            emit_parse(out, vi, 'n', &bad);
            emit_parse(out, vi, 'e', &[]);
            emit_fmt(out, vi, &bin);
            emit_frombin(out, vi, &bin);
            emit_frombin(out, vi, &bin[..n - 1]);
            let mut long = bin.clone();
            long.push(0);
            emit_frombin(out, vi, &long);
            for form in ['b', 'e', 'w'] {
                let nn = match form { 'b' => n, 'e' => variant_str_len(vi) - 2, _ => variant_str_len(vi) };
                for l in [0usize, nn - 1, nn, nn + 9] { emit_store(out, vi, form, l, 0xa5, &bin); }
            }
            emit_acc(out, vi, &bin);
            // comparison
            let other = random_hash_bytes(&mut rng, vi);
            emit_cmp(out, vi, &bin, &other);
            emit_cmp(out, vi, &bin, &bin);
        }
    }
    if !cfg!(miri) { crate::lenstream::stream_len(out, seed, 8); }
    #[cfg(feature = "easy")]
    {
        use crate::easystream::{emit_stream, Ev};
        // short reader scripts (the stream helper allocates and zeroes its 1 MiB buffer whatever the input)
        emit_stream(out, 1, &[Ev::Deliver(vec![7u8; 100]), Ev::Interrupted, Ev::Deliver((0..200u32).map(|i| (i * 7) as u8).collect()), Ev::Zero]);
        emit_stream(out, 0, &[Ev::Deliver((0..90u32).map(|i| (i * 13) as u8).collect()), Ev::Zero]);
        crate::easystream::stream_cmpstr(out, seed, 6);
    }
}
