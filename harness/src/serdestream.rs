//! serde streams (C16): a scripted `Deserializer` that delivers one chosen
//! `Visitor` event, a recording `Serializer`, and the three real format crates.

use crate::codecstream::{hash_bin, hash_text, random_hash_bytes};
use crate::util::*;
use crate::with_variant;
use serde::de::{self, Visitor};
use serde::ser;
use std::io::Write;
use tlsh::FuzzyHashType;

#[derive(Clone, Debug)]
pub enum Ev {
    Str(String),
    BorrowedStr(String),
    StringOwned(String),
    Bytes(Vec<u8>),
    BorrowedBytes(Vec<u8>),
    ByteBuf(Vec<u8>),
    Bool(bool),
    I64(i64),
    U64(u64),
    U8(u8),
    F64(f64),
    Char(char),
    Unit,
    None,
    SomeStr(String),
    NewtypeStr(String),
    SeqBytes(Vec<u8>),
    MapEmpty,
}

fn ev_str(e: &Ev) -> String {
    match e {
        Ev::Str(s) => format!("str:{}", hex(s.as_bytes())),
        Ev::BorrowedStr(s) => format!("bstr:{}", hex(s.as_bytes())),
        Ev::StringOwned(s) => format!("string:{}", hex(s.as_bytes())),
        Ev::Bytes(b) => format!("bytes:{}", hex(b)),
        Ev::BorrowedBytes(b) => format!("bbytes:{}", hex(b)),
        Ev::ByteBuf(b) => format!("bytebuf:{}", hex(b)),
        Ev::Bool(b) => format!("other:bool{}", *b as u8),
        Ev::I64(x) => format!("other:i64_{}", x),
        Ev::U64(x) => format!("other:u64_{}", x),
        Ev::U8(x) => format!("other:u8_{}", x),
        Ev::F64(_) => "other:f64".to_string(),
        Ev::Char(_) => "other:char".to_string(),
        Ev::Unit => "other:unit".to_string(),
        Ev::None => "other:none".to_string(),
        Ev::SomeStr(s) => format!("other:some_{}", hex(s.as_bytes())),
        Ev::NewtypeStr(s) => format!("other:newtype_{}", hex(s.as_bytes())),
        Ev::SeqBytes(b) => format!("other:seq_{}", hex(b)),
        Ev::MapEmpty => "other:map".to_string(),
    }
}

pub struct MockDe {
    pub hr: bool,
    pub ev: Ev,
}

struct StrDe(String);
impl<'de> de::Deserializer<'de> for StrDe {
    type Error = de::value::Error;
    fn deserialize_any<V: Visitor<'de>>(self, v: V) -> Result<V::Value, Self::Error> {
        v.visit_str(&self.0)
    }
    serde::forward_to_deserialize_any! { bool i8 i16 i32 i64 i128 u8 u16 u32 u64 u128 f32 f64 char str string bytes byte_buf option unit unit_struct newtype_struct seq tuple tuple_struct map struct enum identifier ignored_any }
}

struct SeqAcc(Vec<u8>, usize);
impl<'de> de::SeqAccess<'de> for SeqAcc {
    type Error = de::value::Error;
    fn next_element_seed<T: de::DeserializeSeed<'de>>(&mut self, seed: T) -> Result<Option<T::Value>, Self::Error> {
        if self.1 >= self.0.len() {
            return Ok(None);
        }
        let b = self.0[self.1];
        self.1 += 1;
        seed.deserialize(de::value::U8Deserializer::new(b)).map(Some)
    }
}
struct MapAcc;
impl<'de> de::MapAccess<'de> for MapAcc {
    type Error = de::value::Error;
    fn next_key_seed<K: de::DeserializeSeed<'de>>(&mut self, _seed: K) -> Result<Option<K::Value>, Self::Error> {
        Ok(None)
    }
    fn next_value_seed<V: de::DeserializeSeed<'de>>(&mut self, _seed: V) -> Result<V::Value, Self::Error> {
        Err(de::Error::custom("no value"))
    }
}

impl<'de> de::Deserializer<'de> for &'de MockDe {
    type Error = de::value::Error;
    fn is_human_readable(&self) -> bool {
        self.hr
    }
    fn deserialize_any<V: Visitor<'de>>(self, v: V) -> Result<V::Value, Self::Error> {
        match &self.ev {
            Ev::Str(s) => v.visit_str(s),
            Ev::BorrowedStr(s) => v.visit_borrowed_str(s),
            Ev::StringOwned(s) => v.visit_string(s.clone()),
            Ev::Bytes(b) => v.visit_bytes(b),
            Ev::BorrowedBytes(b) => v.visit_borrowed_bytes(b),
            Ev::ByteBuf(b) => v.visit_byte_buf(b.clone()),
            Ev::Bool(b) => v.visit_bool(*b),
            Ev::I64(x) => v.visit_i64(*x),
            Ev::U64(x) => v.visit_u64(*x),
            Ev::U8(x) => v.visit_u8(*x),
            Ev::F64(x) => v.visit_f64(*x),
            Ev::Char(c) => v.visit_char(*c),
            Ev::Unit => v.visit_unit(),
            Ev::None => v.visit_none(),
            Ev::SomeStr(s) => v.visit_some(StrDe(s.clone())),
            Ev::NewtypeStr(s) => v.visit_newtype_struct(StrDe(s.clone())),
            Ev::SeqBytes(b) => v.visit_seq(SeqAcc(b.clone(), 0)),
            Ev::MapEmpty => v.visit_map(MapAcc),
        }
    }
    serde::forward_to_deserialize_any! { bool i8 i16 i32 i64 i128 u8 u16 u32 u64 u128 f32 f64 char str string bytes byte_buf option unit unit_struct newtype_struct seq tuple tuple_struct map struct enum identifier ignored_any }
}

/// Recording serializer: accepts exactly `serialize_str` / `serialize_bytes`.
pub struct RecSer {
    pub hr: bool,
}
#[derive(Debug)]
pub struct RecErr(String);
impl std::fmt::Display for RecErr {
    fn fmt(&self, f: &mut std::fmt::Formatter<'_>) -> std::fmt::Result {
        f.write_str(&self.0)
    }
}
impl std::error::Error for RecErr {}
impl ser::Error for RecErr {
    fn custom<T: std::fmt::Display>(msg: T) -> Self {
        RecErr(msg.to_string())
    }
}
macro_rules! unsupported {
    ($($name:ident($t:ty)),*) => { $( fn $name(self, _v: $t) -> Result<String, RecErr> { Err(RecErr(stringify!($name).to_string())) } )* };
}
impl ser::Serializer for RecSer {
    type Ok = String;
    type Error = RecErr;
    type SerializeSeq = ser::Impossible<String, RecErr>;
    type SerializeTuple = ser::Impossible<String, RecErr>;
    type SerializeTupleStruct = ser::Impossible<String, RecErr>;
    type SerializeTupleVariant = ser::Impossible<String, RecErr>;
    type SerializeMap = ser::Impossible<String, RecErr>;
    type SerializeStruct = ser::Impossible<String, RecErr>;
    type SerializeStructVariant = ser::Impossible<String, RecErr>;
    fn is_human_readable(&self) -> bool {
        self.hr
    }
    fn serialize_str(self, v: &str) -> Result<String, RecErr> {
        Ok(format!("str:{}", hex(v.as_bytes())))
    }
    fn serialize_bytes(self, v: &[u8]) -> Result<String, RecErr> {
        Ok(format!("bytes:{}", hex(v)))
    }
    unsupported!(serialize_bool(bool), serialize_i8(i8), serialize_i16(i16), serialize_i32(i32), serialize_i64(i64),
        serialize_u8(u8), serialize_u16(u16), serialize_u32(u32), serialize_u64(u64), serialize_f32(f32), serialize_f64(f64),
        serialize_char(char), serialize_unit_struct(&'static str));
    fn serialize_none(self) -> Result<String, RecErr> { Err(RecErr("none".into())) }
    fn serialize_some<T: ?Sized + ser::Serialize>(self, _v: &T) -> Result<String, RecErr> { Err(RecErr("some".into())) }
    fn serialize_unit(self) -> Result<String, RecErr> { Err(RecErr("unit".into())) }
    fn serialize_unit_variant(self, _n: &'static str, _i: u32, _v: &'static str) -> Result<String, RecErr> { Err(RecErr("uv".into())) }
    fn serialize_newtype_struct<T: ?Sized + ser::Serialize>(self, _n: &'static str, _v: &T) -> Result<String, RecErr> { Err(RecErr("ns".into())) }
    fn serialize_newtype_variant<T: ?Sized + ser::Serialize>(self, _n: &'static str, _i: u32, _v: &'static str, _x: &T) -> Result<String, RecErr> { Err(RecErr("nv".into())) }
    fn serialize_seq(self, _l: Option<usize>) -> Result<Self::SerializeSeq, RecErr> { Err(RecErr("seq".into())) }
    fn serialize_tuple(self, _l: usize) -> Result<Self::SerializeTuple, RecErr> { Err(RecErr("tuple".into())) }
    fn serialize_tuple_struct(self, _n: &'static str, _l: usize) -> Result<Self::SerializeTupleStruct, RecErr> { Err(RecErr("ts".into())) }
    fn serialize_tuple_variant(self, _n: &'static str, _i: u32, _v: &'static str, _l: usize) -> Result<Self::SerializeTupleVariant, RecErr> { Err(RecErr("tv".into())) }
    fn serialize_map(self, _l: Option<usize>) -> Result<Self::SerializeMap, RecErr> { Err(RecErr("map".into())) }
    fn serialize_struct(self, _n: &'static str, _l: usize) -> Result<Self::SerializeStruct, RecErr> { Err(RecErr("struct".into())) }
    fn serialize_struct_variant(self, _n: &'static str, _i: u32, _v: &'static str, _l: usize) -> Result<Self::SerializeStructVariant, RecErr> { Err(RecErr("sv".into())) }
}

/// `de <vi> <hr> <event> => ok:<bin>|err|panic`
pub fn emit_de(out: &mut impl Write, vi: usize, hr: bool, ev: &Ev) {
    let bin_len = variant_bin_len(vi);
    with_variant!(vi, T => {
        let m = MockDe { hr, ev: ev.clone() };
        let r = guarded(|| {
            let r: Result<T, _> = serde::Deserialize::deserialize(&m);
            match r { Ok(h) => format!("ok:{}", hash_bin(&h, bin_len)), Err(_) => "err".to_string() }
        });
        let head = format!("de {} {} {}", vi, hr as u8, ev_str(ev));
        // direct oracle (C16): deserialisation accepts exactly what the matching parser of THIS build accepts,
        // with the same value — the text parser (prefix auto-detected) for human-readable formats, the
        // slice parser for compact ones; every other event is an error
        let expect: String = {
            let text: Option<&[u8]> = match ev { Ev::Str(s) | Ev::BorrowedStr(s) | Ev::StringOwned(s) => Some(s.as_bytes()), _ => None };
            let bytes: Option<&[u8]> = match ev { Ev::Bytes(b) | Ev::BorrowedBytes(b) | Ev::ByteBuf(b) => Some(b.as_slice()), _ => None };
            let parsed: Option<Result<T, tlsh::ParseError>> = if hr { text.or(bytes).map(|t| T::from_str_bytes(t, None)) } else { bytes.map(|b| T::try_from(b)) };
            match parsed { Some(Ok(h)) => format!("ok:{}", hash_bin(&h, bin_len)), _ => "err".to_string() }
        };
        match r {
            Ok(s) => {
                writeln!(out, "{} => {}", head, s).unwrap();
                if s != expect { writeln!(out, "ORACLE C16 deserialize-differs-from-the-matching-parser expected={} {}", &expect[..expect.len().min(40)], head).unwrap(); }
            }
            Err(()) => {
                writeln!(out, "{} => panic", head).unwrap();
                writeln!(out, "ORACLE C16 deserialize-panicked {}", head).unwrap();
            }
        }
    })
}

/// `ser <vi> <hr> <bin> => str:<hex>|bytes:<hex>` + round trips through the real format crates
pub fn emit_ser(out: &mut impl Write, vi: usize, bin: &[u8]) {
    let bin_len = variant_bin_len(vi);
    with_variant!(vi, T => {
        let h = match T::try_from(bin) { Ok(h) => h, Err(_) => return };
        for hr in [true, false] {
            let r = serde::Serialize::serialize(&h, RecSer { hr });
            let s = match r { Ok(s) => s, Err(e) => format!("err:{}", e) };
            writeln!(out, "ser {} {} {} => {}", vi, hr as u8, hex(bin), s).unwrap();
            // direct oracle (C16): exactly the "T1" text / exactly the stored bytes
            let expect = if hr { format!("str:{}", hex(h.to_string().as_bytes())) } else {
                let mut raw = vec![0u8; bin_len]; h.store_into_bytes(&mut raw).unwrap(); format!("bytes:{}", hex(&raw)) };
            if s != expect { writeln!(out, "ORACLE C16 serialize-is-not-the-canonical-form ser {} {} {}", vi, hr as u8, hex(bin)).unwrap(); }
        }
        // real formats (direct oracles)
        let r = guarded(|| {
            let mut ok = true;
            let text = h.to_string();
            let j = serde_json::to_string(&h).unwrap();
            ok &= j == format!("\"{}\"", text);
            ok &= serde_json::from_str::<T>(&j).ok().as_ref() == Some(&h);
            let p = postcard::to_stdvec(&h).unwrap();
            let mut raw = vec![0u8; bin_len];
            h.store_into_bytes(&mut raw).unwrap();
            ok &= p.len() == bin_len + 1 && p[0] as usize == bin_len && p[1..] == raw[..];
            ok &= postcard::from_bytes::<T>(&p).ok().as_ref() == Some(&h);
            let mut c = Vec::new();
            ciborium::into_writer(&h, &mut c).unwrap();
            ok &= c.ends_with(&raw) && c.len() <= bin_len + 3;
            ok &= ciborium::from_reader::<T, _>(c.as_slice()).ok().as_ref() == Some(&h);
            ok
        });
        match r {
            Ok(true) => {}
            Ok(false) => writeln!(out, "ORACLE C16 format-crate-round-trip-or-encoding {} {}", vi, hex(bin)).unwrap(),
            Err(()) => writeln!(out, "ORACLE C16 format-crate-panicked {} {}", vi, hex(bin)).unwrap(),
        }
    })
}

/// Malformed documents through the real format crates: must be `Err`, never a panic.
pub fn emit_docs(out: &mut impl Write, vi: usize, rng: &mut Rng) {
    let bin_len = variant_bin_len(vi);
    with_variant!(vi, T => {
        let bin = random_hash_bytes(rng, vi);
        let text = String::from_utf8(hash_text(vi, &bin, true)).unwrap();
        let mut json_docs: Vec<String> = vec!["1".into(), "null".into(), "[]".into(), "{}".into(), "true".into(), "\"\"".into(),
            format!("\"{}\"", &text[..text.len() - 1]), format!("\"{}0\"", text), format!("\"T2{}\"", &text[2..]),
            format!("\"{}g\"", &text[..text.len() - 1]), format!("[\"{}\"]", text), format!("\"{}\"", text.to_lowercase())];
        // strict-parser relevant: invalid length code / checksum in text
        let mut bad = bin.clone();
        bad[VARIANT_CKSUM[vi]] = 0xf0;
        json_docs.push(format!("\"{}\"", String::from_utf8(hash_text_raw(vi, &bad)).unwrap()));
        for d in json_docs {
            let r = guarded(|| serde_json::from_str::<T>(&d).map(|h| hash_bin(&h, bin_len)));
            let direct = T::from_str_bytes(d.trim_matches('"').as_bytes(), None);
            let is_plain_string = d.starts_with('"') && d.ends_with('"') && d.len() >= 2 && !d[1..d.len() - 1].contains('"');
            match r {
                Ok(res) => {
                    // accepts exactly what the parser accepts
                    if is_plain_string && res.is_ok() != direct.is_ok() {
                        writeln!(out, "ORACLE C16 json-acceptance-differs-from-parser {} {}", vi, hex(d.as_bytes())).unwrap();
                    }
                    if !is_plain_string && res.is_ok() {
                        writeln!(out, "ORACLE C16 json-accepted-a-non-string {} {}", vi, hex(d.as_bytes())).unwrap();
                    }
                }
                Err(()) => writeln!(out, "ORACLE C16 json-deserialize-panicked {} {}", vi, hex(d.as_bytes())).unwrap(),
            }
        }
        // binary documents: postcard (len prefix) and CBOR byte strings, with every header byte class
        let mut bins: Vec<Vec<u8>> = vec![bin.clone(), bin[..bin_len - 1].to_vec(), { let mut b = bin.clone(); b.push(0); b }, Vec::new(), bad.clone()];
        let mut bad2 = bin.clone();
        bad2[0] = 0xff;
        bins.push(bad2);
        for b in bins {
            let direct_ok = T::try_from(&b[..]).is_ok();
            let mut pc = vec![b.len() as u8];
            pc.extend_from_slice(&b);
            let r = guarded(|| postcard::from_bytes::<T>(&pc).is_ok());
            match r {
                Ok(okv) => if okv != direct_ok { writeln!(out, "ORACLE C16 postcard-acceptance-differs-from-parser {} {}", vi, hex(&b)).unwrap(); },
                Err(()) => writeln!(out, "ORACLE C16 postcard-deserialize-panicked {} {}", vi, hex(&b)).unwrap(),
            }
            let mut cb = Vec::new();
            ciborium::into_writer(&serde_bytes_like(&b), &mut cb).unwrap();
            let r = guarded(|| ciborium::from_reader::<T, _>(cb.as_slice()).is_ok());
            match r {
                Ok(okv) => if okv != direct_ok { writeln!(out, "ORACLE C16 cbor-acceptance-differs-from-parser {} {}", vi, hex(&b)).unwrap(); },
                Err(()) => writeln!(out, "ORACLE C16 cbor-deserialize-panicked {} {}", vi, hex(&b)).unwrap(),
            }
        }
    })
}

/// a CBOR byte string value
fn serde_bytes_like(b: &[u8]) -> ciborium::Value {
    ciborium::Value::Bytes(b.to_vec())
}

/// text of arbitrary (possibly strict-invalid) bytes, bypassing the hash type
fn hash_text_raw(vi: usize, bin: &[u8]) -> Vec<u8> {
    let cs = VARIANT_CKSUM[vi];
    let hexd = b"0123456789ABCDEF";
    let mut v = b"T1".to_vec();
    for (i, &b) in bin.iter().enumerate() {
        if i < cs + 2 {
            v.push(hexd[(b & 15) as usize]);
            v.push(hexd[(b >> 4) as usize]);
        } else {
            v.push(hexd[(b >> 4) as usize]);
            v.push(hexd[(b & 15) as usize]);
        }
    }
    v
}

pub fn stream_serde(out: &mut impl Write, seed: u64, budget: usize) {
    let mut rng = Rng::new(seed, 50);
    for i in 0..budget {
        let vi = i % 5;
        let bin_len = variant_bin_len(vi);
        let bin = random_hash_bytes(&mut rng, vi);
        emit_ser(out, vi, &bin);
        // header sweeps for the bytes visitor (strict parser): checksum byte 0 and length code
        let mut b = bin.clone();
        match rng.below(4) { 0 => b[0] = rng.byte(), 1 => b[VARIANT_CKSUM[vi]] = rng.byte(), 2 => { b[0] = 0xff; b[VARIANT_CKSUM[vi]] = 0xff; } _ => {} }
        let blen = match rng.below(6) { 0 => bin_len - 1, 1 => bin_len + 1, 2 => 0, _ => bin_len };
        b.resize(blen, 0x41);
        let mut text = String::from_utf8(hash_text_raw(vi, &bin)).unwrap();
        match rng.below(8) {
            0 => { text.pop(); }
            1 => { text.push('0'); }
            2 => { text = text.to_lowercase(); }
            3 => { text = text[2..].to_string(); }
            4 => { let p = rng.below(text.len() as u64) as usize; text.replace_range(p..p + 1, "g"); }
            5 => { let mut bb = bin.clone(); bb[VARIANT_CKSUM[vi]] = 0xaa + rng.below(0x56) as u8; text = String::from_utf8(hash_text_raw(vi, &bb)).unwrap(); }
            6 => { let mut bb = bin.clone(); bb[0] = 49 + rng.below(200) as u8; text = String::from_utf8(hash_text_raw(vi, &bb)).unwrap(); }
            _ => {}
        }
        // the text as a *bytes* event with one byte that is not valid UTF-8 (a human-readable format may
        // deliver bytes; the visitor must answer with an error, whatever it puts into the message)
        let mut tb = text.as_bytes().to_vec();
        if !tb.is_empty() {
            let p = rng.below(tb.len() as u64) as usize;
            tb[p] = 0x80 + rng.below(0x80) as u8;
        }
        let evs = [
            Ev::Bytes(tb.clone()), Ev::BorrowedBytes(tb.clone()), Ev::ByteBuf(tb.clone()),
            Ev::Str(text.clone()), Ev::BorrowedStr(text.clone()), Ev::StringOwned(text.clone()),
            Ev::Bytes(b.clone()), Ev::BorrowedBytes(b.clone()), Ev::ByteBuf(b.clone()),
            Ev::Bytes(text.as_bytes().to_vec()), Ev::Str(String::from_utf8_lossy(&b).to_string()),
            Ev::Bool(true), Ev::I64(-1), Ev::U64(7), Ev::U8(3), Ev::F64(1.5), Ev::Char('T'), Ev::Unit, Ev::None,
            Ev::SomeStr(text.clone()), Ev::NewtypeStr(text.clone()), Ev::SeqBytes(b.clone()), Ev::MapEmpty,
        ];
        let k = rng.below(evs.len() as u64) as usize;
        for (j, ev) in evs.iter().enumerate() {
            if j < 11 || j == k {
                emit_de(out, vi, true, ev);
                emit_de(out, vi, false, ev);
            }
        }
        if i % 10 == 0 {
            emit_docs(out, vi, &mut rng);
        }
    }
}
