//! Compiled tables, exhaustively (C07 / C01): Pearson single / double / 48 tables and bucket mappings.
//! Plus the first-call race (C07, supporting evidence).

use crate::util::*;
use std::io::Write;
use tlsh::verif::pearson as vp;

pub fn stream_tables(out: &mut impl Write, seed: u64, budget: usize) {
    let row = |f: &dyn Fn(u8) -> u8| -> String { let v: Vec<u8> = (0..=255u8).map(f).collect(); hex(&v) };
    writeln!(out, "tbl p => {}", row(&|x| vp::update(0, x))).unwrap();
    writeln!(out, "tbl init => {}", row(&|x| vp::init(x))).unwrap();
    writeln!(out, "tbl p48 => {}", row(&|x| vp::final_48(0, x))).unwrap();
    writeln!(out, "tbl p256 => {}", row(&|x| vp::final_256(0, x))).unwrap();
    for b2 in 0..=255u8 {
        writeln!(out, "tbl pd {} => {}", b2, row(&|b1| vp::update_double(0, b1, b2))).unwrap();
    }
    let mut rng = Rng::new(seed, 80);
    for _ in 0..budget {
        let (s, a, b, c) = (rng.byte(), rng.byte(), rng.byte(), rng.byte());
        writeln!(out, "tbl pds {} {} {} => {}", s, a, b, vp::update_double(s, a, b)).unwrap();
        writeln!(out, "tbl bm256 {} {} {} {} => {}", s, a, b, c, vp::b_mapping_256(s, a, b, c)).unwrap();
        writeln!(out, "tbl bm48 {} {} {} {} => {}", s, a, b, c, vp::b_mapping_48(s, a, b, c)).unwrap();
        writeln!(out, "tbl u {} {} => {}", s, a, vp::update(s, a)).unwrap();
        writeln!(out, "tbl f48 {} {} => {}", s, a, vp::final_48(s, a)).unwrap();
    }
}

/// Child: 16 threads make the process's first dispatched calls simultaneously.
#[cfg(feature = "easy")]
pub fn race_child(seed: u64) {
    use std::sync::{Arc, Barrier};
    use tlsh::{FuzzyHashType, GeneratorType};
    let mut rng = Rng::new(seed, 81);
    let data = rng.bytes(4000);
    let a = rng.bytes(35);
    let b = rng.bytes(35);
    let la = rng.bytes(69);
    let lb = rng.bytes(69);
    let barrier = Arc::new(Barrier::new(16));
    let handles: Vec<_> = (0..16)
        .map(|t| {
            let (data, a, b, la, lb, barrier) = (data.clone(), a.clone(), b.clone(), la.clone(), lb.clone(), barrier.clone());
            std::thread::spawn(move || {
                barrier.wait();
                // alternate which dispatcher is hit first
                let mut r = Vec::new();
                let ha = tlsh::hashes::Normal::try_from(&a[..]).unwrap();
                let hb = tlsh::hashes::Normal::try_from(&b[..]).unwrap();
                let hla = tlsh::hashes::LongWithLongChecksum::try_from(&la[..]).unwrap();
                let hlb = tlsh::hashes::LongWithLongChecksum::try_from(&lb[..]).unwrap();
                if t % 2 == 0 {
                    r.push(ha.compare(&hb) as u64);
                    r.push(hla.compare(&hlb) as u64);
                }
                let mut g = tlsh::TlshGenerator::new();
                g.update(&data);
                let h = g.finalize().unwrap();
                let mut gl = tlsh::TlshGeneratorFor::<tlsh::hashes::Long>::new();
                gl.update(&data);
                let hl = gl.finalize().unwrap();
                let mut buf = [0u8; 35];
                h.store_into_bytes(&mut buf).unwrap();
                r.push(buf.iter().fold(0u64, |x, &y| x.wrapping_mul(257).wrapping_add(y as u64)));
                let mut buf = [0u8; 67];
                hl.store_into_bytes(&mut buf).unwrap();
                r.push(buf.iter().fold(0u64, |x, &y| x.wrapping_mul(257).wrapping_add(y as u64)));
                if t % 2 == 1 {
                    r.push(ha.compare(&hb) as u64);
                    r.push(hla.compare(&hlb) as u64);
                }
                r.sort();
                r
            })
        })
        .collect();
    let results: Vec<Vec<u64>> = handles.into_iter().map(|h| h.join().unwrap()).collect();
    // reference: back ends that involve no dispatch
    let body = |x: &[u8], y: &[u8], n: usize| -> u32 {
        let cs = x.len() - 2 - n;
        let _ = cs;
        0
    };
    let _ = body;
    let all_same = results.iter().all(|r| *r == results[0]);
    // compare with the non-dispatched pseudo-SIMD / naive code through the hooks
    let d32 = tlsh::verif::compare::dist_body::pseudo32_32(a[3..].try_into().unwrap(), b[3..].try_into().unwrap());
    let dn = d32 + (a[0] != b[0]) as u32 + tlsh::verif::compare::dist_length(a[1], b[1]) + tlsh::verif::compare::dist_qratios(a[2], b[2]);
    let ok = all_same && results[0].contains(&(dn as u64));
    println!("RESULT {}", if ok { "ok" } else { "mismatch" });
}

#[cfg(feature = "easy")]
pub fn stream_race(out: &mut impl Write, seed: u64, budget: usize) {
    let exe = std::env::current_exe().unwrap();
    for k in 0..budget {
        let o = std::process::Command::new(&exe).args(["race-child", "--seed", &(seed + k as u64).to_string()]).output();
        let res = match o {
            Ok(o) => {
                let s = String::from_utf8_lossy(&o.stdout).to_string();
                match s.lines().find(|l| l.starts_with("RESULT ")) { Some(l) => l[7..].to_string(), None => format!("crash:{:?}", o.status.code()) }
            }
            Err(e) => format!("spawn-failed:{}", e),
        };
        writeln!(out, "race {} => {}", k, res).unwrap();
        if res != "ok" {
            writeln!(out, "ORACLE C07 first-call-race race {} => {}", k, res).unwrap();
        }
    }
}
