//! PRNG, hex helpers, variant dispatch.

use std::fmt::Write as _;

/// xorshift64* seeded through splitmix64; every random choice of the probe
/// derives from one of these.
#[derive(Clone)]
pub struct Rng(u64);

impl Rng {
    pub fn new(seed: u64, stream: u64) -> Self {
        let mut z = seed
            .wrapping_mul(0x9E37_79B9_7F4A_7C15)
            .wrapping_add(stream.wrapping_mul(0xD1B5_4A32_D192_ED03))
            .wrapping_add(0x1234_5678_9ABC_DEF1);
        z = (z ^ (z >> 30)).wrapping_mul(0xBF58_476D_1CE4_E5B9);
        z = (z ^ (z >> 27)).wrapping_mul(0x94D0_49BB_1331_11EB);
        z ^= z >> 31;
        Rng(if z == 0 { 0x2545_F491_4F6C_DD1D } else { z })
    }
    pub fn next(&mut self) -> u64 {
        let mut x = self.0;
        x ^= x >> 12;
        x ^= x << 25;
        x ^= x >> 27;
        self.0 = x;
        x.wrapping_mul(0x2545_F491_4F6C_DD1D)
    }
    pub fn below(&mut self, n: u64) -> u64 {
        if n == 0 {
            0
        } else {
            self.next() % n
        }
    }
    pub fn range(&mut self, lo: u64, hi_incl: u64) -> u64 {
        lo + self.below(hi_incl - lo + 1)
    }
    pub fn byte(&mut self) -> u8 {
        (self.next() >> 32) as u8
    }
    pub fn pick<'a, T>(&mut self, xs: &'a [T]) -> &'a T {
        &xs[self.below(xs.len() as u64) as usize]
    }
    pub fn chance(&mut self, num: u64, den: u64) -> bool {
        self.below(den) < num
    }
    pub fn bytes(&mut self, n: usize) -> Vec<u8> {
        (0..n).map(|_| self.byte()).collect()
    }
}

const HEX: &[u8; 16] = b"0123456789abcdef";

pub fn hex(bytes: &[u8]) -> String {
    if bytes.is_empty() {
        return "-".to_string();
    }
    let mut s = String::with_capacity(bytes.len() * 2);
    for &b in bytes {
        s.push(HEX[(b >> 4) as usize] as char);
        s.push(HEX[(b & 15) as usize] as char);
    }
    s
}

pub fn unhex(s: &str) -> Vec<u8> {
    if s == "-" {
        return Vec::new();
    }
    let b = s.as_bytes();
    let v = |c: u8| -> u8 {
        match c {
            b'0'..=b'9' => c - b'0',
            b'a'..=b'f' => c - b'a' + 10,
            b'A'..=b'F' => c - b'A' + 10,
            _ => panic!("bad hex"),
        }
    };
    (0..b.len() / 2).map(|i| v(b[2 * i]) << 4 | v(b[2 * i + 1])).collect()
}

pub fn hex_u32s(xs: &[u32]) -> String {
    let mut v = Vec::with_capacity(xs.len() * 4);
    for x in xs {
        v.extend_from_slice(&x.to_le_bytes());
    }
    hex(&v)
}

pub fn join<T: ToString>(xs: &[T], sep: &str) -> String {
    if xs.is_empty() {
        return "-".to_string();
    }
    let mut s = String::new();
    for (i, x) in xs.iter().enumerate() {
        if i > 0 {
            s.push_str(sep);
        }
        let _ = write!(s, "{}", x.to_string());
    }
    s
}

pub fn pieces_str(pieces: &[Vec<u8>]) -> String {
    if pieces.is_empty() {
        return "-".to_string();
    }
    let v: Vec<String> = pieces
        .iter()
        .map(|p| if p.is_empty() { ".".to_string() } else { hex(p) })
        .collect();
    v.join(",")
}

pub const VARIANT_NAMES: [&str; 5] = ["Short", "Normal", "NormalWithLongChecksum", "Long", "LongWithLongChecksum"];
pub const VARIANT_BUCKETS: [usize; 5] = [48, 128, 128, 256, 256];
pub const VARIANT_CKSUM: [usize; 5] = [1, 1, 3, 1, 3];

pub fn variant_bin_len(vi: usize) -> usize {
    VARIANT_CKSUM[vi] + 2 + VARIANT_BUCKETS[vi] / 4
}
pub fn variant_str_len(vi: usize) -> usize {
    variant_bin_len(vi) * 2 + 2
}

/// Runs `$body` with `$T` bound to the hash type of variant index `$vi`.
#[macro_export]
macro_rules! with_variant {
    ($vi:expr, $T:ident => $body:expr) => {
        match $vi {
            0 => {
                type $T = tlsh::hashes::Short;
                $body
            }
            1 => {
                type $T = tlsh::hashes::Normal;
                $body
            }
            2 => {
                type $T = tlsh::hashes::NormalWithLongChecksum;
                $body
            }
            3 => {
                type $T = tlsh::hashes::Long;
                $body
            }
            4 => {
                type $T = tlsh::hashes::LongWithLongChecksum;
                $body
            }
            _ => unreachable!(),
        }
    };
}

/// Runs a closure, mapping a panic to `Err(())`.
pub fn guarded<R>(f: impl FnOnce() -> R + std::panic::UnwindSafe) -> Result<R, ()> {
    std::panic::catch_unwind(f).map_err(|_| ())
}
