/-
tlsh-model — the model side of the correspondence check (DESIGN §5.3).

Reads the probe's transcript (one operation per line, `… => <observed>`),
evaluates the *same executable definitions the theorems are about* and prints
every disagreement:

  MM model <lineno> <model result> | <line>     model (at Gen params) ≠ code
  MM spec  <lineno> <spec result>  | <line>     reference (Ref params / Spec) ≠ code
  MM self  <lineno> …                            Spec ≠ Model@Ref (a theorem would be false)
  SUMMARY lines=<n> ops=<n> model_mm=<n> spec_mm=<n> self_mm=<n> unknown=<n> oracle=<n>

It imports only core-only modules, so it links as a plain executable.
-/
import TlshVerif.Model.Params
import TlshVerif.Spec.Tlsh
import TlshVerif.DriverOps
import TlshVerif.DriverCodec
import TlshVerif.DriverCompare
import TlshVerif.DriverLength
import TlshVerif.DriverEasy
import TlshVerif.DriverSerde
import TlshVerif.DriverAlloc
import TlshVerif.DriverTables

open TlshVerif

structure Counts where
  lines : Nat := 0
  ops : Nat := 0
  modelMM : Nat := 0
  specMM : Nat := 0
  selfMM : Nat := 0
  unknown : Nat := 0
  oracle : Nat := 0

partial def loop (h : IO.FS.Stream) (ctx : Driver.Ctx) (c : Counts) (maxPrint : Nat) : IO Counts := do
  let line ← h.getLine
  if line.isEmpty then return c
  let line := (line.dropEndWhile (fun ch => ch == '\n' || ch == '\r')).toString
  let c := { c with lines := c.lines + 1 }
  if line.startsWith "cfg " then
    loop h (Driver.parseCfg line) c maxPrint
  else if line.startsWith "ORACLE " then
    IO.println s!"OR {c.lines} | {line}"
    loop h ctx { c with oracle := c.oracle + 1 } maxPrint
  else
    match Driver.splitArrow line with
    | none =>
      IO.println s!"UNKNOWN {c.lines} | {line.take 200}"
      loop h ctx { c with unknown := c.unknown + 1 } maxPrint
    | some (lhs, observed) =>
      let toks := lhs.splitOn " "
      match (Driver.eval ctx toks <|> Driver.evalCodec ctx toks <|> Driver.evalCompare ctx toks <|> Driver.evalLength ctx toks <|> Driver.evalEasy ctx toks <|> Driver.evalSerde ctx toks <|> Driver.evalAlloc ctx toks <|> Driver.evalTables ctx toks) with
      | none =>
        IO.println s!"UNKNOWN {c.lines} | {line.take 200}"
        loop h ctx { c with unknown := c.unknown + 1 } maxPrint
      | some r =>
        let mut c := { c with ops := c.ops + 1 }
        -- long operations are abbreviated in the middle; the observed result is always printed in full
        let short :=
          if line.length > 6000 then
            let opPart := (line.take (line.length - observed.length)).toString
            (opPart.take 3000).toString ++ "…" ++ (opPart.drop (opPart.length - 200)).toString ++ observed
          else line
        if r.model != observed && r.model != "ub" then   -- undefined behaviour permits any observation
          c := { c with modelMM := c.modelMM + 1 }
          if c.modelMM ≤ maxPrint then IO.println s!"MM model {c.lines} {r.model} | {short}"
        match r.spec with
        | some s =>
          if s != observed then
            c := { c with specMM := c.specMM + 1 }
            if c.specMM ≤ maxPrint then IO.println s!"MM spec {c.lines} {s} | {short}"
        | none => pure ()
        match r.specSet with
        | some set =>
          if !set.contains observed then
            c := { c with specMM := c.specMM + 1 }
            if c.specMM ≤ maxPrint then IO.println s!"MM spec {c.lines} one-of:{set} | {short}"
        | none => pure ()
        match r.self with
        | some (a, b) =>
          if a != b then
            c := { c with selfMM := c.selfMM + 1 }
            if c.selfMM ≤ maxPrint then IO.println s!"MM self {c.lines} {a} ≠ {b} | {short}"
        | none => pure ()
        loop h ctx c maxPrint

def main (args : List String) : IO UInt32 := do
  let stdin ← IO.getStdin
  let h ← match args with
    | [path] => do
      let hd ← IO.FS.Handle.mk path .read
      pure (IO.FS.Stream.ofHandle hd)
    | _ => pure stdin
  let c ← loop h Driver.defaultCtx {} 50
  IO.println s!"SUMMARY lines={c.lines} ops={c.ops} model_mm={c.modelMM} spec_mm={c.specMM} self_mm={c.selfMM} unknown={c.unknown} oracle={c.oracle}"
  return 0
