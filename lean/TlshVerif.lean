-- Root of the `TlshVerif` library.
import TlshVerif.Basic
import TlshVerif.F32
