/-
Basic vocabulary shared by Spec, Model and the driver.  Imports nothing outside
core so that the driver links as a plain executable.
-/
namespace TlshVerif

/-- A hash variant: number of buckets and checksum bytes. -/
structure Variant where
  buckets : Nat
  cksum : Nat
deriving DecidableEq, Repr, Inhabited

namespace Variant
def short : Variant := ⟨48, 1⟩
def normal : Variant := ⟨128, 1⟩
def normalLong : Variant := ⟨128, 3⟩
def long : Variant := ⟨256, 1⟩
def longLong : Variant := ⟨256, 3⟩

/-- The five shipped variants. -/
def all : List Variant := [short, normal, normalLong, long, longLong]

/-- `Valid v` — `v` is one of the five shipped variants. -/
def Valid (v : Variant) : Prop := v ∈ all

instance (v : Variant) : Decidable v.Valid := by unfold Valid; infer_instance

def bodyLen (v : Variant) : Nat := v.buckets / 4
/-- Size of the binary form: checksum ++ [lvalue] ++ [qratios] ++ body. -/
def binLen (v : Variant) : Nat := v.cksum + 2 + v.bodyLen
/-- Size of the text form including the `T1` prefix. -/
def strLen (v : Variant) : Nat := 2 * v.binLen + 2
end Variant

/-- Generator options (`GeneratorOptions`). -/
structure Options where
  conservative : Bool
  pureInt : Bool
  allowSmall : Bool
  allowHalf : Bool
  allowQuarter : Bool
deriving DecidableEq, Repr, Inhabited

/-- `GeneratorError`. -/
inductive GenError
  | tooLarge | tooSmall | halfEmpty | threeQuarterEmpty
deriving DecidableEq, Repr, Inhabited

/-- `ParseError`. -/
inductive ParseError
  | lengthIsTooLarge | invalidPrefix | invalidCharacter | invalidStringLength | invalidChecksum
deriving DecidableEq, Repr, Inhabited

/-- `OperationError`. -/
inductive OpError
  | bufferIsTooSmall
deriving DecidableEq, Repr, Inhabited

/-- Outcome of a modelled Rust call: normal return, `Err`, panic, or (feature
`unsafe`) an `invariant!()` that is false — undefined behaviour. -/
inductive Outcome (ε α : Type) where
  | ok (a : α)
  | err (e : ε)
  | panic (why : String)
  | ub (why : String)
deriving DecidableEq, Repr, Inhabited

namespace Outcome
def bind {ε α β} (x : Outcome ε α) (f : α → Outcome ε β) : Outcome ε β :=
  match x with
  | ok a => f a
  | err e => err e
  | panic w => panic w
  | ub w => ub w

def map {ε α β} (f : α → β) (x : Outcome ε α) : Outcome ε β :=
  match x with
  | ok a => ok (f a)
  | err e => err e
  | panic w => panic w
  | ub w => ub w

/-- Normal termination: `Ok` or `Err`. -/
def Defined {ε α} (x : Outcome ε α) : Prop :=
  match x with
  | ok _ => True
  | err _ => True
  | _ => False
end Outcome

/-- A raw hash value (`inner::FuzzyHash`): any byte content is a legal value
under the lenient parser. -/
structure Hash where
  checksum : List UInt8
  lvalue : UInt8
  qratios : UInt8
  body : List UInt8
deriving DecidableEq, Repr, Inhabited

/-- Shape invariant of a hash of variant `v`. -/
def Hash.WF (v : Variant) (h : Hash) : Prop :=
  h.checksum.length = v.cksum ∧ h.body.length = v.bodyLen

/-- Binary form: checksum ++ [lvalue] ++ [qratios] ++ body. -/
def Hash.toBytes (h : Hash) : List UInt8 :=
  h.checksum ++ [h.lvalue] ++ [h.qratios] ++ h.body

end TlshVerif
