/- Driver operation for the allocation counter (C18). -/
import TlshVerif.DriverOps
import TlshVerif.Gen.Effects

namespace TlshVerif.Driver

open TlshVerif

/-- Reachable set by a simple work-list (fuel = number of edges + nodes). -/
def reachSet (g : Array (List Nat)) (roots : List Nat) : List Nat :=
  let rec go (fuel : Nat) (todo seen : List Nat) : List Nat :=
    match fuel, todo with
    | 0, _ => seen
    | _, [] => seen
    | fuel + 1, j :: rest =>
      let new := (g.getD j []).filter (fun k => !seen.contains k)
      go fuel (new.eraseDups ++ rest) (seen ++ new.eraseDups)
  go (g.size * g.size + 1) roots roots

def evalAlloc (_ctx : Ctx) (toks : List String) : Option Result :=
  match toks with
  | ["alloc", op, _vi, _case] =>
    if op == "to_string" then
      -- `ToString` is std's blanket impl over `Display`: documented to allocate
      some { model := "pos", spec := some "pos" }
    else
      match Gen.effectRoots.find? (fun e => e.1 == op) with
      | none => none
      | some e =>
        let reach := reachSet Gen.effectGraph.toArray e.2
        let allocates := Gen.effectAllocIdx.any (fun a => reach.contains a)
        let spec := if ["hash_stream"].contains op then "pos" else "0"
        some { model := if allocates then "pos" else "0", spec := some spec }
  | _ => none

end TlshVerif.Driver
