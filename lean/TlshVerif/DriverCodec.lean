/-
Driver operations for the codec: parse / fmt / frombin / store / acc.
-/
import TlshVerif.DriverOps
import TlshVerif.Model.CodecParams
import TlshVerif.Spec.Text

namespace TlshVerif.Driver

open TlshVerif

def codecCfg (ctx : Ctx) : Model.CodecCfg :=
  { decode :=
      bif ctx.flag "opt-low-memory-hex-str-decode-min-table" then Model.HexDecode.min
      else bif ctx.flag "opt-low-memory-hex-str-decode-quarter-table" then Model.HexDecode.quarter
      else bif ctx.flag "opt-low-memory-hex-str-decode-half-table" then Model.HexDecode.half
      else Model.HexDecode.full
  , encode :=
      bif ctx.flag "opt-low-memory-hex-str-encode-min-table" then Model.HexEncode.min
      else bif ctx.flag "opt-low-memory-hex-str-encode-half-table" then Model.HexEncode.half
      else Model.HexEncode.full
  , simdParse := ctx.flag "opt-simd-parse-hex"
  , simdConvert := ctx.flag "opt-simd-convert-hex"
  , strict := ctx.flag "strict-parser"
  , unsafe_ := ctx.flag "unsafe" }

def parseErrStr : ParseError → String
  | .lengthIsTooLarge => "LengthIsTooLarge"
  | .invalidPrefix => "InvalidPrefix"
  | .invalidCharacter => "InvalidCharacter"
  | .invalidStringLength => "InvalidStringLength"
  | .invalidChecksum => "InvalidChecksum"

def parseOutcomeStr : Outcome ParseError Hash → String
  | .ok h => "ok:" ++ hexStr h.toBytes
  | .err e => "err:" ++ parseErrStr e
  | .panic _ => "panic"
  | .ub _ => "ub"

def modeOf (s : String) : Option Model.Prefix :=
  if s == "e" then some .empty else if s == "w" then some .withVersion else none
def specModeOf (s : String) : Option Spec.Prefix :=
  if s == "e" then some .empty else if s == "w" then some .withVersion else none

/-- The outcomes the property allows for parsing `s` (C05, and C15 when strict). -/
def parseAllowed (strict : Bool) (v : Variant) (s : List UInt8) (m : Option Spec.Prefix) : List String :=
  if !Spec.lengthOk v s m then ["err:InvalidStringLength"]
  else
    match Spec.resolvePrefix v s m with
    | none => ["err:InvalidStringLength"]
    | some p =>
      let badPrefix := p == .withVersion && s.take 2 != [84, 49]
      let d := Spec.stripPrefix s p
      let badChar := !(d.all Spec.isHexDigit)
      let lenientErrs := (if badPrefix then ["err:InvalidPrefix"] else []) ++
        (if badChar then ["err:InvalidCharacter"] else [])
      if !lenientErrs.isEmpty then
        -- strict reasons may be reported as well when they (decodably) apply
        if strict then lenientErrs ++ ["err:InvalidChecksum", "err:LengthIsTooLarge"] else lenientErrs
      else
        match Spec.decodeDigits v d with
        | none => ["<spec: decode failed on well-formed input>"]
        | some h =>
          if strict then
            let r := (if !Spec.checksumValid v h then ["err:InvalidChecksum"] else []) ++
              (if !Spec.lengthValid h then ["err:LengthIsTooLarge"] else [])
            if r.isEmpty then ["ok:" ++ hexStr h.toBytes] else r
          else ["ok:" ++ hexStr h.toBytes]

def evalParse (ctx : Ctx) (vS mS bS : String) : Option Result := do
  let v ← variantOf vS
  let bytes := unhex bS
  let c := codecCfg ctx
  let model := parseOutcomeStr (Model.fromStrBytes Gen.codec Gen.strict c v bytes (modeOf mS))
  pure { model := model, specSet := some (parseAllowed c.strict v bytes (specModeOf mS)) }

def evalFrombin (ctx : Ctx) (vS bS kind : String) : Option Result := do
  let v ← variantOf vS
  let bytes := unhex bS
  let c := codecCfg ctx
  let model := parseOutcomeStr
    (if kind == "a" then Model.tryFromArray Gen.strict c v bytes else Model.tryFromSlice Gen.strict c v bytes)
  let spec :=
    if bytes.length ≠ v.binLen then ["err:InvalidStringLength"]
    else
      let h := Spec.ofBytes v bytes
      if c.strict then
        let r := (if !Spec.checksumValid v h then ["err:InvalidChecksum"] else []) ++
          (if !Spec.lengthValid h then ["err:LengthIsTooLarge"] else [])
        if r.isEmpty then ["ok:" ++ hexStr h.toBytes] else r
      else ["ok:" ++ hexStr h.toBytes]
  pure { model := model, specSet := some spec }

/-- Hash from its binary form, as the probe builds it (`try_from(bin)`). -/
def hashOfBin (ctx : Ctx) (v : Variant) (bin : List UInt8) : Outcome ParseError Hash :=
  Model.tryFromSlice Gen.strict (codecCfg ctx) v bin

def evalFmt (ctx : Ctx) (vS bS : String) : Option Result := do
  let v ← variantOf vS
  let bin := unhex bS
  let c := codecCfg ctx
  match hashOfBin ctx v bin with
  | .ok h =>
    let w := (Model.storeIntoStrBytes Gen.codec c v h (List.replicate v.strLen 0) .withVersion).2
    let e := ((Model.storeIntoStrBytes Gen.codec c v h (List.replicate v.strLen 0) .empty).2).take (v.strLen - 2)
    let hs := Spec.ofBytes v bin
    pure { model := hexStr w ++ " " ++ hexStr e
         , spec := some (hexStr (Spec.format hs .withVersion) ++ " " ++ hexStr (Spec.format hs .empty)) }
  | r => pure { model := parseOutcomeStr r }

def opOutcomeStr : Outcome OpError Nat → String
  | .ok n => "ok:" ++ toString n
  | .err _ => "err:BufferIsTooSmall"
  | .panic _ => "panic"
  | .ub _ => "ub"

def evalStore (ctx : Ctx) (vS form lS fillS bS : String) : Option Result := do
  let v ← variantOf vS
  let l ← lS.toNat?
  let fill ← fillS.toNat?
  let bin := unhex bS
  let c := codecCfg ctx
  match hashOfBin ctx v bin with
  | .ok h =>
    let buf : List UInt8 := (List.range l).map (fun i => UInt8.ofNat (fill + i * 7))
    let r :=
      if form == "b" then Model.storeIntoBytes v h buf
      else if form == "e" then Model.storeIntoStrBytes Gen.codec c v h buf .empty
      else Model.storeIntoStrBytes Gen.codec c v h buf .withVersion
    -- spec (C14): too small ⇒ error and untouched; else N, repr, untouched tail
    let hs := Spec.ofBytes v bin
    let repr := if form == "b" then bin else if form == "e" then Spec.format hs .empty else Spec.format hs .withVersion
    let n := repr.length
    let spec := if l < n then "err:BufferIsTooSmall " ++ hexStr buf
      else "ok:" ++ toString n ++ " " ++ hexStr (repr ++ buf.drop n)
    pure { model := opOutcomeStr r.1 ++ " " ++ hexStr r.2, spec := some spec }
  | r => pure { model := parseOutcomeStr r }

def evalAcc (ctx : Ctx) (vS bS : String) : Option Result := do
  let v ← variantOf vS
  let bin := unhex bS
  match hashOfBin ctx v bin with
  | .ok h =>
    let quart (f : Nat → String) : String := String.join ((List.range v.buckets).map f)
    let qm (i : Nat) : String := match Model.quartile v h i with
      | .ok q => toString q.toNat
      | _ => "!"
    let oob (i : Nat) : String := match Model.quartile v h i with
      | .ok _ => "ok"
      | _ => "panic"
    let valid (ckv lv : Bool) : String := (if ckv then "1" else "0") ++ (if lv then "1" else "0")
    let model := hexStr h.checksum ++ " " ++ toString h.lvalue.toNat ++ " " ++ toString h.qratios.toNat ++ " " ++
      toString (h.qratios &&& 15).toNat ++ " " ++ toString (h.qratios >>> 4).toNat ++ " " ++ hexStr h.body ++ " " ++
      quart qm ++ " " ++ oob v.buckets ++ oob (2 ^ 64 - 1) ++ " " ++ hexStr (Model.clearChecksum h).toBytes ++ " " ++
      valid (Model.ckValid v Gen.strict.shortChecksumMax h.checksum) (Model.lvalueValid Gen.strict.encodedValueSize h.lvalue)
    -- spec: fields of the byte layout
    let hs := Spec.ofBytes v bin
    let spec := hexStr (bin.take v.cksum) ++ " " ++ toString (bin.getD v.cksum 0).toNat ++ " " ++
      toString (bin.getD (v.cksum + 1) 0).toNat ++ " " ++ toString ((bin.getD (v.cksum + 1) 0).toNat % 16) ++ " " ++
      toString ((bin.getD (v.cksum + 1) 0).toNat / 16) ++ " " ++ hexStr (bin.drop (v.cksum + 2)) ++ " " ++
      quart (fun i => toString (Spec.quartile hs i).toNat) ++ " panicpanic " ++
      hexStr (List.replicate v.cksum 0 ++ bin.drop v.cksum) ++ " " ++
      valid (Spec.checksumValid v hs) (Spec.lengthValid hs)
    pure { model := model, spec := some spec }
  | r => pure { model := parseOutcomeStr r }

def evalCodec (ctx : Ctx) (toks : List String) : Option Result :=
  match toks with
  | ["parse", v, m, b] => evalParse ctx v m b
  | ["fmt", v, b] => evalFmt ctx v b
  | ["frombin", v, b, k] => evalFrombin ctx v b k
  | ["store", v, f, l, fill, b] => evalStore ctx v f l fill b
  | ["acc", v, b] => evalAcc ctx v b
  | _ => none

end TlshVerif.Driver
