/-
Driver operations for comparison: cmp / maxd / bodyd / bodyrow / hdr.
-/
import TlshVerif.DriverOps
import TlshVerif.DriverCodec
import TlshVerif.Model.Compare
import TlshVerif.Spec.Distance
import TlshVerif.Spec.Text

namespace TlshVerif.Driver

open TlshVerif

/-- Which back end the public API reaches in this build on this machine (AVX2-capable CPU). -/
def apiBackend (ctx : Ctx) : Model.DistBackend :=
  let simd := ctx.flag "simd-per-arch" && ctx.flag "opt-simd-body-comparison"
  bif !simd then Model.DistBackend.pseudo64
  else bif ctx.flag "detect-features" || ctx.flag "target-avx2" then Model.DistBackend.avx2
  else bif ctx.flag "target-sse4.1" then Model.DistBackend.sse41
  else bif ctx.flag "target-sse2" then Model.DistBackend.sse2
  else Model.DistBackend.pseudo64

def compareCfg (ctx : Ctx) : Model.CompareCfg :=
  { body := apiBackend ctx
  , lengthTable := ctx.flag "opt-dist-length-table"
  , qratioTable :=
      bif ctx.flag "opt-dist-qratios-table-double" then Model.QTable.double
      else bif ctx.flag "opt-dist-qratios-table" then Model.QTable.single
      else Model.QTable.none }

def backendOf (ctx : Ctx) (s : String) : Option Model.DistBackend :=
  match s with
  | "disp" => some (apiBackend ctx)
  | "p32" => some .pseudo32
  | "p64" => some .pseudo64
  | "sse2" => some .sse2
  | "sse41" => some .sse41
  | "avx2" => some .avx2
  | _ => none

def bodyVariant (s : String) : Option Variant :=
  match s with
  | "0" => some .short | "1" => some .normal | "3" => some .long
  | "2" => some .normalLong | "4" => some .longLong | _ => none

def evalCmp (ctx : Ctx) (vS aS bS : String) : Option Result := do
  let v ← variantOf vS
  let a := Spec.ofBytes v (unhex aS)
  let b := Spec.ofBytes v (unhex bS)
  let c := compareCfg ctx
  let m (nl : Bool) := toString (Model.compareHashes Gen.compareRaw c v a b nl)
  let s (nl : Bool) := toString (Spec.distance a b nl)
  pure { model := m false ++ " " ++ m true, spec := some (s false ++ " " ++ s true) }

def evalMaxd (vS : String) : Option Result := do
  let v ← variantOf vS
  let m (nl : Bool) := toString (Model.maxDistance Gen.compareRaw v nl)
  let s (nl : Bool) := toString (Spec.maxDistance v nl)
  pure { model := m false ++ " " ++ m true, spec := some (s false ++ " " ++ s true) }

def evalBodyd (ctx : Ctx) (vS beS aS bS : String) : Option Result := do
  let v ← bodyVariant vS
  let be ← backendOf ctx beS
  let a := unhex aS
  let b := unhex bS
  pure { model := toString (Model.distBodyWith be v a b).toNat, spec := some (toString (Spec.bodyDist a b)) }

def evalBodyrow (ctx : Ctx) (vS beS posS avalS bgaS bgbS : String) : Option Result := do
  let v ← bodyVariant vS
  let be ← backendOf ctx beS
  let pos ← posS.toNat?
  let aval ← avalS.toNat?
  let a := (unhex bgaS).set pos (UInt8.ofNat aval)
  let bg := unhex bgbS
  let row (f : List UInt8 → List UInt8 → Nat) : String :=
    ",".intercalate ((List.range 256).map (fun bv => toString (f a (bg.set pos (UInt8.ofNat bv)))))
  pure { model := row (fun x y => (Model.distBodyWith be v x y).toNat), spec := some (row Spec.bodyDist) }

def evalHdr (ctx : Ctx) (toks : List String) : Option Result :=
  let c := compareCfg ctx
  let row (n : Nat) (f : UInt8 → Nat) : String :=
    ",".intercalate ((List.range n).map (fun y => toString (f (UInt8.ofNat y))))
  match toks with
  | ["len", xS] => do
    let x ← xS.toNat?
    let xb := UInt8.ofNat x
    pure { model := row 256 (Model.distLength Gen.compareRaw c xb), spec := some (row 256 (Spec.lengthDist xb)) }
  | ["qr", xS] => do
    let x ← xS.toNat?
    let xb := UInt8.ofNat x
    pure { model := row 256 (Model.distQ Gen.compareRaw c xb), spec := some (row 256 (Spec.qratioDist xb)) }
  | ["ring0", xS] => do
    let x ← xS.toNat?
    let xb := UInt8.ofNat x
    pure { model := row 256 (fun y => (Model.ringDist xb y 0).toNat), spec := some (row 256 (fun y => Spec.ring 256 x y.toNat)) }
  | ["ring16", xS] => do
    let x ← xS.toNat?
    let xb := UInt8.ofNat x
    pure { model := row 16 (fun y => (Model.ringDist xb y 16).toNat), spec := some (row 16 (fun y => Spec.ring 16 x y.toNat)) }
  | ["ck1", xS] => do
    let x ← xS.toNat?
    let xb := UInt8.ofNat x
    pure { model := row 256 (fun y => Model.distChecksum [xb] [y]), spec := some (row 256 (fun y => Spec.checksumDist [xb] [y])) }
  | ["ck3", aS, bS] =>
    pure { model := toString (Model.distChecksum (unhex aS) (unhex bS))
         , spec := some (toString (Spec.checksumDist (unhex aS) (unhex bS))) }
  | _ => none

def evalCompare (ctx : Ctx) (toks : List String) : Option Result :=
  match toks with
  | ["cmp", v, a, b] => evalCmp ctx v a b
  | ["maxd", v] => evalMaxd v
  | ["bodyd", v, be, a, b] => evalBodyd ctx v be a b
  | ["bodyrow", v, be, pos, aval, bga, bgb] => evalBodyrow ctx v be pos aval bga bgb
  | "hdr" :: rest => evalHdr ctx rest
  | _ => none

end TlshVerif.Driver
