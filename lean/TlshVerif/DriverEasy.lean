/-
Driver operations for the convenience functions: stream / file / lie / cmpstr.
-/
import TlshVerif.DriverOps
import TlshVerif.DriverCodec
import TlshVerif.DriverCompare
import TlshVerif.Model.Easy
import TlshVerif.Spec.Api
import TlshVerif.Gen.Easy

namespace TlshVerif.Driver

open TlshVerif

def patternBytes (seed len : Nat) : List UInt8 :=
  (List.range len).map (fun i => UInt8.ofNat ((seed + i * 31 + (i / 256) * 7) % 256))

def parseEv (s : String) : Option Model.ReadEv :=
  if s == "i" then some .interrupted
  else if s == "z" then some (.deliver [])
  else if s.startsWith "d:" then some (.deliver (unhex (s.drop 2).toString))
  else if s.startsWith "e:" then some (.error (s.drop 2).toString)
  else if s.startsWith "l:" then (s.drop 2).toString.toNat?.map .lie
  else if s.startsWith "p:" then
    match (s.drop 2).toString.splitOn ":" with
    | [a, b] => do
      let sd ← a.toNat?
      let l ← b.toNat?
      pure (.deliver (patternBytes sd l))
    | _ => none
  else none

def streamOutcomeStr : Outcome Model.StreamErr Hash → String
  | .ok h => hashStr h
  | .err (.gen e) => "err:" ++ genErrStr e
  | .err (.io k) => "ioerr:" ++ k
  | .panic _ => "panic"
  | .ub _ => "ub"

def streamExceptStr : Except Model.StreamErr Hash → String
  | .ok h => hashStr h
  | .error (.gen e) => "err:" ++ genErrStr e
  | .error (.io k) => "ioerr:" ++ k

/-- The model's configuration for the stream helper: UB only if the invariant is in the source. -/
def streamCfg (ctx : Ctx) : Model.Cfg := { ctx.cfg with unsafe_ := ctx.cfg.unsafe_ && Gen.streamLenInvariant }

def evalStream (ctx : Ctx) (vS scriptS : String) : Option Result := do
  let v ← variantOf vS
  let script ← if scriptS == "-" then some [] else (scriptS.splitOn ",").mapM parseEv
  let model := streamOutcomeStr (Model.hashStream Gen.retryInterrupted Gen.params (streamCfg ctx) v script)
  -- the reference: consume the script as a well-behaved reader, hash with the reference parameters
  let spec :=
    match Spec.consume script with
    | .error k => "ioerr:" ++ k
    | .ok data => genOutcomeStr (Model.generate Ref.params {} v Model.defaultOptions data)
  let self :=
    match Spec.consume script with
    | .ok data => if data.length ≤ 160 then some (streamExceptStr (Spec.hashStream v script), spec) else none
    | _ => some (streamExceptStr (Spec.hashStream v script), spec)
  pure { model := model, spec := some spec, self := self }

def evalFile (ctx : Ctx) (vS specS : String) : Option Result := do
  let v ← variantOf vS
  if specS == "missing" then
    pure { model := "ioerr:NotFound", spec := some "ioerr:NotFound" }
  else
    match specS.splitOn ":" with
    | ["s", sizeS, seedS] => do
      let size ← sizeS.toNat?
      let seed ← seedS.toNat?
      let data := patternBytes seed size
      -- the file is delivered in reads of at most BUFFER_SIZE bytes
      let rec chunks (fuel : Nat) (d : List UInt8) : List Model.ReadEv :=
        match fuel with
        | 0 => []
        | fuel + 1 => if d.isEmpty then [] else .deliver (d.take Gen.bufferSize) :: chunks fuel (d.drop Gen.bufferSize)
      let script := chunks (size / (Gen.bufferSize + 1) + 2) data
      pure { model := streamOutcomeStr (Model.hashStream Gen.retryInterrupted Gen.params (streamCfg ctx) v script)
           , spec := some (genOutcomeStr (Model.generate Ref.params {} v Model.defaultOptions data)) }
    | _ => none

def evalLie (ctx : Ctx) (vS nS : String) : Option Result := do
  let v ← variantOf vS
  let n ← nS.toNat?
  let model :=
    match Model.hashStream Gen.retryInterrupted Gen.params (streamCfg ctx) v [.lie n] with
    | .panic _ => "panic"
    | .ub _ => "ub"
    | .ok _ => "ok"
    | .err _ => "err"
  -- property (C17): a misreporting reader may at worst cause a clean panic
  pure { model := model, spec := some "panic" }

def evalCmpstr (ctx : Ctx) (vS lS rS : String) : Option Result := do
  let v ← variantOf vS
  let l := unhex lS
  let r := unhex rS
  let cc := codecCfg ctx
  let model :=
    match Model.compareWith Gen.codec Gen.strict cc Gen.compareRaw (compareCfg ctx) v l r with
    | .ok d => "ok:" ++ toString d
    | .err (.left, e) => "err:L:" ++ parseErrStr e
    | .err (.right, e) => "err:R:" ++ parseErrStr e
    | .panic _ => "panic"
    | .ub _ => "ub"
  -- spec (lenient parser only; strict configurations are compared through the model)
  let specSet : Option (List String) :=
    if cc.strict then none
    else
      let pl := parseAllowed false v l none
      let pr := parseAllowed false v r none
      match Spec.parseText v l, Spec.parseText v r with
      | some a, some b => some ["ok:" ++ toString (Spec.distance a b false)]
      | none, _ => some (pl.map (fun e => "err:L:" ++ (e.drop 4).toString))
      | some _, none => some (pr.map (fun e => "err:R:" ++ (e.drop 4).toString))
  pure { model := model, specSet := specSet }

def evalEasy (ctx : Ctx) (toks : List String) : Option Result :=
  match toks with
  | ["stream", v, s] => evalStream ctx v s
  | ["file", v, s] => evalFile ctx v s
  | ["lie", v, n] => evalLie ctx v n
  | [op, _v, first, extra, fail] =>
    if op != "hstream" && op != "hstreamerr" then none else
    -- only the length matters (the model cannot hold 4 GiB): TooLargeInput iff more than MAX bytes were
    -- delivered (`C11.too_large_iff`), otherwise a hash whose length code is that of the total (169 at MAX)
    match first.toNat?, extra.toNat? with
    | some a, some b =>
      -- a hard error after the data is returned as the I/O error whatever the length (`C12.hard_error_wins`)
      let r := if fail == "1" then "ioerr" else if a + b > Ref.maxLength then "toolarge" else "ok:169"
      some { model := r, spec := some r }
    | _, _ => none
  | ["cmpstr", v, l, r] => evalCmpstr ctx v l r
  | _ => none

end TlshVerif.Driver
