/-
Driver operations for the length code (C09) and the length limits (C10).
-/
import TlshVerif.DriverOps
import TlshVerif.Model.Params
import TlshVerif.Spec.Tlsh

namespace TlshVerif.Driver

open TlshVerif

def encStr (P : Model.GenParams) (cfg : Model.Cfg) (n : Nat) : String :=
  match Model.encodeLength P cfg n with
  | .ok (some c) => "some:" ++ toString c
  | .ok none => "none"
  | .panic _ => "panic"
  | .ub _ => "ub"
  | .err _ => "err"

def specEncStr (n : Nat) : String :=
  if n ≤ Ref.maxLength then "some:" ++ toString (Spec.lengthCode n) else "none"

/-- `FuzzyHashLengthEncoding::range()` -/
def rangeModel (P : Model.GenParams) (c : Nat) : String :=
  if c = 0 then "some:0:" ++ toString (P.topval.getD 0 0)
  else if c ≥ P.raw.encodedValueSize then "none"
  else "some:" ++ toString (P.topval.getD (c - 1) 0 + 1) ++ ":" ++ toString (P.topval.getD c 0)

/-- Spec: the lengths that encode to `c` (code 0 also covers length 0). -/
def rangeSpec (c : Nat) : String :=
  if c ≥ 170 then "none"
  else
    let lo := if c = 0 then 0 else Ref.topval.getD (c - 1) 0 + 1
    "some:" ++ toString lo ++ ":" ++ toString (Ref.topval.getD c 0)

def evalLength (ctx : Ctx) (toks : List String) : Option Result :=
  match toks with
  | ["lenc", nS] => do
    let n ← nS.toNat?
    pure { model := encStr Gen.params ctx.cfg n, spec := some (specEncStr n) }
  | ["lrange", cS] => do
    let c ← cS.toNat?
    let valid (b : Bool) := " valid=" ++ (if b then "1" else "0")
    pure { model := rangeModel Gen.params c ++ valid (decide (c < Gen.params.raw.encodedValueSize))
         , spec := some (rangeSpec c ++ valid (decide (c < 170))) }
  | ["lsweep"] =>
    -- break points of the reference: code i starts at topval[i-1] + 1; `none` from max + 1
    let bp : List String :=
      ("0:0" :: ((List.range 169).map (fun i => toString (Ref.topval.getD i 0 + 1) ++ ":" ++ toString (i + 1)))) ++
        [toString (Ref.maxLength + 1) ++ ":none"]
    let spec := ",".intercalate bp
    -- model: evaluate at every reference break point and its predecessor
    let pts : List Nat := 0 :: ((List.range 170).map (fun i => Ref.topval.getD i 0 + 1))
    let ok := pts.all (fun n =>
      encStr Gen.params ctx.cfg n == specEncStr n &&
        (n == 0 || encStr Gen.params ctx.cfg (n - 1) == specEncStr (n - 1)))
    pure { model := if ok then spec else "model-disagrees-with-reference-at-a-break-point", spec := some spec }
  | ["consts", vS] => do
    -- published associated constants and the `Tlsh*` aliases (C06 / C14: sizes; C01: aliases)
    let v ← variantOf vS
    let r := s!"{v.buckets} {v.binLen} {v.strLen} {v.strLen - 2} 1"
    pure { model := r, spec := some r }
  | ["lenlimits", vS, lS] => do
    let v ← variantOf vS
    let len ← lS.toNat?
    let run (P : Model.GenParams) : String :=
      let vp := Model.vparams P v
      let val := Model.validity P vp len
      let name := match val with
        | .tooSmall => "TooSmall" | .validWhenOptimistic => "ValidWhenOptimistic"
        | .valid => "Valid" | .tooLarge => "TooLarge"
      let b (x : Bool) := if x then "1" else "0"
      let isErr := match val with | .tooSmall | .tooLarge => true | _ => false
      name ++ " " ++ b isErr ++ " " ++ b (val.isErrOn false) ++ " " ++ b (val.isErrOn true) ++ " " ++
        toString vp.minLen ++ " " ++ toString vp.minLenConservative ++ " " ++ toString P.raw.maxLength
    pure { model := run Gen.params, spec := some (run Ref.params) }
  | ["huge", _vS, nS] => do
    -- consequences of C11/C09 for a history of total size n (the model does not execute 4 GiB)
    let n ← nS.toNat?
    let plen := if n < 2 ^ 32 then toString n else "none"
    let tl := if n > Ref.maxLength then "1" else "0"
    let lv := if n > Ref.maxLength then "-" else toString (Spec.lengthCode n)
    let r := plen ++ " toolarge=" ++ tl ++ " lvalue=" ++ lv
    pure { model := r, spec := some r }
  | _ => none

end TlshVerif.Driver
