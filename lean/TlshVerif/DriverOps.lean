/-
Operation decoding / evaluation for the model driver.  One function per probe
operation (DESIGN Appendix B); results are canonical strings identical to what
the probe prints.
-/
import TlshVerif.Model.Params
import TlshVerif.Spec.Tlsh
import TlshVerif.Model.Aggregate

namespace TlshVerif.Driver

open TlshVerif

structure Ctx where
  cfg : Model.Cfg
  flags : List (String × Bool)

def defaultCtx : Ctx := { cfg := {}, flags := [] }

def Ctx.flag (c : Ctx) (k : String) : Bool :=
  match c.flags.find? (fun e => e.1 == k) with
  | some e => e.2
  | none => false

/-- `cfg k=v k=v …` header written by the probe from `cfg!()`. -/
def parseCfg (line : String) : Ctx :=
  let kvs := (line.splitOn " ").drop 1 |>.filterMap (fun kv =>
    match kv.splitOn "=" with
    | [k, v] => some (k, v == "1")
    | _ => none)
  let f (k : String) : Bool :=
    match kvs.find? (fun e => e.1 == k) with
    | some e => e.2
    | none => false
  let simdAgg := f "simd-per-arch" && f "opt-simd-bucket-aggregation"
  let agg : Model.AggBackend :=
    bif !simdAgg then Model.AggBackend.naive
    else bif f "detect-features" || f "target-avx2" then Model.AggBackend.avx2  -- this sandbox's CPU has AVX2
    else bif f "target-ssse3" then Model.AggBackend.ssse3
    else bif f "target-sse2" then Model.AggBackend.sse2
    else Model.AggBackend.naive
  { cfg :=
      { lowMemBuckets := f "opt-low-memory-buckets"
      , pearsonDouble := f "opt-pearson-table-double"
      , aggBackend := agg
      , unsafe_ := f "unsafe"
      , debugAssertions := f "debug-assertions"
      , strict := f "strict-parser" }
  , flags := kvs }

def splitArrow (line : String) : Option (String × String) :=
  match line.splitOn " => " with
  | [a, b] => some (a, b)
  | _ => none

/-! ### hex -/

def hexVal (c : UInt8) : UInt8 :=
  if c ≥ 48 && c ≤ 57 then c - 48
  else if c ≥ 97 && c ≤ 102 then c - 87
  else if c ≥ 65 && c ≤ 70 then c - 55
  else 0

def unhex (s : String) : List UInt8 :=
  if s == "-" || s == "." then []
  else
    let b := s.toUTF8
    let n := b.size / 2
    let rec go (i : Nat) (acc : List UInt8) : List UInt8 :=
      match i with
      | 0 => acc
      | i + 1 => go i (((hexVal (b.get! (2 * i)) <<< (4 : UInt8)) ||| hexVal (b.get! (2 * i + 1))) :: acc)
    go n []

def hexDigit (n : UInt8) : Char :=
  Char.ofNat (if n < 10 then 48 + n.toNat else 87 + n.toNat)

def hexStr (l : List UInt8) : String :=
  if l.isEmpty then "-"
  else String.ofList (l.flatMap (fun b => [hexDigit (b >>> (4 : UInt8)), hexDigit (b &&& (15 : UInt8))]))

def unhexU32s (s : String) : Array UInt32 :=
  let rec go : List UInt8 → List UInt32
    | a :: b :: c :: d :: rest =>
      (a.toUInt32 ||| (b.toUInt32 <<< (8 : UInt32)) ||| (c.toUInt32 <<< (16 : UInt32)) ||| (d.toUInt32 <<< (24 : UInt32))) :: go rest
    | _ => []
  (go (unhex s)).toArray

def hexU32s (a : Array UInt32) : String :=
  hexStr (a.toList.flatMap (fun (x : UInt32) =>
    [x.toUInt8, (x >>> (8 : UInt32)).toUInt8, (x >>> (16 : UInt32)).toUInt8, (x >>> (24 : UInt32)).toUInt8]))

def parsePieces (s : String) : List (List UInt8) :=
  if s == "-" then [] else (s.splitOn ",").map unhex

def joinWith (sep : String) (l : List String) : String :=
  if l.isEmpty then "-" else sep.intercalate l

/-! ### variants, options, results -/

def variantOf (s : String) : Option Variant :=
  match s with
  | "0" => some .short | "1" => some .normal | "2" => some .normalLong
  | "3" => some .long | "4" => some .longLong | _ => none

def optionsOf (bits : Nat) : Options :=
  { conservative := bits % 2 = 1
  , pureInt := (bits / 2) % 2 = 1
  , allowSmall := (bits / 4) % 2 = 1
  , allowHalf := (bits / 8) % 2 = 1
  , allowQuarter := (bits / 16) % 2 = 1 }

def parseOpts (s : String) : List Nat :=
  if s == "*" then List.range 32 else (s.splitOn ",").filterMap String.toNat?

def genErrStr : GenError → String
  | .tooLarge => "TooLargeInput"
  | .tooSmall => "TooSmallInput"
  | .halfEmpty => "BucketsAreHalfEmpty"
  | .threeQuarterEmpty => "BucketsAreThreeQuarterEmpty"

def hashStr (h : Hash) : String := "ok:" ++ hexStr h.toBytes

def genOutcomeStr : Outcome GenError Hash → String
  | .ok h => hashStr h
  | .err e => "err:" ++ genErrStr e
  | .panic _ => "panic"
  | .ub _ => "ub"

def genExceptStr : Except GenError Hash → String
  | .ok h => hashStr h
  | .error e => "err:" ++ genErrStr e

def lenStr : Option Nat → String
  | some n => toString n
  | none => "none"

structure Result where
  model : String
  spec : Option String := none
  /-- when the property allows several outcomes: the observed result must be one of these -/
  specSet : Option (List String) := none
  self : Option (String × String) := none

/-! ### generator operations -/

/-- Feed pieces, collecting `processed_len()` after each. -/
def feed (P : Model.GenParams) (cfg : Model.Cfg) (v : Variant) (s : Model.GenState)
    (pieces : List (List UInt8)) : Model.GenState × List String :=
  let r := pieces.foldl
    (fun (acc : Model.GenState × List String) p =>
      let s' := Model.genUpdate P cfg v acc.1 p
      (s', lenStr (Model.processedLen s') :: acc.2))
    (s, [])
  (r.1, r.2.reverse)

def finals (P : Model.GenParams) (cfg : Model.Cfg) (v : Variant) (s : Model.GenState)
    (opts : List Nat) : List String :=
  -- the model uses the aggregation back end of the probed build; the `_mm_undefined_si128` registers are
  -- given two different contents depending on the option index (the result must not depend on them)
  opts.map (fun o =>
    let u : Model.M128 := if o % 2 = 0 then ⟨0, 0, 0, 0⟩ else ⟨0xffffffff, 0x80008000, 0x7fff7fff, 0x12345678⟩
    genOutcomeStr (Model.genFinalizeCfg u u P cfg v s (optionsOf o)))

def panicked (l : List String) : Bool := l.any (fun s => s == "panic" || s == "ub")

def evalGen (ctx : Ctx) (vS optsS piecesS : String) : Option Result := do
  let v ← variantOf vS
  let opts := parseOpts optsS
  let pieces := parsePieces piecesS
  -- model: current-tree parameters, probe's configuration
  let (s, lens) := feed Gen.params ctx.cfg v (Model.genInit ctx.cfg v) pieces
  let res := finals Gen.params ctx.cfg v s opts
  let model := if panicked res then "panic" else joinWith "," lens ++ " " ++ ";".intercalate res
  -- reference: reference parameters, plain configuration, whole input at once
  let data := pieces.flatten
  let (_, cum) := pieces.foldl (fun (acc : Nat × List String) p =>
    let n := acc.1 + p.length
    (n, (if n < 2 ^ 32 then toString n else "none") :: acc.2)) (0, [])
  let refCfg : Model.Cfg := {}
  let sRef := Model.genUpdate Ref.params refCfg v (Model.genInit refCfg v) data
  let resRef := finals Ref.params refCfg v sRef opts
  let spec := joinWith "," cum.reverse ++ " " ++ ";".intercalate resRef
  -- the written-for-humans Spec itself, on inputs small enough for it
  let self :=
    if data.length ≤ 160 then
      -- (the Spec recomputes everything per option: sample four option settings per input)
      let k := data.length % 8
      let sub := [k, 24 + (7 - k)]
      let pick := (opts.zip resRef).zipIdx.filter (fun e => sub.contains e.2) |>.map (·.1)
      let resSpec := pick.map (fun e => genExceptStr (Spec.tlsh v (optionsOf e.1) data))
      some (";".intercalate resSpec, ";".intercalate (pick.map (·.2)))
    else none
  pure { model := model, spec := some spec, self := self }

def mkState (_ctx : Ctx) (bucketsS lenS tailS ckS : String) : Option Model.GenState := do
  let len ← lenS.toNat?
  pure { tail := unhex tailS, len := len, acc := (unhex ckS, unhexU32s bucketsS) }

def stateStr (s : Model.GenState) : String :=
  hexU32s s.acc.2 ++ " " ++ toString s.len ++ " " ++ hexStr s.tail ++ " " ++ hexStr s.acc.1

def evalState (ctx : Ctx) (vS optsS bS lenS tailS ckS piecesS : String) : Option Result := do
  let v ← variantOf vS
  let opts := parseOpts optsS
  let pieces := parsePieces piecesS
  let s0 ← mkState ctx bS lenS tailS ckS
  let run (P : Model.GenParams) : String :=
    let (s, lens) := feed P ctx.cfg v s0 pieces
    let res := finals P ctx.cfg v s opts
    if panicked res then "panic"
    else stateStr s ++ " " ++ joinWith "," lens ++ " " ++ ";".intercalate res
  pure { model := run Gen.params, spec := some (run Ref.params) }

structure HistSt where
  gens : Array Model.GenState
  cur : Nat
  outs : List String

def evalHist (ctx : Ctx) (vS scriptS : String) : Option Result := do
  let v ← variantOf vS
  let run (P : Model.GenParams) : String :=
    let st0 : HistSt := { gens := #[Model.genInit ctx.cfg v], cur := 0, outs := [] }
    let st := (scriptS.splitOn ",").foldl (fun (st : HistSt) op =>
      if op.startsWith "u:" then
        let p := unhex (op.drop 2).toString
        let g := Model.genUpdate P ctx.cfg v (st.gens.getD st.cur (Model.genInit ctx.cfg v)) p
        { st with gens := st.gens.setIfInBounds st.cur g, outs := lenStr (Model.processedLen g) :: st.outs }
      else if op.startsWith "f:" then
        let o := ((op.drop 2).toString.toNat?).getD 0
        let g := st.gens.getD st.cur (Model.genInit ctx.cfg v)
        { st with outs := genOutcomeStr (Model.genFinalize P ctx.cfg v g (optionsOf o)) :: st.outs }
      else if op == "c" then
        let g := st.gens.getD st.cur (Model.genInit ctx.cfg v)
        { st with gens := st.gens.push g, outs := "-" :: st.outs }
      else if op.startsWith "cf:" then
        -- `clone_from`: handle k := current handle
        let k := ((op.drop 3).toString.toNat?).getD 0
        let g := st.gens.getD st.cur (Model.genInit ctx.cfg v)
        { st with gens := st.gens.setIfInBounds k g, outs := "-" :: st.outs }
      else if op.startsWith "s:" then
        { st with cur := ((op.drop 2).toString.toNat?).getD 0, outs := "-" :: st.outs }
      else st) st0
    let fin := st.gens.toList.map (fun g =>
      lenStr (Model.processedLen g) ++ "/" ++ genOutcomeStr (Model.genFinalize P ctx.cfg v g (optionsOf 28)))
    ",".intercalate st.outs.reverse ++ " " ++ ",".intercalate fin
  pure { model := run Gen.params, spec := some (run Ref.params) }

/-- `core`: observations that do not depend on the accumulator step. -/
def evalCore (ctx : Ctx) (vS lenS tailS piecesS : String) : Option Result := do
  let v ← variantOf vS
  let len0 ← lenS.toNat?
  let tail0 := unhex tailS
  -- `Z<n>` = a piece of n zero bytes (n ≥ 2^32).  The model cannot hold such a list; by
  -- `Model.updateFull_eq` only the first `maxLen - len` bytes of a piece matter once the tail is
  -- full, so near `MAX_LEN` the piece is represented by its first 8192 bytes.
  -- `Z<n>` = a piece of n zero bytes (n ≥ 2^32): evaluated by the closed form `Model.updateZeros`,
  -- which `Model.updateZeros_eq` proves equal to `Model.update` on `List.replicate n 0`.
  let hasZ := (piecesS.splitOn ",").any (fun p => p.startsWith "Z")
  if tail0.length > 4 then none else
  let pieceToks := (if piecesS == "-" then [] else piecesS.splitOn ",")
  let pieces := pieceToks.map (fun p => if p.startsWith "Z" then [] else unhex p)
  let f : Unit → List UInt8 → Unit := fun _ _ => ()
  let obs (s : Model.St Unit) : String :=
    toString s.len ++ ":" ++ hexStr s.tail ++ ":" ++ lenStr (Model.processedLen s)
  let s0 : Model.St Unit := { tail := tail0, len := len0, acc := () }
  let r := pieceToks.foldl (fun (acc : Model.St Unit × List String) p =>
    let s' := if p.startsWith "Z" then Model.updateZeros acc.1 (((p.drop 1).toString.toNat?).getD 0)
              else Model.update f acc.1 (unhex p)
    (s', obs s' :: acc.2)) (s0, [])
  let plen := (Model.processedLen r.1).getD (2 ^ 32 - 1)
  let tooLarge (P : Model.GenParams) : String :=
    if Model.validity P (Model.vparams P v) plen = .tooLarge then "1" else "0"
  let model := joinWith "," r.2.reverse ++ " toolarge=" ++ tooLarge Gen.params
  -- closed form (`ideal`) when starting from a fresh generator
  let spec :=
    if len0 = 0 ∧ tail0.isEmpty ∧ !hasZ then
      let r2 := pieces.foldl (fun (acc : List UInt8 × List String) p =>
        let e := acc.1 ++ p
        (e, obs (Model.ideal f () e) :: acc.2)) ([], [])
      let n := r2.1.length
      some (joinWith "," r2.2.reverse ++ " toolarge=" ++ (if n > Ref.maxLength then "1" else "0"))
    else some (joinWith "," r.2.reverse ++ " toolarge=" ++ tooLarge Ref.params)
  let _ := ctx
  pure { model := model, spec := spec }

/-- `agg`: one aggregation back end on one bucket array. -/
def evalAgg (ctx : Ctx) (nbS beS q1S q2S q3S bS : String) : Option Result := do
  let nb ← nbS.toNat?
  let q1 ← q1S.toNat?
  let q2 ← q2S.toNat?
  let q3 ← q3S.toNat?
  let b := (unhexU32s bS).toList
  let be : Model.AggBackend ← match beS with
    | "naive" => some .naive | "sse2" => some .sse2 | "ssse3" => some .ssse3 | "avx2" => some .avx2
    | "disp" => some ctx.cfg.aggBackend | _ => none
  let (a, c, d) := (UInt32.ofNat q1, UInt32.ofNat q2, UInt32.ofNat q3)
  let u : Model.M128 := ⟨0xdeadbeef, 0x00ff00ff, 0x80000000, 0x7fffffff⟩
  let v : Variant := ⟨nb, 1⟩
  pure { model := hexStr (Model.aggregateWith be u u b a c d)
       , spec := some (hexStr (Spec.body v (b.map UInt32.toNat) q1 q2 q3)) }

/-- Dispatch on the operation name. -/
def eval (ctx : Ctx) (toks : List String) : Option Result :=
  match toks with
  | ["gen", v, o, p] => evalGen ctx v o p
  | ["state", v, o, b, l, t, c, p] => evalState ctx v o b l t c p
  | ["hist", v, s] => evalHist ctx v s
  | ["core", v, l, t, p] => evalCore ctx v l t p
  | ["agg", nb, be, q1, q2, q3, b] => evalAgg ctx nb be q1 q2 q3 b
  | _ => none

end TlshVerif.Driver
