/- Driver operations for serde: `de` and `ser`. -/
import TlshVerif.DriverOps
import TlshVerif.DriverCodec
import TlshVerif.Model.Serde
import TlshVerif.Gen.Codec

namespace TlshVerif.Driver

open TlshVerif

def parseSerdeEv (s : String) : Option Model.SerdeEv :=
  match s.splitOn ":" with
  | ["str", h] | ["bstr", h] | ["string", h] => some (.str (unhex h))
  | ["bytes", h] | ["bbytes", h] | ["bytebuf", h] => some (.bytes (unhex h))
  | "other" :: _ => some .other
  | _ => none

def evalSerde (ctx : Ctx) (toks : List String) : Option Result :=
  match toks with
  | ["de", vS, hrS, evS] => do
    let v ← variantOf vS
    let ev ← parseSerdeEv evS
    let cc := codecCfg ctx
    let hr := hrS == "1"
    let str (o : Outcome Unit Hash) : String :=
      match o with
      | .ok h => hashStr h
      | .err _ => "err"
      | .panic _ => "panic"
      | .ub _ => "ub"
    let model := str (Model.deserialize Gen.codec Gen.strict cc v Gen.serdeBytesVisitorUnwraps hr ev)
    -- property: Ok iff the matching parser accepts, otherwise Err; never a panic
    let spec :=
      match hr, ev with
      | true, .str s | true, .bytes s =>
        (match parseAllowed cc.strict v s none with
         | [one] => if one.startsWith "ok:" then one else "err"
         | _ => "err")
      | false, .bytes b =>
        if b.length ≠ v.binLen then "err"
        else
          let h := Spec.ofBytes v b
          if cc.strict && !(Spec.checksumValid v h && Spec.lengthValid h) then "err" else "ok:" ++ hexStr b
      | _, _ => "err"
    pure { model := model, spec := some spec }
  | ["ser", vS, hrS, bS] => do
    let v ← variantOf vS
    let bin := unhex bS
    let cc := codecCfg ctx
    match hashOfBin ctx v bin with
    | .ok h =>
      let s (o : Model.SerOut) : String := match o with
        | .str t => "str:" ++ hexStr t
        | .bytes b => "bytes:" ++ hexStr b
      let hs := Spec.ofBytes v bin
      pure { model := s (Model.serialize Gen.codec cc h (hrS == "1"))
           , spec := some (if hrS == "1" then "str:" ++ hexStr (Spec.format hs .withVersion) else "bytes:" ++ hexStr bin) }
    | _ => none
  | _ => none

end TlshVerif.Driver
