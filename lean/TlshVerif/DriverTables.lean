/- Driver operations: compiled Pearson tables / bucket mappings (`tbl`) and the first-call race (`race`). -/
import TlshVerif.DriverOps
import TlshVerif.Model.Params
import TlshVerif.Spec.Tlsh

namespace TlshVerif.Driver

open TlshVerif

def rowHex (f : UInt8 → UInt8) : String := hexStr ((List.range 256).map (fun x => f (UInt8.ofNat x)))

def byteOfS (s : String) : Option UInt8 := s.toNat?.map UInt8.ofNat

def evalTables (_ctx : Ctx) (toks : List String) : Option Result :=
  let P := Gen.params
  match toks with
  | ["tbl", "p"] => some { model := rowHex (Model.pearsonUpdate P 0), spec := some (rowHex (Spec.pearson 0)) }
  | ["tbl", "init"] => some { model := rowHex (Model.pearsonInitWith P), spec := some (rowHex (Spec.pearson 0)) }
  | ["tbl", "p48"] =>
    some { model := rowHex (Model.final48 P 0), spec := some (rowHex (fun x => Spec.fold48 (Spec.pearson 0 x))) }
  | ["tbl", "p256"] => some { model := rowHex (Model.final256 P 0), spec := some (rowHex (Spec.pearson 0)) }
  | ["tbl", "pd", b2S] => do
    let b2 ← byteOfS b2S
    pure { model := rowHex (fun b1 => Model.updateDouble P 0 b1 b2)
         , spec := some (rowHex (fun b1 => Spec.pearson (Spec.pearson 0 b1) b2)) }
  | ["tbl", "pds", s, a, b] => do
    let (s, a, b) := (← byteOfS s, ← byteOfS a, ← byteOfS b)
    pure { model := toString (Model.updateDouble P s a b).toNat
         , spec := some (toString (Spec.pearson (Spec.pearson s a) b).toNat) }
  | ["tbl", "bm256", s, a, b, c] => do
    let (s, a, b, c) := (← byteOfS s, ← byteOfS a, ← byteOfS b, ← byteOfS c)
    pure { model := toString (Model.bMapping256 P s a b c).toNat, spec := some (toString (Spec.bmap256 s a b c).toNat) }
  | ["tbl", "bm48", s, a, b, c] => do
    let (s, a, b, c) := (← byteOfS s, ← byteOfS a, ← byteOfS b, ← byteOfS c)
    pure { model := toString (Model.bMapping48 P s a b c).toNat
         , spec := some (toString (Spec.fold48 (Spec.bmap256 s a b c)).toNat) }
  | ["tbl", "u", s, a] => do
    let (s, a) := (← byteOfS s, ← byteOfS a)
    pure { model := toString (Model.pearsonUpdate P s a).toNat, spec := some (toString (Spec.pearson s a).toNat) }
  | ["tbl", "f48", s, a] => do
    let (s, a) := (← byteOfS s, ← byteOfS a)
    pure { model := toString (Model.final48 P s a).toNat, spec := some (toString (Spec.fold48 (Spec.pearson s a)).toNat) }
  | ["race", _] => some { model := "ok", spec := some "ok" }
  | _ => none

end TlshVerif.Driver
