/-
Exact-integer model of the IEEE-754 binary32 operations used by the legacy
Q-ratio formula  `((q.wrapping_mul(100) as f32) / (q3 as f32)) as u32`.

No floats: `roundNat` is `u32 as f32` (round to nearest, ties to even, 24-bit
significand); `divTrunc a b` is `trunc(RN(a / b))` saturated at `u32::MAX`
(Rust's `as u32`), for f32-representable naturals `a`, `b`.  The quotient of
two such numbers with `b ≥ 1` lies in `[2⁻³², 2³²]`, so neither subnormals nor
overflow occur.  This file is *modelled, not verified* against hardware: the
correspondence harness compares it with the compiled code (DESIGN §7).
-/
namespace TlshVerif.F32

/-- `n as f32` for `n < 2^32`, returned as the (integral) value of the float. -/
def roundNat (n : Nat) : Nat :=
  if n < 2 ^ 24 then n
  else
    let e := Nat.log2 n - 23
    let q := n / 2 ^ e
    let r := n % 2 ^ e
    let half := 2 ^ (e - 1)
    let q' := if r > half ∨ (r = half ∧ q % 2 = 1) then q + 1 else q
    q' * 2 ^ e

/-- `((a as f32-value) / (b as f32-value)) as u32` where `a`, `b` are already
f32-representable naturals. -/
def divTrunc (a b : Nat) : Nat :=
  if a = 0 then 0                       -- 0/x = 0, 0/0 = NaN ↦ 0
  else if b = 0 then 2 ^ 32 - 1         -- x/0 = +inf ↦ u32::MAX
  else
    let k0 : Int := (Nat.log2 a : Int) - (Nat.log2 b : Int)
    let ge : Bool := if k0 ≥ 0 then decide (a ≥ b * 2 ^ k0.toNat) else decide (a * 2 ^ (-k0).toNat ≥ b)
    let k : Int := if ge then k0 else k0 - 1      -- ⌊log2 (a/b)⌋
    let e : Int := k - 23
    let N := if e ≥ 0 then a else a * 2 ^ (-e).toNat
    let D := if e ≥ 0 then b * 2 ^ e.toNat else b
    let q := N / D
    let r := N % D
    let m := if 2 * r > D ∨ (2 * r = D ∧ q % 2 = 1) then q + 1 else q   -- RN-even significand
    let val := if e ≥ 0 then m * 2 ^ e.toNat else m / 2 ^ (-e).toNat     -- truncation toward 0
    min val (2 ^ 32 - 1)

/-- The legacy Q-ratio: `((q.wrapping_mul(mul) as f32) / (q3 as f32)) as u32 % md`. -/
def ratio (mul md q q3 : Nat) : Nat :=
  divTrunc (roundNat ((q * mul) % 2 ^ 32)) (roundNat q3) % md

end TlshVerif.F32
