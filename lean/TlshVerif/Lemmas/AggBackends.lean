/-
List level: every x86 aggregation back end equals `aggregateNaive` on bucket
arrays whose length is a multiple of 8, for sorted thresholds and any content of
the `_mm_undefined_si128` registers.
-/
import TlshVerif.Lemmas.AggKernels

namespace TlshVerif.Model

open TlshVerif.Lemmas.Aggregate

/-- the naive per-chunk fold -/
def naiveFold (q1 q2 q3 : UInt32) (c : List UInt32) : UInt8 :=
  c.reverse.foldl (fun x bv => (x <<< 2) ||| getQuartile bv q1 q2 q3) (0 : UInt8)

theorem naiveFold_four (q1 q2 q3 b0 b1 b2 b3 : UInt32) :
    naiveFold q1 q2 q3 [b0, b1, b2, b3] = naiveChunk b0 b1 b2 b3 q1 q2 q3 := rfl

theorem aggregateNaive_eq (b : List UInt32) (q1 q2 q3 : UInt32) :
    aggregateNaive b q1 q2 q3 = ((chunksExact 4 b).map (naiveFold q1 q2 q3)).reverse := rfl

theorem chunksExact_eight_cons {α : Type} (x0 x1 x2 x3 x4 x5 x6 x7 : α) (rest : List α) :
    chunksExact 8 (x0 :: x1 :: x2 :: x3 :: x4 :: x5 :: x6 :: x7 :: rest)
      = [x0, x1, x2, x3, x4, x5, x6, x7] :: chunksExact 8 rest := by
  conv => lhs; rw [chunksExact]
  rw [dif_pos]
  · rfl
  · simp only [List.length_cons]; omega

/-- 4-bucket kernels (SSE2 / SSSE3) vs the naive fold, chunk list level. -/
theorem map_chunks4_congr (f : List UInt32 → UInt8) (q1 q2 q3 : UInt32)
    (hf : ∀ b0 b1 b2 b3, f [b0, b1, b2, b3] = naiveChunk b0 b1 b2 b3 q1 q2 q3) :
    ∀ (m : Nat) (b : List UInt32), b.length = 4 * m →
      (chunksExact 4 b).map f = (chunksExact 4 b).map (naiveFold q1 q2 q3)
  | 0, b, h => by
    have : b = [] := List.length_eq_zero_iff.1 (by omega)
    subst this; rw [chunksExact_nil]; rfl
  | m + 1, b, h => by
    match b, h with
    | x0 :: x1 :: x2 :: x3 :: rest, h =>
      rw [chunksExact_four_cons]
      simp only [List.map_cons, hf, naiveFold_four]
      rw [map_chunks4_congr f q1 q2 q3 hf m rest (by simp at h; omega)]

theorem aggregateSsse3_eq_naive (m : Nat) (b : List UInt32) (hb : b.length = 4 * m) (q1 q2 q3 : UInt32)
    (h12 : q1 ≤ q2) (h23 : q2 ≤ q3) : aggregateSsse3 b q1 q2 q3 = aggregateNaive b q1 q2 q3 := by
  unfold aggregateSsse3
  rw [aggregateNaive_eq, map_chunks4_congr _ q1 q2 q3 (fun b0 b1 b2 b3 => ssse3_chunk b0 b1 b2 b3 q1 q2 q3 h12 h23) m b hb]

theorem aggregateSse2_eq_naive (u0 u1 : M128) (m : Nat) (b : List UInt32) (hb : b.length = 4 * m)
    (q1 q2 q3 : UInt32) (h12 : q1 ≤ q2) (h23 : q2 ≤ q3) :
    aggregateSse2 u0 u1 b q1 q2 q3 = aggregateNaive b q1 q2 q3 := by
  unfold aggregateSse2
  rw [aggregateNaive_eq, map_chunks4_congr _ q1 q2 q3
    (fun b0 b1 b2 b3 => sse2_chunk u0 u1 b0 b1 b2 b3 q1 q2 q3 h12 h23) m b hb]

/-- AVX2: pairs of output bytes from 8-bucket chunks. -/
theorem avx2_pairs (q1 q2 q3 : UInt32) (h12 : q1 ≤ q2) (h23 : q2 ≤ q3) :
    ∀ (m : Nat) (b : List UInt32), b.length = 8 * m →
      ((chunksExact 8 b).map (fun c => Gen.avx2SubAggregation c q1 q2 q3)).reverse.flatMap (fun p => [p.1, p.2])
        = ((chunksExact 4 b).map (naiveFold q1 q2 q3)).reverse
  | 0, b, h => by
    have : b = [] := List.length_eq_zero_iff.1 (by omega)
    subst this; rw [chunksExact_nil, chunksExact_nil]; rfl
  | m + 1, b, h => by
    match b, h with
    | x0 :: x1 :: x2 :: x3 :: x4 :: x5 :: x6 :: x7 :: rest, h =>
      rw [chunksExact_eight_cons, chunksExact_four_cons, chunksExact_four_cons]
      simp only [List.map_cons, List.reverse_cons, List.flatMap_append, List.flatMap_cons, List.flatMap_nil,
        List.append_nil, avx2_chunk _ _ _ _ _ _ _ _ q1 q2 q3 h12 h23, naiveFold_four, List.append_assoc,
        List.cons_append, List.nil_append]
      rw [avx2_pairs q1 q2 q3 h12 h23 m rest (by simp at h; omega)]

theorem aggregateAvx2_eq_naive (m : Nat) (b : List UInt32) (hb : b.length = 8 * m) (q1 q2 q3 : UInt32)
    (h12 : q1 ≤ q2) (h23 : q2 ≤ q3) : aggregateAvx2 b q1 q2 q3 = aggregateNaive b q1 q2 q3 := by
  unfold aggregateAvx2
  rw [aggregateNaive_eq, avx2_pairs q1 q2 q3 h12 h23 m b hb]

/-- Every back end, any `undefined` register content. -/
theorem aggregateWith_eq_naive (be : AggBackend) (u0 u1 : M128) (m : Nat) (b : List UInt32)
    (hb : b.length = 8 * m) (q1 q2 q3 : UInt32) (h12 : q1 ≤ q2) (h23 : q2 ≤ q3) :
    aggregateWith be u0 u1 b q1 q2 q3 = aggregateNaive b q1 q2 q3 := by
  cases be
  · rfl
  · exact aggregateSse2_eq_naive u0 u1 (2 * m) b (by omega) q1 q2 q3 h12 h23
  · exact aggregateSsse3_eq_naive (2 * m) b (by omega) q1 q2 q3 h12 h23
  · exact aggregateAvx2_eq_naive m b hb q1 q2 q3 h12 h23

end TlshVerif.Model
