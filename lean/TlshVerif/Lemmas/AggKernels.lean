/-
The x86 bucket-aggregation back ends equal the naive one (C07).
Word-level kernel lemmas use `bv_decide`.
-/
import TlshVerif.Model.Aggregate
import TlshVerif.Lemmas.Aggregate
import Std.Tactic.BVDecide

namespace TlshVerif.Model

def naiveChunk (b0 b1 b2 b3 q1 q2 q3 : UInt32) : UInt8 :=
  (((((0 : UInt8) <<< 2 ||| getQuartile b3 q1 q2 q3) <<< 2 ||| getQuartile b2 q1 q2 q3) <<< 2 |||
    getQuartile b1 q1 q2 q3) <<< 2) ||| getQuartile b0 q1 q2 q3

-- closed-term facts about the constant shuffle masks
theorem mask_lo_bytes : (mm_set_epi8 [128, 128, 128, 128, 128, 128, 128, 128, 128, 12, 128, 8, 128, 4, 128, 0]).bytes
    = [0, 128, 4, 128, 8, 128, 12, 128, 128, 128, 128, 128, 128, 128, 128, 128] := by decide +kernel
theorem mask_hi_bytes : (mm_set_epi8 [128, 128, 128, 128, 128, 128, 128, 128, 12, 128, 8, 128, 4, 128, 0, 128]).bytes
    = [128, 0, 128, 4, 128, 8, 128, 12, 128, 128, 128, 128, 128, 128, 128, 128] := by decide +kernel

set_option maxRecDepth 100000 in
theorem ssse3_chunk (b0 b1 b2 b3 q1 q2 q3 : UInt32) (h12 : q1 ≤ q2) (h23 : q2 ≤ q3) :
    Gen.ssse3SubAggregation [b0, b1, b2, b3] q1 q2 q3 = naiveChunk b0 b1 b2 b3 q1 q2 q3 := by
  unfold Gen.ssse3SubAggregation naiveChunk getQuartile
  simp only [mm_shuffle_epi8, mask_lo_bytes, mask_hi_bytes]
  simp [mm_set1_epi32, mm_xor_si128, load128u32, mm_cmpgt_epi32, cmpgt32, 
    M128.ofBytes, M128.bytes, byteOf, mm_movemask_epi8, u32OfBytes, M128.map2, M128.splat, List.zipIdx]

  bv_decide

set_option maxRecDepth 100000 in
theorem sse2_chunk (u0 u1 : M128) (b0 b1 b2 b3 q1 q2 q3 : UInt32) (h12 : q1 ≤ q2) (h23 : q2 ≤ q3) :
    Gen.sse2SubAggregation [b0, b1, b2, b3] q1 q2 q3 u0 u1 = naiveChunk b0 b1 b2 b3 q1 q2 q3 := by
  unfold Gen.sse2SubAggregation naiveChunk getQuartile
  simp [mm_set1_epi32, mm_xor_si128, load128u32, mm_cmpgt_epi32, cmpgt32, mm_packs_epi16, packs16,
    M128.ofBytes, M128.bytes, byteOf, mm_movemask_epi8, u32OfBytes, M128.map2, M128.splat, List.zipIdx]
  bv_decide

theorem mask256_lo : (mm256_set_epi8 [128, 128, 128, 128, 128, 128, 128, 128, 128, 12, 128, 8, 128, 4, 128, 0, 128, 128, 128, 128, 128, 128, 128, 128, 128, 12, 128, 8, 128, 4, 128, 0])
    = ⟨mm_set_epi8 [128, 128, 128, 128, 128, 128, 128, 128, 128, 12, 128, 8, 128, 4, 128, 0], mm_set_epi8 [128, 128, 128, 128, 128, 128, 128, 128, 128, 12, 128, 8, 128, 4, 128, 0]⟩ := by decide +kernel
theorem mask256_hi : (mm256_set_epi8 [128, 128, 128, 128, 128, 128, 128, 128, 12, 128, 8, 128, 4, 128, 0, 128, 128, 128, 128, 128, 128, 128, 128, 128, 12, 128, 8, 128, 4, 128, 0, 128])
    = ⟨mm_set_epi8 [128, 128, 128, 128, 128, 128, 128, 128, 12, 128, 8, 128, 4, 128, 0, 128], mm_set_epi8 [128, 128, 128, 128, 128, 128, 128, 128, 12, 128, 8, 128, 4, 128, 0, 128]⟩ := by decide +kernel

set_option maxRecDepth 100000 in
theorem avx2_chunk (b0 b1 b2 b3 b4 b5 b6 b7 q1 q2 q3 : UInt32) (h12 : q1 ≤ q2) (h23 : q2 ≤ q3) :
    Gen.avx2SubAggregation [b0, b1, b2, b3, b4, b5, b6, b7] q1 q2 q3
      = (naiveChunk b4 b5 b6 b7 q1 q2 q3, naiveChunk b0 b1 b2 b3 q1 q2 q3) := by
  unfold Gen.avx2SubAggregation naiveChunk getQuartile
  simp only [mask256_lo, mask256_hi, mm256_shuffle_epi8, mm_shuffle_epi8, mask_lo_bytes, mask_hi_bytes]
  simp [mm256_set1_epi32, mm256_xor_si256, load256u32, mm256_cmpgt_epi32, mm256_movemask_epi8,
    mm_set1_epi32, mm_xor_si128, load128u32, mm_cmpgt_epi32, cmpgt32,
    M128.ofBytes, M128.bytes, byteOf, mm_movemask_epi8, u32OfBytes, M128.map2, M128.splat, List.zipIdx]
  constructor <;> bv_decide

end TlshVerif.Model
