/-
Lemmas on bucket aggregation (used by C01): the `naive` back end packs four
buckets per byte exactly as `Spec.body` says.
-/
import TlshVerif.Model.Generator
import TlshVerif.Spec.Tlsh

namespace TlshVerif.Lemmas.Aggregate

open TlshVerif Model Spec

/-! ### `chunks_exact(4)` -/

theorem chunksExact_nil {α : Type} (n : Nat) : chunksExact n ([] : List α) = [] := by
  rw [chunksExact, dif_neg]
  simp only [List.length_nil]; omega

theorem chunksExact_four_cons {α : Type} (x0 x1 x2 x3 : α) (rest : List α) :
    chunksExact 4 (x0 :: x1 :: x2 :: x3 :: rest) = [x0, x1, x2, x3] :: chunksExact 4 rest := by
  conv => lhs; rw [chunksExact]
  rw [dif_pos]
  · rfl
  · simp only [List.length_cons]; omega

/-- A list of `4m` elements splits into the `m` chunks `[b[4k], …, b[4k+3]]`. -/
theorem map_chunksExact_four {α β : Type} (g : List α → β) (d : α) :
    ∀ (m : Nat) (b : List α), b.length = 4 * m →
      (chunksExact 4 b).map g =
        (List.range m).map (fun k =>
          g [b.getD (4 * k) d, b.getD (4 * k + 1) d, b.getD (4 * k + 2) d, b.getD (4 * k + 3) d])
  | 0, b, h => by
    have : b = [] := List.length_eq_zero_iff.1 (by omega)
    subst this
    rw [chunksExact_nil]; rfl
  | m + 1, b, h => by
    match b, h with
    | x0 :: x1 :: x2 :: x3 :: rest, h =>
      have hr : rest.length = 4 * m := by simp only [List.length_cons] at h; omega
      rw [chunksExact_four_cons, List.map_cons, map_chunksExact_four g d m rest hr,
        List.range_succ_eq_map, List.map_cons, List.map_map]
      congr 1

/-! ### Dibits -/

theorem dibit_lt (q1 q2 q3 x : Nat) : dibit q1 q2 q3 x < 4 := by
  unfold dibit
  split
  · omega
  · split
    · omega
    · split <;> omega

/-- `get_quartile` computes the specification's dibit. -/
theorem getQuartile_eq (x q1 q2 q3 : UInt32) :
    getQuartile x q1 q2 q3 = UInt8.ofNat (dibit q1.toNat q2.toNat q3.toNat x.toNat) := by
  unfold getQuartile dibit
  simp only [GT.gt, UInt32.lt_iff_toNat_lt]
  split
  · rfl
  · split
    · rfl
    · split <;> rfl

/-- Shift-and-or packing of four dibits is the base-4 number they spell. -/
theorem pack_dibits : ∀ d0 d1 d2 d3 : Fin 4,
    (((((0 : UInt8) <<< 2 ||| UInt8.ofNat d3.val) <<< 2 ||| UInt8.ofNat d2.val) <<< 2
        ||| UInt8.ofNat d1.val) <<< 2 ||| UInt8.ofNat d0.val)
      = UInt8.ofNat (d0.val + 4 * d1.val + 16 * d2.val + 64 * d3.val) := by
  decide

theorem pack_dibits_nat {d0 d1 d2 d3 : Nat} (h0 : d0 < 4) (h1 : d1 < 4) (h2 : d2 < 4) (h3 : d3 < 4) :
    (((((0 : UInt8) <<< 2 ||| UInt8.ofNat d3) <<< 2 ||| UInt8.ofNat d2) <<< 2
        ||| UInt8.ofNat d1) <<< 2 ||| UInt8.ofNat d0)
      = UInt8.ofNat (d0 + 4 * d1 + 16 * d2 + 64 * d3) :=
  pack_dibits ⟨d0, h0⟩ ⟨d1, h1⟩ ⟨d2, h2⟩ ⟨d3, h3⟩

private theorem getD_map_toNat (l : List UInt32) (k : Nat) :
    (l.map UInt32.toNat).getD k 0 = (l.getD k 0).toNat := by
  rw [List.getD_eq_getElem?_getD, List.getD_eq_getElem?_getD, List.getElem?_map]
  cases l[k]? <;> rfl

/-- The per-chunk fold of `aggregate_*` is `Spec.bodyByte`. -/
theorem chunk_fold_eq (b : List UInt32) (q1 q2 q3 : UInt32) (k : Nat) :
    [b.getD (4 * k) 0, b.getD (4 * k + 1) 0, b.getD (4 * k + 2) 0, b.getD (4 * k + 3) 0].reverse.foldl
        (fun (x : UInt8) (bv : UInt32) => (x <<< 2) ||| getQuartile bv q1 q2 q3) (0 : UInt8)
      = bodyByte (b.map UInt32.toNat) q1.toNat q2.toNat q3.toNat k := by
  unfold bodyByte
  rw [getD_map_toNat, getD_map_toNat, getD_map_toNat, getD_map_toNat]
  simp only [List.reverse_cons, List.reverse_nil, List.nil_append, List.cons_append,
    List.foldl_cons, List.foldl_nil, getQuartile_eq]
  exact pack_dibits_nat (dibit_lt _ _ _ _) (dibit_lt _ _ _ _) (dibit_lt _ _ _ _) (dibit_lt _ _ _ _)

/-! ### C1 -/

private theorem reverse_map_range {β : Type} (f : Nat → β) (m : Nat) :
    ((List.range m).map f).reverse = (List.range m).map (fun p => f (m - 1 - p)) := by
  apply List.ext_getElem
  · simp
  · intro i h1 h2
    simp only [List.length_reverse, List.length_map, List.length_range] at h1
    rw [List.getElem_reverse]
    simp only [List.getElem_map, List.getElem_range, List.length_map, List.length_range]

/-- `naive::aggregate_*`: output byte `p` is the specification's body byte for
buckets `4(m-1-p) … 4(m-1-p)+3`. -/
theorem aggregateNaive_spec (b : List UInt32) (m : Nat) (hb : b.length = 4 * m) (q1 q2 q3 : UInt32) :
    aggregateNaive b q1 q2 q3 =
      (List.range m).map (fun p =>
        bodyByte (b.map UInt32.toNat) q1.toNat q2.toNat q3.toNat (m - 1 - p)) := by
  unfold aggregateNaive
  rw [map_chunksExact_four _ (0 : UInt32) m b hb]
  simp only [chunk_fold_eq]
  exact reverse_map_range _ m

/-- In the shape of `Spec.body`. -/
theorem aggregateNaive_eq_body (v : Variant) (b : List UInt32) (hb : b.length = 4 * v.bodyLen)
    (q1 q2 q3 : UInt32) :
    aggregateNaive b q1 q2 q3 = body v (b.map UInt32.toNat) q1.toNat q2.toNat q3.toNat :=
  aggregateNaive_spec b v.bodyLen hb q1 q2 q3

theorem aggregateNaive_length (b : List UInt32) (m : Nat) (hb : b.length = 4 * m) (q1 q2 q3 : UInt32) :
    (aggregateNaive b q1 q2 q3).length = m := by
  rw [aggregateNaive_spec b m hb]; simp

end TlshVerif.Lemmas.Aggregate
