/-
The accumulator step of the model at the reference parameters, in spec
vocabulary: Pearson / bucket mapping, checksum update, bucket increments.
-/
import TlshVerif.Model.Params
import TlshVerif.Spec.Tlsh
import TlshVerif.Lemmas.Windows

namespace TlshVerif.Model

theorem valid_cases {v : Variant} (hv : v.Valid) :
    v = .short ∨ v = .normal ∨ v = .normalLong ∨ v = .long ∨ v = .longLong := by
  simpa [Variant.Valid, Variant.all] using hv

theorem ref_pearson : Ref.params.pearson = Spec.pearsonTable := rfl
theorem pearsonUpdate_ref (s x : UInt8) : pearsonUpdate Ref.params s x = Spec.pearson s x := rfl

theorem ref_pearson48 :
    ∀ i : Fin 256, Ref.params.pearson48[i.val]! = Spec.fold48 (Spec.pearsonTable[i.val]!) := by
  decide +kernel

theorem final48_ref (s x : UInt8) : final48 Ref.params s x = Spec.fold48 (Spec.pearson s x) := by
  unfold final48 Spec.pearson
  exact ref_pearson48 ⟨(s ^^^ x).toNat, UInt8.toNat_lt _⟩

theorem bMapping256_ref (a b c d : UInt8) : bMapping256 Ref.params a b c d = Spec.bmap256 a b c d := rfl

theorem bMapping48_ref (a b c d : UInt8) :
    bMapping48 Ref.params a b c d = Spec.fold48 (Spec.bmap256 a b c d) := by
  unfold bMapping48
  rw [final48_ref]
  rfl
theorem vparams_use48 (v : Variant) (hv : v.Valid) : (vparams Ref.params v).use48 = decide (v.buckets = 48) := by
  rcases valid_cases hv with h | h | h | h | h <;> subst h <;> rfl

theorem vparams_v (P : GenParams) (v : Variant) : (vparams P v).v = v := rfl

theorem vparams_steps (v : Variant) :
    (vparams Ref.params v).checksumSteps = if v.cksum = 1 then [(0, 0, 0)] else [(0, 0, 0), (1, 256, 1000), (2, 256, 1001)] := rfl

theorem bMapping_ref (v : Variant) (hv : v.Valid) (a b c d : UInt8) :
    bMapping Ref.params (vparams Ref.params v) a b c d = Spec.bmap v a b c d := by
  unfold bMapping Spec.bmap
  rw [vparams_use48 v hv]
  by_cases h : v.buckets = 48
  · simp [h, bMapping48_ref]
  · simp [h, bMapping256_ref]

theorem checksumUpdate_ref1 (v : Variant) (hv : v.Valid) (hc : v.cksum = 1) (c0 curr prev : UInt8) :
    checksumUpdate Ref.params (vparams Ref.params v) [c0] curr prev = [Spec.bmap v 0 curr prev c0] := by
  unfold checksumUpdate
  rw [vparams_steps, if_pos hc]
  simp [bMapping_ref v hv]

theorem checksumUpdate_ref3 (v : Variant) (hv : v.Valid) (hc : v.cksum = 3) (c0 c1 c2 curr prev : UInt8) :
    checksumUpdate Ref.params (vparams Ref.params v) [c0, c1, c2] curr prev =
      (let c0' := Spec.bmap v 0 curr prev c0
       let c1' := Spec.bmap256 c0' curr prev c1
       let c2' := Spec.bmap256 c1' curr prev c2
       [c0', c1', c2']) := by
  unfold checksumUpdate
  have : ¬ v.cksum = 1 := by omega
  rw [vparams_steps, if_neg this]
  simp [bMapping_ref v hv, bMapping256_ref]

theorem ref_pairings : Ref.params.raw.pairings =
  [(2, 4, 3, 2), (3, 4, 3, 1), (5, 4, 2, 1), (7, 4, 2, 0), (11, 4, 3, 0), (13, 4, 1, 0)] := rfl
theorem ref_checksumArgs : Ref.params.raw.checksumArgs = (4, 3) := rfl

theorem accStep_buckets (cfg : Cfg) (v : Variant) (hv : v.Valid) (ck : List UInt8) (bk : Array UInt32)
    (b0 b1 b2 b3 b4 : UInt8) :
    (accStep Ref.params cfg (vparams Ref.params v) (ck, bk) [b0, b1, b2, b3, b4]).2
      = (Spec.windowKeys v [b0, b1, b2, b3, b4]).foldl (increment cfg (vparams Ref.params v)) bk := by
  unfold accStep
  simp only [ref_pairings, List.foldl_cons, List.foldl_nil, bMapping_ref v hv, Spec.windowKeys]
  rfl

theorem accStep_checksum (cfg : Cfg) (v : Variant) (hv : v.Valid) (ck : List UInt8) (bk : Array UInt32)
    (hck : ck.length = v.cksum) (b0 b1 b2 b3 b4 : UInt8) :
    (accStep Ref.params cfg (vparams Ref.params v) (ck, bk) [b0, b1, b2, b3, b4]).1
      = Spec.checksumStep v ck [b0, b1, b2, b3, b4] := by
  unfold accStep
  simp only [ref_checksumArgs]
  have hcases : v.cksum = 1 ∨ v.cksum = 3 := by
    rcases valid_cases hv with h | h | h | h | h <;> subst h <;> simp [Variant.short, Variant.normal, Variant.normalLong, Variant.long, Variant.longLong]
  rcases hcases with h1 | h3
  · match ck, hck with
    | [c0], _ =>
      show checksumUpdate Ref.params (vparams Ref.params v) [c0] b4 b3 = _
      rw [checksumUpdate_ref1 v hv h1]; rfl
    | [], h => simp [h1] at h
    | _ :: _ :: _, h => simp [h1] at h
  · match ck, hck with
    | [c0, c1, c2], _ =>
      show checksumUpdate Ref.params (vparams Ref.params v) [c0, c1, c2] b4 b3 = _
      rw [checksumUpdate_ref3 v hv h3]; rfl
    | [], h => simp [h3] at h
    | [_], h => simp [h3] at h
    | [_, _], h => simp [h3] at h
    | _ :: _ :: _ :: _ :: _, h => simp [h3] at h

theorem checksumStep_length (v : Variant) (ck w : List UInt8) (hck : ck.length = v.cksum) :
    (Spec.checksumStep v ck w).length = v.cksum := by
  unfold Spec.checksumStep
  split
  · split <;> simp_all
  · exact hck

theorem foldl_accStep (cfg : Cfg) (v : Variant) (hv : v.Valid) (ws : List (List UInt8))
    (hws : ∀ w ∈ ws, w.length = 5) (ck : List UInt8) (bk : Array UInt32) (hck : ck.length = v.cksum) :
    ws.foldl (accStep Ref.params cfg (vparams Ref.params v)) (ck, bk) =
      (ws.foldl (Spec.checksumStep v) ck,
        (ws.flatMap (Spec.windowKeys v)).foldl (increment cfg (vparams Ref.params v)) bk) := by
  induction ws generalizing ck bk with
  | nil => rfl
  | cons w rest ih =>
    have hw : w.length = 5 := hws w (List.mem_cons_self)
    match w, hw with
    | [b0, b1, b2, b3, b4], _ =>
      simp only [List.foldl_cons, List.flatMap_cons, List.foldl_append]
      have e : accStep Ref.params cfg (vparams Ref.params v) (ck, bk) [b0, b1, b2, b3, b4]
          = (Spec.checksumStep v ck [b0, b1, b2, b3, b4],
             (Spec.windowKeys v [b0, b1, b2, b3, b4]).foldl (increment cfg (vparams Ref.params v)) bk) :=
        Prod.ext (accStep_checksum cfg v hv ck bk hck b0 b1 b2 b3 b4) (accStep_buckets cfg v hv ck bk b0 b1 b2 b3 b4)
      rw [e]
      exact ih (fun w hw => hws w (List.mem_cons_of_mem _ hw)) _ _ (checksumStep_length v ck _ hck)

theorem increment_size (cfg : Cfg) (vp : VParams) (bk : Array UInt32) (k : UInt8) :
    (increment cfg vp bk k).size = bk.size := by
  unfold increment; split <;> simp

theorem increment_getD (cfg : Cfg) (vp : VParams) (bk : Array UInt32) (k : UInt8) (i : Nat)
    (hi : i < bk.size) (hb : i < vp.v.buckets) :
    (increment cfg vp bk k).getD i 0 = bk.getD i 0 + (if k.toNat = i then 1 else 0) := by
  unfold increment
  split
  · rename_i h
    have : ¬ k.toNat = i := by
      simp only [Bool.and_eq_true, decide_eq_true_eq] at h
      omega
    simp [this]
  · simp only [Array.getD_eq_getD_getElem?, Array.getElem?_modify]
    by_cases hk : k.toNat = i
    · simp [hk, hi]
    · simp [hk, hi]

theorem foldl_increment_getD (cfg : Cfg) (vp : VParams) (keys : List UInt8) (bk : Array UInt32) (i : Nat)
    (hi : i < bk.size) (hb : i < vp.v.buckets) :
    (keys.foldl (increment cfg vp) bk).getD i 0
      = bk.getD i 0 + UInt32.ofNat (keys.countP (fun k => k.toNat = i)) := by
  induction keys generalizing bk with
  | nil => simp
  | cons k rest ih =>
    simp only [List.foldl_cons]
    rw [ih _ (by rw [increment_size]; exact hi), increment_getD cfg vp bk k i hi hb, List.countP_cons]
    by_cases hk : k.toNat = i
    · simp only [hk, if_true, decide_true]
      rw [UInt32.ofNat_add]
      generalize UInt32.ofNat (List.countP (fun k => decide (k.toNat = i)) rest) = c
      generalize bk.getD i 0 = x
      show x + 1 + c = x + (c + UInt32.ofNat 1)
      rw [UInt32.add_assoc, UInt32.add_comm 1 c]
      rfl
    · simp [hk]

theorem foldl_increment_size (cfg : Cfg) (vp : VParams) (keys : List UInt8) (bk : Array UInt32) :
    (keys.foldl (increment cfg vp) bk).size = bk.size := by
  induction keys generalizing bk with
  | nil => rfl
  | cons k rest ih => simp only [List.foldl_cons]; rw [ih, increment_size]

end TlshVerif.Model
