/-
Binary form, accessors and buffer-writing operations: helper lemmas.
-/
import TlshVerif.Lemmas.CodecParse

namespace TlshVerif.Codec

open TlshVerif

/-- `try_from(&[u8; N])` on an array of the right size, in terms of the strict checks. -/
theorem tryFromArray_eq (S : Model.StrictConsts) (c : Model.CodecCfg) (v : Variant)
    (b : List UInt8) (hb : b.length = v.binLen) :
    Model.tryFromArray S c v b =
      if c.strict ∧ ¬ Model.ckValid v S.shortChecksumMax (Spec.ofBytes v b).checksum then
        .err .invalidChecksum
      else if c.strict ∧ ¬ Model.lvalueValid S.encodedValueSize (Spec.ofBytes v b).lvalue then
        .err .lengthIsTooLarge
      else .ok (Spec.ofBytes v b) := by
  unfold Variant.binLen at hb
  unfold Model.tryFromArray Spec.ofBytes
  have h1 : b[v.cksum]? = some (b.getD v.cksum 0) := by
    rw [List.getD_eq_getElem?_getD, List.getElem?_eq_getElem (by omega)]; rfl
  have h2 : b[v.cksum + 1]? = some (b.getD (v.cksum + 1) 0) := by
    rw [List.getD_eq_getElem?_getD, List.getElem?_eq_getElem (by omega)]; rfl
  have h3 : (b.drop (v.cksum + 2)).length = v.bodyLen := by rw [List.length_drop]; omega
  simp only [h1, h2, h3, ne_eq, not_true_eq_false, if_false]

theorem ofBytes_toBytes (v : Variant) (b : List UInt8) (hb : b.length = v.binLen) :
    (Spec.ofBytes v b).toBytes = b := by
  unfold Variant.binLen at hb
  unfold Spec.ofBytes Hash.toBytes
  simp only
  have h1 : b.drop v.cksum = b.getD v.cksum 0 :: b.drop (v.cksum + 1) := by
    rw [List.getD_eq_getElem?_getD, List.getElem?_eq_getElem (by omega)]
    simp
  have h2 : b.drop (v.cksum + 1) = b.getD (v.cksum + 1) 0 :: b.drop (v.cksum + 2) := by
    rw [List.getD_eq_getElem?_getD, List.getElem?_eq_getElem (by omega)]
    simp
  conv => rhs; rw [← List.take_append_drop v.cksum b, h1, h2]
  simp

theorem ofBytes_wf (v : Variant) (b : List UInt8) (hb : b.length = v.binLen) :
    (Spec.ofBytes v b).WF v := by
  unfold Variant.binLen at hb
  unfold Spec.ofBytes Hash.WF
  simp only [List.length_take, List.length_drop]
  omega

theorem toBytes_length (v : Variant) (h : Hash) (hw : h.WF v) : h.toBytes.length = v.binLen := by
  obtain ⟨w1, w2⟩ := hw
  unfold Hash.toBytes Variant.binLen
  simp [w1, w2]; omega

theorem ofBytes_of_toBytes (v : Variant) (h : Hash) (hw : h.WF v) : Spec.ofBytes v h.toBytes = h := by
  obtain ⟨w1, w2⟩ := hw
  rcases h with ⟨ck, lv, qr, bd⟩
  simp only at w1 w2
  unfold Spec.ofBytes Hash.toBytes
  rw [← w1]
  simp

/-- The model's and the spec's checksum validity agree on the shipped variants. -/
theorem ckValid_ref (v : Variant) (hv : v.Valid) (h : Hash) :
    Model.ckValid v Ref.strict.shortChecksumMax h.checksum = Spec.checksumValid v h := by
  simp [Variant.Valid, Variant.all] at hv
  rcases hv with rfl | rfl | rfl | rfl | rfl <;> rfl

theorem lvalueValid_ref (h : Hash) :
    Model.lvalueValid Ref.strict.encodedValueSize h.lvalue = Spec.lengthValid h := rfl

/-! ### overwrite -/

theorem overwrite_length (buf data : List UInt8) (h : data.length ≤ buf.length) :
    (Model.overwrite buf data).length = buf.length := by
  unfold Model.overwrite; simp; omega

theorem overwrite_take (buf data : List UInt8) :
    (Model.overwrite buf data).take data.length = data := by
  unfold Model.overwrite; simp

theorem overwrite_drop (buf data : List UInt8) :
    (Model.overwrite buf data).drop data.length = buf.drop data.length := by
  unfold Model.overwrite; simp

/-- Contract of "check the size, then overwrite the front of the buffer". -/
theorem overwrite_contract (buf repr : List UInt8) (N : Nat) (hN : repr.length = N) :
    let r : Outcome OpError Nat × List UInt8 :=
      if buf.length < N then (.err .bufferIsTooSmall, buf) else (.ok N, Model.overwrite buf repr)
    (r.1 = .err .bufferIsTooSmall ↔ buf.length < N) ∧
    (buf.length < N → r.2 = buf) ∧
    (¬ buf.length < N → r.1 = .ok N ∧ r.2.take N = repr ∧ r.2.drop N = buf.drop N ∧
      r.2.length = buf.length) ∧
    r.1.Defined := by
  intro r
  by_cases hb : buf.length < N
  · have hr : r = (.err .bufferIsTooSmall, buf) := if_pos hb
    rw [hr]
    exact ⟨⟨fun _ => hb, fun _ => rfl⟩, fun _ => rfl, fun h => absurd hb h, trivial⟩
  · have hr : r = (.ok N, Model.overwrite buf repr) := if_neg hb
    rw [hr]
    refine ⟨⟨fun h => (by cases h), fun h => absurd h hb⟩, fun h => absurd h hb, fun _ => ?_, trivial⟩
    subst hN
    exact ⟨rfl, overwrite_take _ _, overwrite_drop _ _, overwrite_length _ _ (by omega)⟩

end TlshVerif.Codec
