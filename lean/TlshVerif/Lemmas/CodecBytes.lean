/-
Per-byte / per-digit facts about the codec model at the reference tables
(`Ref.codec`) versus the text spec.  Everything here is a finite check over the
256 byte values (or 16 × 16 nibble values) lifted to all `UInt8`.
-/
import TlshVerif.Model.CodecParams
import TlshVerif.Spec.Text

namespace TlshVerif.Codec

open TlshVerif

/-- Lift a check over `Fin 256` to all bytes. -/
theorem UInt8.forall_of_fin {P : UInt8 → Prop} (h : ∀ i : Fin 256, P (UInt8.ofNat i.val)) :
    ∀ b, P b := by
  intro b
  have := h ⟨b.toNat, UInt8.toNat_lt b⟩
  simpa using this

/-! ### prefixes -/

/-- Model prefix mode → spec prefix mode. -/
def toSpec : Model.Prefix → Spec.Prefix
  | .empty => .empty
  | .withVersion => .withVersion

/-- Spec prefix mode → model prefix mode. -/
def toModel : Spec.Prefix → Model.Prefix
  | .empty => .empty
  | .withVersion => .withVersion

@[simp] theorem toSpec_toModel (p : Spec.Prefix) : toSpec (toModel p) = p := by cases p <;> rfl
@[simp] theorem toModel_toSpec (p : Model.Prefix) : toModel (toSpec p) = p := by cases p <;> rfl

/-! ### encoding -/

theorem byteRevTable_ref : ∀ b, Model.byteRevTable Ref.codec b = Spec.fmtRev b :=
  UInt8.forall_of_fin (by decide +kernel)
theorem byteTable_ref : ∀ b, Model.byteTable Ref.codec b = Spec.fmtFwd b :=
  UInt8.forall_of_fin (by decide +kernel)
theorem byteTable_swap_ref : ∀ b, Model.byteTable Ref.codec (Model.swapNibble b) = Spec.fmtRev b :=
  UInt8.forall_of_fin (by decide +kernel)

/-- Every `encode_rev_1` variant writes the byte low nibble first. -/
theorem encodeRev1_ref (c : Model.CodecCfg) (b : UInt8) :
    Model.encodeRev1 Ref.codec c b = Spec.fmtRev b := by
  unfold Model.encodeRev1
  split
  · exact byteRevTable_ref b
  · exact byteTable_swap_ref b
  · exact byteRevTable_ref b

/-- Every `encode_array` variant writes the byte high nibble first. -/
theorem encode1_ref (c : Model.CodecCfg) (b : UInt8) :
    Model.encode1 Ref.codec c b = Spec.fmtFwd b := by
  unfold Model.encode1
  split <;> exact byteTable_ref b

/-- The `hex_simd::encode` contract is `fmtFwd` per byte. -/
theorem hexSimdEncodeUpper_eq (l : List UInt8) :
    Model.hexSimdEncodeUpper l = l.flatMap Spec.fmtFwd := rfl

/-- `fmtRev b = fmtFwd (swap b)`. -/
theorem fmtRev_eq_fmtFwd_swap : ∀ b, Spec.fmtRev b = Spec.fmtFwd (Model.swapNibble b) :=
  UInt8.forall_of_fin (by decide +kernel)

/-- Upper-case hexadecimal digit. -/
def isUpperHex (d : UInt8) : Prop := (48 ≤ d ∧ d ≤ 57) ∨ (65 ≤ d ∧ d ≤ 70)

instance (d : UInt8) : Decidable (isUpperHex d) := by unfold isUpperHex; infer_instance

theorem fmtFwd_charset : ∀ b, ∀ d ∈ Spec.fmtFwd b, isUpperHex d :=
  UInt8.forall_of_fin (by decide +kernel)
theorem fmtRev_charset : ∀ b, ∀ d ∈ Spec.fmtRev b, isUpperHex d :=
  UInt8.forall_of_fin (by decide +kernel)

theorem fmtFwd_length (b : UInt8) : (Spec.fmtFwd b).length = 2 := rfl
theorem fmtRev_length (b : UInt8) : (Spec.fmtRev b).length = 2 := rfl

/-! ### decoding -/

/-- Entry of the 16-bit low table for a digit of value `x` (or not a digit). -/
def lo16Of : Option UInt8 → UInt16
  | some x => x.toUInt16
  | none => 256
/-- Entry of the 16-bit high table. -/
def hi16Of : Option UInt8 → UInt16
  | some x => x.toUInt16 <<< 4
  | none => 256

theorem lo16_list : Ref.codec.lo16.toList =
    (List.range 256).map (fun i => lo16Of (Spec.hexVal (UInt8.ofNat i))) := by
  decide +kernel

theorem hi16_toList : Ref.codec.hi16.toList =
    Ref.codec.lo16.toList.map (fun (x : UInt16) => if x = 256 then x else x <<< 4) := by
  show (Array.map _ _).toList = _
  rw [Array.toList_map]; rfl

theorem hi16_list : Ref.codec.hi16.toList =
    (List.range 256).map (fun i => hi16Of (Spec.hexVal (UInt8.ofNat i))) := by
  rw [hi16_toList]
  decide +kernel

theorem lo8_list : Ref.codec.lo8.toList =
    (List.range 256).map (fun i => (Spec.hexVal (UInt8.ofNat i)).getD 255) := by
  decide +kernel

theorem lo16_ref (d : UInt8) : Ref.codec.lo16[d.toNat]! = lo16Of (Spec.hexVal d) := by
  have := d.toNat_lt
  rw [← Array.getElem!_toList, lo16_list]
  simp [getElem!_pos, this]
theorem hi16_ref (d : UInt8) : Ref.codec.hi16[d.toNat]! = hi16Of (Spec.hexVal d) := by
  have := d.toNat_lt
  rw [← Array.getElem!_toList, hi16_list]
  simp [getElem!_pos, this]
theorem lo8_ref (d : UInt8) : Ref.codec.lo8[d.toNat]! = (Spec.hexVal d).getD 255 := by
  have := d.toNat_lt
  rw [← Array.getElem!_toList, lo8_list]
  simp [getElem!_pos, this]
theorem decodeDigit_ref : ∀ d : UInt8, Model.decodeDigit Ref.codec d = (Spec.hexVal d).getD 255 :=
  UInt8.forall_of_fin (by decide +kernel)

/-- A digit value is a nibble. -/
theorem hexVal_cases : ∀ d : UInt8,
    Spec.hexVal d = none ∨ ∃ i : Fin 16, Spec.hexVal d = some (UInt8.ofNat i.val) :=
  UInt8.forall_of_fin (by decide +kernel)

/-- The four decoders as functions of the per-digit lookups. -/
def pairOf (k : Model.HexDecode) (a b : Option UInt8) : Option UInt8 :=
  match k with
  | .full =>
    if (hi16Of a ||| lo16Of b) &&& 256 ≠ 0 then none else some (hi16Of a ||| lo16Of b).toUInt8
  | .half =>
    if (lo16Of a <<< 4 ||| lo16Of b) ≥ 256 then none else some (lo16Of a <<< 4 ||| lo16Of b).toUInt8
  | _ => if b.getD 255 = 255 ∨ a.getD 255 = 255 then none else some ((a.getD 255 <<< 4) ||| b.getD 255)

theorem pairOf_some (k : Model.HexDecode) : ∀ i j : Fin 16,
    pairOf k (some (UInt8.ofNat i.val)) (some (UInt8.ofNat j.val)) =
      some (UInt8.ofNat i.val * 16 + UInt8.ofNat j.val) := by
  cases k <;> decide +kernel
theorem pairOf_none_l (k : Model.HexDecode) : ∀ j : Fin 16,
    pairOf k none (some (UInt8.ofNat j.val)) = none := by
  cases k <;> decide +kernel
theorem pairOf_none_r (k : Model.HexDecode) : ∀ j : Fin 16,
    pairOf k (some (UInt8.ofNat j.val)) none = none := by
  cases k <;> decide +kernel
theorem pairOf_none (k : Model.HexDecode) : pairOf k none none = none := by
  cases k <;> decide +kernel

/-- All four table/match decoders compute the spec's byte of a digit pair. -/
theorem decodePair_ref (c : Model.CodecCfg) (h l : UInt8) :
    Model.decodePair Ref.codec c h l = Spec.byteFwd (h, l) := by
  have : Model.decodePair Ref.codec c h l = pairOf c.decode (Spec.hexVal h) (Spec.hexVal l) := by
    unfold Model.decodePair pairOf
    simp only [lo16_ref, hi16_ref, lo8_ref, decodeDigit_ref]
    cases c.decode <;> rfl
  rw [this]
  unfold Spec.byteFwd
  rcases hexVal_cases h with hh | ⟨i, hh⟩ <;> rcases hexVal_cases l with hl | ⟨j, hl⟩ <;>
    simp only [hh, hl]
  · exact pairOf_none _
  · exact pairOf_none_l _ _
  · exact pairOf_none_r _ _
  · exact pairOf_some _ _ _

theorem hexDigitValue_eq : Model.hexDigitValue = Spec.hexVal := rfl

theorem shl_or_eq : ∀ i j : Fin 16,
    (UInt8.ofNat i.val <<< 4) ||| UInt8.ofNat j.val = UInt8.ofNat i.val * 16 + UInt8.ofNat j.val := by
  decide +kernel

/-- The `hex_simd::decode` contract, per pair, is the spec's `byteFwd`. -/
theorem simdPair_ref (p : UInt8 × UInt8) :
    (do let h ← Model.hexDigitValue p.1
        let l ← Model.hexDigitValue p.2
        pure ((h <<< 4) ||| l) : Option UInt8) = Spec.byteFwd p := by
  rw [hexDigitValue_eq]; unfold Spec.byteFwd
  rcases hexVal_cases p.1 with hh | ⟨i, hh⟩ <;> rcases hexVal_cases p.2 with hl | ⟨j, hl⟩ <;>
    simp only [hh, hl] <;> try rfl
  exact congrArg some (shl_or_eq i j)

/-! ### decode ∘ encode and encode ∘ decode per byte -/

theorem byteFwd_fmtFwd : ∀ b : UInt8,
    Spec.byteFwd (Spec.upperDigit (b >>> 4), Spec.upperDigit (b &&& 15)) = some b :=
  UInt8.forall_of_fin (by decide +kernel)

theorem byteRev_fmtRev : ∀ b : UInt8,
    Spec.byteRev (Spec.upperDigit (b &&& 15), Spec.upperDigit (b >>> 4)) = some b :=
  UInt8.forall_of_fin (by decide +kernel)

theorem upperDigit_hexVal : ∀ d : UInt8, ∀ x, Spec.hexVal d = some x → Spec.upperDigit x = Spec.upper d :=
  UInt8.forall_of_fin (by decide +kernel)

theorem nibbles_of_mul_add : ∀ i j : Fin 16,
    (UInt8.ofNat i.val * 16 + UInt8.ofNat j.val) >>> 4 = UInt8.ofNat i.val ∧
    (UInt8.ofNat i.val * 16 + UInt8.ofNat j.val) &&& 15 = UInt8.ofNat j.val := by
  decide +kernel

/-- Re-encoding a decoded pair gives the upper-cased pair. -/
theorem fmtFwd_of_byteFwd (a b x : UInt8) (h : Spec.byteFwd (a, b) = some x) :
    Spec.fmtFwd x = [Spec.upper a, Spec.upper b] := by
  unfold Spec.byteFwd at h
  rcases hexVal_cases a with ha | ⟨i, ha⟩
  · simp [ha] at h
  rcases hexVal_cases b with hb | ⟨j, hb⟩
  · simp [ha, hb] at h
  simp only [ha, hb] at h
  have hx : x = UInt8.ofNat i.val * 16 + UInt8.ofNat j.val := by
    simpa using h.symm
  have := nibbles_of_mul_add i j
  unfold Spec.fmtFwd
  rw [hx, this.1, this.2, upperDigit_hexVal a _ ha, upperDigit_hexVal b _ hb]

theorem fmtRev_of_byteRev (a b x : UInt8) (h : Spec.byteRev (a, b) = some x) :
    Spec.fmtRev x = [Spec.upper a, Spec.upper b] := by
  have := fmtFwd_of_byteFwd b a x h
  unfold Spec.fmtFwd at this
  unfold Spec.fmtRev
  simp only [List.cons.injEq, and_true] at this ⊢
  exact ⟨this.2, this.1⟩

theorem byteFwd_isSome (a b : UInt8) :
    (Spec.byteFwd (a, b)).isSome = (Spec.isHexDigit a && Spec.isHexDigit b) := by
  unfold Spec.byteFwd Spec.isHexDigit
  cases Spec.hexVal a <;> cases Spec.hexVal b <;> rfl

theorem byteRev_isSome (a b : UInt8) :
    (Spec.byteRev (a, b)).isSome = (Spec.isHexDigit a && Spec.isHexDigit b) := by
  unfold Spec.byteRev
  rw [byteFwd_isSome, Bool.and_comm]

end TlshVerif.Codec
