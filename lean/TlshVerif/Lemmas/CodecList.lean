/-
List-level lemmas for the codec proofs: `pairs`, `mapM` in `Option`, `flatMap`
of two-digit encoders, splitting a digit string into its four fields.
-/
import TlshVerif.Lemmas.CodecBytes

namespace TlshVerif.Codec

open TlshVerif

/-! ### pairs -/

theorem model_pairs_eq {α} (l : List α) : Model.pairs l = Spec.pairs l := by
  fun_induction Model.pairs l with
  | case1 a b rest ih => simp [Spec.pairs, ih]
  | case2 l h =>
    match l, h with
    | [], _ => rfl
    | [_], _ => rfl
    | a :: b :: rest, h => exact absurd rfl (h a b rest)

theorem pairs_append {α} (a b : List α) (h : a.length % 2 = 0) :
    Spec.pairs (a ++ b) = Spec.pairs a ++ Spec.pairs b := by
  fun_induction Spec.pairs a with
  | case1 x y rest ih =>
    simp only [List.length_cons] at h
    simp [Spec.pairs, ih (by omega)]
  | case2 l hl =>
    match l, hl, h with
    | [], _, _ => simp
    | [_], _, h => simp at h
    | x :: y :: rest, hl, _ => exact absurd rfl (hl x y rest)

theorem pairs_length {α} (l : List α) : (Spec.pairs l).length = l.length / 2 := by
  fun_induction Spec.pairs l with
  | case1 x y rest ih => simp [ih]; omega
  | case2 l hl =>
    match l, hl with
    | [], _ => simp
    | [_], _ => simp
    | x :: y :: rest, hl => exact absurd rfl (hl x y rest)

theorem pairs_flatMap {α β} (f : β → List α) (g : β → α × α)
    (hf : ∀ b, f b = [(g b).1, (g b).2]) (l : List β) :
    Spec.pairs (l.flatMap f) = l.map g := by
  induction l with
  | nil => rfl
  | cons x xs ih => simp [List.flatMap_cons, hf, Spec.pairs, ih]

theorem flatMap_length_two {α β} (f : β → List α) (hf : ∀ b, (f b).length = 2) (l : List β) :
    (l.flatMap f).length = 2 * l.length := by
  induction l with
  | nil => rfl
  | cons x xs ih => simp [List.flatMap_cons, hf, ih]; omega

/-! ### mapM in Option -/

theorem mapM_cons_opt {α β} (f : α → Option β) (a : α) (l : List α) :
    (a :: l).mapM f = (f a).bind (fun b => (l.mapM f).bind (fun bs => some (b :: bs))) := by
  rw [List.mapM_cons]; rfl

theorem mapM_length {α β} (f : α → Option β) (l : List α) (r : List β) (h : l.mapM f = some r) :
    r.length = l.length := by
  induction l generalizing r with
  | nil => simp at h; subst h; rfl
  | cons a l ih =>
    rw [mapM_cons_opt] at h
    cases hfa : f a with
    | none => simp [hfa] at h
    | some b =>
      cases hl : l.mapM f with
      | none => simp [hfa, hl] at h
      | some bs =>
        simp [hfa, hl] at h; subst h
        simp [ih bs hl]

theorem mapM_isSome {α β} (f : α → Option β) (l : List α) :
    (l.mapM f).isSome = l.all (fun a => (f a).isSome) := by
  induction l with
  | nil => simp
  | cons a l ih =>
    rw [mapM_cons_opt, List.all_cons, ← ih]
    cases f a <;> cases l.mapM f <;> rfl

theorem mapM_map_some {α β} (f : α → Option β) (g : β → α) (hg : ∀ b, f (g b) = some b)
    (l : List β) : (l.map g).mapM f = some l := by
  induction l with
  | nil => simp
  | cons b l ih => rw [List.map_cons, mapM_cons_opt, hg, ih]; rfl

theorem mapM_append_opt {α β} (f : α → Option β) (a b : List α) :
    (a ++ b).mapM f = (a.mapM f).bind (fun x => (b.mapM f).bind (fun y => some (x ++ y))) := by
  induction a with
  | nil => cases h : b.mapM f <;> simp [h]
  | cons x a ih =>
    rw [List.cons_append, mapM_cons_opt, mapM_cons_opt, ih]
    cases f x <;> cases a.mapM f <;> cases b.mapM f <;> rfl

/-! ### pairs ∘ mapM byteFwd / byteRev -/

theorem pairs_all {α} (p : α → Bool) (l : List α) (h : l.length % 2 = 0) :
    (Spec.pairs l).all (fun q => p q.1 && p q.2) = l.all p := by
  fun_induction Spec.pairs l with
  | case1 x y rest ih =>
    simp only [List.length_cons] at h
    simp [ih (by omega), Bool.and_assoc]
  | case2 l hl =>
    match l, hl, h with
    | [], _, _ => rfl
    | [_], _, h => simp at h
    | x :: y :: rest, hl, _ => exact absurd rfl (hl x y rest)

theorem mapM_byteFwd_isSome (d : List UInt8) (h : d.length % 2 = 0) :
    ((Spec.pairs d).mapM Spec.byteFwd).isSome = d.all Spec.isHexDigit := by
  rw [mapM_isSome, ← pairs_all _ d h]
  congr 1; funext q; exact byteFwd_isSome q.1 q.2

theorem mapM_byteRev_isSome (d : List UInt8) (h : d.length % 2 = 0) :
    ((Spec.pairs d).mapM Spec.byteRev).isSome = d.all Spec.isHexDigit := by
  rw [mapM_isSome, ← pairs_all _ d h]
  congr 1; funext q; exact byteRev_isSome q.1 q.2

theorem flatMap_of_mapM (f : UInt8 × UInt8 → Option UInt8) (g : UInt8 → List UInt8)
    (hfg : ∀ a b x, f (a, b) = some x → g x = [Spec.upper a, Spec.upper b])
    (d : List UInt8) (h : d.length % 2 = 0) (bs : List UInt8)
    (hm : (Spec.pairs d).mapM f = some bs) : bs.flatMap g = d.map Spec.upper := by
  fun_induction Spec.pairs d generalizing bs with
  | case1 x y rest ih =>
    simp only [List.length_cons] at h
    rw [mapM_cons_opt] at hm
    cases hf : f (x, y) with
    | none => simp [hf] at hm
    | some b =>
      cases hr : (Spec.pairs rest).mapM f with
      | none => simp [hf, hr] at hm
      | some r =>
        simp [hf, hr] at hm; subst hm
        simp [List.flatMap_cons, hfg x y b hf, ih (by omega) r hr]
  | case2 l hl =>
    match l, hl, h with
    | [], _, _ => simp at hm; subst hm; rfl
    | [_], _, h => simp at h
    | x :: y :: rest, hl, _ => exact absurd rfl (hl x y rest)

/-- Re-encoding decoded body digits gives the upper-cased digits. -/
theorem flatMap_fmtFwd_of_mapM (d : List UInt8) (h : d.length % 2 = 0) (bs : List UInt8)
    (hm : (Spec.pairs d).mapM Spec.byteFwd = some bs) :
    bs.flatMap Spec.fmtFwd = d.map Spec.upper :=
  flatMap_of_mapM _ _ fmtFwd_of_byteFwd d h bs hm

theorem flatMap_fmtRev_of_mapM (d : List UInt8) (h : d.length % 2 = 0) (bs : List UInt8)
    (hm : (Spec.pairs d).mapM Spec.byteRev = some bs) :
    bs.flatMap Spec.fmtRev = d.map Spec.upper :=
  flatMap_of_mapM _ _ fmtRev_of_byteRev d h bs hm

/-- Decoding encoded body bytes gives them back. -/
theorem mapM_byteFwd_flatMap (bs : List UInt8) :
    (Spec.pairs (bs.flatMap Spec.fmtFwd)).mapM Spec.byteFwd = some bs := by
  rw [pairs_flatMap Spec.fmtFwd (fun b => (Spec.upperDigit (b >>> 4), Spec.upperDigit (b &&& 15)))
    (fun _ => rfl)]
  exact mapM_map_some _ _ byteFwd_fmtFwd bs

theorem mapM_byteRev_flatMap (bs : List UInt8) :
    (Spec.pairs (bs.flatMap Spec.fmtRev)).mapM Spec.byteRev = some bs := by
  rw [pairs_flatMap Spec.fmtRev (fun b => (Spec.upperDigit (b &&& 15), Spec.upperDigit (b >>> 4)))
    (fun _ => rfl)]
  exact mapM_map_some _ _ byteRev_fmtRev bs

/-! ### splitting a digit string into fields -/

theorem split_fields (d : List UInt8) (k : Nat) (h : k + 4 ≤ d.length) :
    d = d.take k ++ [d.getD k 0, d.getD (k + 1) 0, d.getD (k + 2) 0, d.getD (k + 3) 0] ++
      d.drop (k + 4) := by
  induction k generalizing d with
  | zero =>
    match d, h with
    | a :: b :: c :: e :: rest, _ => simp
  | succ k ih =>
    match d, h with
    | a :: rest, h =>
      simp only [List.length_cons] at h
      have := ih rest (by omega)
      simp only [List.take_succ_cons, List.cons_append, List.cons.injEq, true_and]
      simpa [Nat.add_right_comm] using this

theorem drop_take_two (d : List UInt8) (k : Nat) (h : k + 2 ≤ d.length) :
    (d.drop k).take 2 = [d.getD k 0, d.getD (k + 1) 0] := by
  induction k generalizing d with
  | zero =>
    match d, h with
    | a :: b :: rest, _ => simp
  | succ k ih =>
    match d, h with
    | a :: rest, h =>
      simp only [List.length_cons] at h
      have := ih rest (by omega)
      simpa [Nat.add_right_comm] using this

/-- Fields of an assembled digit string. -/
theorem fields_of_append (A B : List UInt8) (a b c e : UInt8) (k : Nat) (hA : A.length = k) :
    let d := A ++ [a, b, c, e] ++ B
    d.take k = A ∧ d.getD k 0 = a ∧ d.getD (k + 1) 0 = b ∧ d.getD (k + 2) 0 = c ∧
      d.getD (k + 3) 0 = e ∧ d.drop (k + 4) = B := by
  subst hA
  induction A with
  | nil => simp
  | cons x A ih =>
    simp only [List.length_cons, List.cons_append] at ih ⊢
    simp [Nat.add_right_comm] at ih ⊢

end TlshVerif.Codec
