/-
The text parser `Model.fromStrBytes` at the reference tables, rewritten in the
vocabulary of the spec (`parseRef` / `parseDigits`), and the basic theory of
`Spec.decodeDigits`.
-/
import TlshVerif.Lemmas.CodecList

namespace TlshVerif.Codec
open TlshVerif
/-- The parser on the digits part, in spec vocabulary (with the strict checks in
the positions where the implementation performs them). -/
def parseDigits (strict : Bool) (v : Variant) (d : List UInt8) : Outcome ParseError Hash :=
  match (Spec.pairs (d.take (2 * v.cksum))).mapM Spec.byteRev with
  | none => .err .invalidCharacter
  | some ck =>
    if strict ∧ ¬ Model.ckValid v 48 ck then .err .invalidChecksum
    else
      match Spec.byteRev (d.getD (2 * v.cksum) 0, d.getD (2 * v.cksum + 1) 0) with
      | none => .err .invalidCharacter
      | some lv =>
        if strict ∧ ¬ Model.lvalueValid 170 lv then .err .lengthIsTooLarge
        else
          match Spec.byteRev (d.getD (2 * v.cksum + 2) 0, d.getD (2 * v.cksum + 3) 0) with
          | none => .err .invalidCharacter
          | some qr =>
            match (Spec.pairs (d.drop (2 * v.cksum + 4))).mapM Spec.byteFwd with
            | none => .err .invalidCharacter
            | some body => .ok { checksum := ck, lvalue := lv, qratios := qr, body := body }

/-- The whole parser in spec vocabulary. -/
def parseRef (strict : Bool) (v : Variant) (s : List UInt8) (m : Option Spec.Prefix) :
    Outcome ParseError Hash :=
  match Spec.resolvePrefix v s m with
  | none => .err .invalidStringLength
  | some .empty =>
    if s.length ≠ v.strLen - 2 then .err .invalidStringLength else parseDigits strict v s
  | some .withVersion =>
    if s.length ≠ v.strLen then .err .invalidStringLength
    else if s.take 2 ≠ [84, 49] then .err .invalidPrefix
    else parseDigits strict v (s.drop 2)

theorem decodeRevArray_ref (c : Model.CodecCfg) (n : Nat) (src : List UInt8) (h : src.length = n * 2) :
    Model.decodeRevArray Ref.codec c n src = (Spec.pairs src).mapM Spec.byteRev := by
  unfold Model.decodeRevArray Model.decodeArrayWith
  rw [if_neg (by simpa using h), model_pairs_eq]
  congr 1; funext p; exact decodePair_ref c p.2 p.1

theorem decodeArray_ref (c : Model.CodecCfg) (n : Nat) (src : List UInt8) (h : src.length = n * 2) :
    Model.decodeArray Ref.codec c n src = (Spec.pairs src).mapM Spec.byteFwd := by
  unfold Model.decodeArray Model.decodeArrayWith
  rw [if_neg (by simpa using h), model_pairs_eq]
  congr 1; funext p; exact decodePair_ref c p.1 p.2

theorem hexSimdDecode_ref (src : List UInt8) (h : src.length % 2 = 0) :
    Model.hexSimdDecode src = (Spec.pairs src).mapM Spec.byteFwd := by
  unfold Model.hexSimdDecode
  rw [if_neg (by simpa using h), model_pairs_eq]
  congr 1; funext p; exact simdPair_ref p

theorem decodeRev1_ref (c : Model.CodecCfg) (a b : UInt8) :
    Model.decodeRev1 Ref.codec c [a, b] = Spec.byteRev (a, b) := by
  unfold Model.decodeRev1 Spec.byteRev; exact decodePair_ref c b a

/-- The inner part of `from_str_bytes` (after the prefix has been stripped). -/
theorem inner_eq (c : Model.CodecCfg) (v : Variant) (d : List UInt8) (hd : d.length = 2 * v.binLen) :
    (match Model.decodeRevArray Ref.codec c v.cksum (d.take (v.cksum * 2)) with
      | none => Outcome.err ParseError.invalidCharacter
      | some ck =>
        if c.strict ∧ ¬ Model.ckValid v Ref.strict.shortChecksumMax ck then .err .invalidChecksum
        else
          let bytes := d.drop (v.cksum * 2)
          match Model.decodeRev1 Ref.codec c (bytes.take 2) with
          | none => .err .invalidCharacter
          | some lv =>
            if c.strict ∧ ¬ Model.lvalueValid Ref.strict.encodedValueSize lv then .err .lengthIsTooLarge
            else
              match Model.decodeRev1 Ref.codec c ((bytes.drop 2).take 2) with
              | none => .err .invalidCharacter
              | some qr =>
                let bodySrc := bytes.drop 4
                if bodySrc.length ≠ v.bodyLen * 2 then .err .invalidStringLength
                else
                  let body := if c.simdParse then Model.hexSimdDecode bodySrc else Model.decodeArray Ref.codec c v.bodyLen bodySrc
                  match body with
                  | none => .err .invalidCharacter
                  | some b => .ok { checksum := ck, lvalue := lv, qratios := qr, body := b })
    = parseDigits c.strict v d := by
  unfold Variant.binLen at hd
  have h1 : (d.take (v.cksum * 2)).length = v.cksum * 2 := by simp; omega
  have h2 : (d.drop (v.cksum * 2)).take 2 = [d.getD (2 * v.cksum) 0, d.getD (2 * v.cksum + 1) 0] := by
    rw [Nat.mul_comm]; exact drop_take_two d _ (by omega)
  have h3 : ((d.drop (v.cksum * 2)).drop 2).take 2 = [d.getD (2 * v.cksum + 2) 0, d.getD (2 * v.cksum + 3) 0] := by
    rw [List.drop_drop, Nat.mul_comm]; exact drop_take_two d _ (by omega)
  have h4 : (d.drop (v.cksum * 2)).drop 4 = d.drop (2 * v.cksum + 4) := by
    rw [List.drop_drop, Nat.mul_comm]
  have h5 : (d.drop (2 * v.cksum + 4)).length = v.bodyLen * 2 := by simp; omega
  rw [decodeRevArray_ref c _ _ h1]
  simp only [h2, h3, h4, decodeRev1_ref, h5, ne_eq, not_true_eq_false, if_false]
  rw [decodeArray_ref c _ _ h5, hexSimdDecode_ref _ (by omega)]
  simp only [ite_self]
  unfold parseDigits
  rw [Nat.mul_comm v.cksum 2]
  rfl


theorem strLen_eq (v : Variant) : v.strLen = 2 * v.binLen + 2 := rfl

theorem fromStr_eq (c : Model.CodecCfg) (v : Variant) (s : List UInt8) (m : Option Model.Prefix) :
    Model.fromStrBytes Ref.codec Ref.strict c v s m = parseRef c.strict v s (m.map toSpec) := by
  have hpl : Ref.codec.raw.prefixLen = 2 := rfl
  have hpf : Ref.codec.raw.hashPrefix.map UInt8.ofNat = [84, 49] := rfl
  unfold Model.fromStrBytes parseRef
  simp only [hpl, hpf]
  rcases m with _ | p | p
  · simp only [Option.map_none, Spec.resolvePrefix]
    by_cases h1 : s.length = v.strLen - 2
    · simp only [h1, if_true, ne_eq, not_true_eq_false, if_false]
      exact inner_eq c v s (by rw [h1, strLen_eq]; omega)
    · simp only [h1, if_false]
      by_cases h2 : s.length = v.strLen
      · simp only [h2, if_true, ne_eq, not_true_eq_false, if_false]
        by_cases h3 : s.take 2 = [84, 49]
        · simp only [h3, not_true_eq_false, if_false]
          exact inner_eq c v (s.drop 2) (by rw [List.length_drop, h2, strLen_eq]; omega)
        · simp only [h3, not_false_eq_true, if_true]
      · simp only [h2, if_false]
  · simp only [Option.map_some, toSpec, Spec.resolvePrefix]
    by_cases h1 : s.length = v.strLen - 2
    · simp only [h1, ne_eq, not_true_eq_false, if_false]
      exact inner_eq c v s (by rw [h1, strLen_eq]; omega)
    · simp only [h1, ne_eq, not_false_eq_true, if_true]
  · simp only [Option.map_some, toSpec, Spec.resolvePrefix]
    by_cases h2 : s.length = v.strLen
    · simp only [h2, ne_eq, not_true_eq_false, if_false]
      by_cases h3 : s.take 2 = [84, 49]
      · simp only [h3, not_true_eq_false, if_false]
        exact inner_eq c v (s.drop 2) (by rw [List.length_drop, h2, strLen_eq]; omega)
      · simp only [h3, not_false_eq_true, if_true]
    · simp only [h2, ne_eq, not_false_eq_true, if_true]


/-! ### `parseDigits` -/

/-- Lenient `parseDigits` is `Spec.decodeDigits`. -/
theorem parseDigits_lenient (v : Variant) (d : List UInt8) :
    parseDigits false v d =
      match Spec.decodeDigits v d with
      | none => .err .invalidCharacter
      | some h => .ok h := by
  unfold parseDigits Spec.decodeDigits
  generalize (Spec.pairs (d.take (2 * v.cksum))).mapM Spec.byteRev = ck
  generalize Spec.byteRev (d.getD (2 * v.cksum) 0, d.getD (2 * v.cksum + 1) 0) = lv
  generalize Spec.byteRev (d.getD (2 * v.cksum + 2) 0, d.getD (2 * v.cksum + 3) 0) = qr
  generalize (Spec.pairs (d.drop (2 * v.cksum + 4))).mapM Spec.byteFwd = bd
  rcases ck with _ | ck <;> rcases lv with _ | lv <;> rcases qr with _ | qr <;>
    rcases bd with _ | bd <;> simp

/-- Strict `parseDigits` in terms of the lenient one. -/
theorem parseDigits_strict (v : Variant) (d : List UInt8) :
    parseDigits true v d =
      match parseDigits false v d with
      | .ok h =>
        if ¬ Model.ckValid v 48 h.checksum then .err .invalidChecksum
        else if ¬ Model.lvalueValid 170 h.lvalue then .err .lengthIsTooLarge
        else .ok h
      | _ =>
        match (Spec.pairs (d.take (2 * v.cksum))).mapM Spec.byteRev with
        | none => .err .invalidCharacter
        | some ck =>
          if ¬ Model.ckValid v 48 ck then .err .invalidChecksum
          else
            match Spec.byteRev (d.getD (2 * v.cksum) 0, d.getD (2 * v.cksum + 1) 0) with
            | none => .err .invalidCharacter
            | some lv =>
              if ¬ Model.lvalueValid 170 lv then .err .lengthIsTooLarge else .err .invalidCharacter := by
  unfold parseDigits
  generalize (Spec.pairs (d.take (2 * v.cksum))).mapM Spec.byteRev = ck
  generalize Spec.byteRev (d.getD (2 * v.cksum) 0, d.getD (2 * v.cksum + 1) 0) = lv
  generalize Spec.byteRev (d.getD (2 * v.cksum + 2) 0, d.getD (2 * v.cksum + 3) 0) = qr
  generalize (Spec.pairs (d.drop (2 * v.cksum + 4))).mapM Spec.byteFwd = bd
  rcases ck with _ | ck <;> rcases lv with _ | lv <;> rcases qr with _ | qr <;>
    rcases bd with _ | bd <;> simp <;> (try split) <;> (try split) <;> simp_all


theorem decodeDigits_isSome (v : Variant) (d : List UInt8) (hd : d.length = 2 * v.binLen) :
    (Spec.decodeDigits v d).isSome = d.all Spec.isHexDigit := by
  unfold Variant.binLen at hd
  have hs := split_fields d (2 * v.cksum) (by omega)
  have hall := congrArg (fun l => List.all l Spec.isHexDigit) hs
  simp only [List.all_append, List.all_cons, List.all_nil, Bool.and_true] at hall
  rw [hall]
  have h1 := mapM_byteRev_isSome (d.take (2 * v.cksum)) (by simp; omega)
  have h4 := mapM_byteFwd_isSome (d.drop (2 * v.cksum + 4)) (by simp; omega)
  have h2 := byteRev_isSome (d.getD (2 * v.cksum) 0) (d.getD (2 * v.cksum + 1) 0)
  have h3 := byteRev_isSome (d.getD (2 * v.cksum + 2) 0) (d.getD (2 * v.cksum + 3) 0)
  have key : (Spec.decodeDigits v d).isSome =
      (((Spec.pairs (d.take (2 * v.cksum))).mapM Spec.byteRev).isSome &&
       (Spec.byteRev (d.getD (2 * v.cksum) 0, d.getD (2 * v.cksum + 1) 0)).isSome &&
       (Spec.byteRev (d.getD (2 * v.cksum + 2) 0, d.getD (2 * v.cksum + 3) 0)).isSome &&
       ((Spec.pairs (d.drop (2 * v.cksum + 4))).mapM Spec.byteFwd).isSome) := by
    unfold Spec.decodeDigits
    generalize (Spec.pairs (d.take (2 * v.cksum))).mapM Spec.byteRev = ck
    generalize Spec.byteRev (d.getD (2 * v.cksum) 0, d.getD (2 * v.cksum + 1) 0) = lv
    generalize Spec.byteRev (d.getD (2 * v.cksum + 2) 0, d.getD (2 * v.cksum + 3) 0) = qr
    generalize (Spec.pairs (d.drop (2 * v.cksum + 4))).mapM Spec.byteFwd = bd
    rcases ck with _ | ck <;> rcases lv with _ | lv <;> rcases qr with _ | qr <;>
      rcases bd with _ | bd <;> rfl
  rw [key, h1, h2, h3, h4]
  simp only [Bool.and_assoc]

/-- Components of a successful `decodeDigits`. -/
theorem decodeDigits_eq_some (v : Variant) (d : List UInt8) (h : Hash) :
    Spec.decodeDigits v d = some h ↔
      (Spec.pairs (d.take (2 * v.cksum))).mapM Spec.byteRev = some h.checksum ∧
      Spec.byteRev (d.getD (2 * v.cksum) 0, d.getD (2 * v.cksum + 1) 0) = some h.lvalue ∧
      Spec.byteRev (d.getD (2 * v.cksum + 2) 0, d.getD (2 * v.cksum + 3) 0) = some h.qratios ∧
      (Spec.pairs (d.drop (2 * v.cksum + 4))).mapM Spec.byteFwd = some h.body := by
  unfold Spec.decodeDigits
  generalize (Spec.pairs (d.take (2 * v.cksum))).mapM Spec.byteRev = ck
  generalize Spec.byteRev (d.getD (2 * v.cksum) 0, d.getD (2 * v.cksum + 1) 0) = lv
  generalize Spec.byteRev (d.getD (2 * v.cksum + 2) 0, d.getD (2 * v.cksum + 3) 0) = qr
  generalize (Spec.pairs (d.drop (2 * v.cksum + 4))).mapM Spec.byteFwd = bd
  rcases h with ⟨a, b, c, e⟩
  rcases ck with _ | ck <;> rcases lv with _ | lv <;> rcases qr with _ | qr <;>
    rcases bd with _ | bd <;> simp

theorem decodeDigits_wf (v : Variant) (d : List UInt8) (h : Hash) (hd : d.length = 2 * v.binLen)
    (hh : Spec.decodeDigits v d = some h) : h.WF v := by
  unfold Variant.binLen at hd
  rw [decodeDigits_eq_some] at hh
  obtain ⟨h1, _, _, h4⟩ := hh
  have l1 := mapM_length _ _ _ h1
  have l4 := mapM_length _ _ _ h4
  rw [pairs_length] at l1 l4
  simp only [List.length_take, List.length_drop] at l1 l4
  constructor <;> omega

theorem digits_of_decodeDigits (v : Variant) (d : List UInt8) (h : Hash)
    (hd : d.length = 2 * v.binLen) (hh : Spec.decodeDigits v d = some h) :
    Spec.digits h = d.map Spec.upper := by
  unfold Variant.binLen at hd
  rw [decodeDigits_eq_some] at hh
  obtain ⟨h1, h2, h3, h4⟩ := hh
  have hs := split_fields d (2 * v.cksum) (by omega)
  have e1 := flatMap_fmtRev_of_mapM _ (by simp; omega) _ h1
  have e4 := flatMap_fmtFwd_of_mapM _ (by simp; omega) _ h4
  have e2 := fmtRev_of_byteRev _ _ _ h2
  have e3 := fmtRev_of_byteRev _ _ _ h3
  unfold Spec.digits
  rw [e1, e2, e3, e4]
  conv => rhs; rw [hs]
  simp

theorem decodeDigits_digits (v : Variant) (h : Hash) (hw : h.WF v) :
    Spec.decodeDigits v (Spec.digits h) = some h := by
  obtain ⟨w1, w2⟩ := hw
  have hk : (h.checksum.flatMap Spec.fmtRev).length = 2 * v.cksum := by
    rw [flatMap_length_two _ fmtRev_length, w1]
  have hf := fields_of_append (h.checksum.flatMap Spec.fmtRev) (h.body.flatMap Spec.fmtFwd)
    (Spec.upperDigit (h.lvalue &&& 15)) (Spec.upperDigit (h.lvalue >>> 4))
    (Spec.upperDigit (h.qratios &&& 15)) (Spec.upperDigit (h.qratios >>> 4)) _ hk
  have hd : Spec.digits h = h.checksum.flatMap Spec.fmtRev ++
      [Spec.upperDigit (h.lvalue &&& 15), Spec.upperDigit (h.lvalue >>> 4),
       Spec.upperDigit (h.qratios &&& 15), Spec.upperDigit (h.qratios >>> 4)] ++
      h.body.flatMap Spec.fmtFwd := by
    unfold Spec.digits Spec.fmtRev; simp
  rw [← hd] at hf
  obtain ⟨f1, f2, f3, f4, f5, f6⟩ := hf
  rw [decodeDigits_eq_some, f1, f2, f3, f4, f5, f6]
  exact ⟨mapM_byteRev_flatMap _, byteRev_fmtRev _, byteRev_fmtRev _, mapM_byteFwd_flatMap _⟩

theorem digits_length (v : Variant) (h : Hash) (hw : h.WF v) :
    (Spec.digits h).length = 2 * v.binLen := by
  obtain ⟨w1, w2⟩ := hw
  unfold Spec.digits Variant.binLen
  simp only [List.length_append, flatMap_length_two _ fmtRev_length,
    flatMap_length_two _ fmtFwd_length, fmtRev_length, w1, w2]
  omega

/-! ### inversion of `parseRef` -/

/-- `parseDigits` terminates normally and only produces these errors. -/
theorem parseDigits_cases (strict : Bool) (v : Variant) (d : List UInt8) :
    (∃ h, parseDigits strict v d = .ok h) ∨ parseDigits strict v d = .err .invalidCharacter ∨
      (strict = true ∧ (parseDigits strict v d = .err .invalidChecksum ∨
        parseDigits strict v d = .err .lengthIsTooLarge)) := by
  unfold parseDigits
  generalize (Spec.pairs (d.take (2 * v.cksum))).mapM Spec.byteRev = ck
  generalize Spec.byteRev (d.getD (2 * v.cksum) 0, d.getD (2 * v.cksum + 1) 0) = lv
  generalize Spec.byteRev (d.getD (2 * v.cksum + 2) 0, d.getD (2 * v.cksum + 3) 0) = qr
  generalize (Spec.pairs (d.drop (2 * v.cksum + 4))).mapM Spec.byteFwd = bd
  cases strict <;> rcases ck with _ | ck <;> rcases lv with _ | lv <;> rcases qr with _ | qr <;>
    rcases bd with _ | bd <;> simp <;> (try split) <;> (try split) <;> simp_all

theorem parseDigits_lenient_ok (v : Variant) (d : List UInt8) (h : Hash) :
    parseDigits false v d = .ok h ↔ Spec.decodeDigits v d = some h := by
  rw [parseDigits_lenient]; cases Spec.decodeDigits v d <;> simp

theorem parseDigits_lenient_err (v : Variant) (d : List UInt8) (e : ParseError) :
    parseDigits false v d = .err e ↔ Spec.decodeDigits v d = none ∧ e = .invalidCharacter := by
  rw [parseDigits_lenient]; cases Spec.decodeDigits v d <;> simp [eq_comm]

/-- The digits part has the right length once the length check has passed. -/
theorem stripPrefix_length (v : Variant) (s : List UInt8) (m : Option Spec.Prefix) (p : Spec.Prefix)
    (hr : Spec.resolvePrefix v s m = some p) (hl : Spec.lengthOk v s m = true) :
    (Spec.stripPrefix s p).length = 2 * v.binLen := by
  unfold Spec.lengthOk at hl
  rw [hr] at hl
  cases p <;> simp [Spec.stripPrefix] at hl ⊢ <;> rw [strLen_eq] at hl <;> omega

/-- Inversion of a successful parse. -/
theorem parseRef_ok_iff (strict : Bool) (v : Variant) (s : List UInt8) (m : Option Spec.Prefix) (h : Hash) :
    parseRef strict v s m = .ok h ↔
      ∃ p, Spec.resolvePrefix v s m = some p ∧ Spec.lengthOk v s m = true ∧
        (p = .empty ∨ s.take 2 = [84, 49]) ∧ parseDigits strict v (Spec.stripPrefix s p) = .ok h := by
  unfold parseRef Spec.lengthOk
  cases hr : Spec.resolvePrefix v s m with
  | none => simp
  | some p =>
    cases p
    · by_cases h1 : s.length = v.strLen - 2 <;> simp [h1, Spec.stripPrefix]
    · by_cases h1 : s.length = v.strLen <;> by_cases h2 : s.take 2 = [84, 49] <;>
        simp [h1, h2, Spec.stripPrefix]

theorem parseRef_err_iff (strict : Bool) (v : Variant) (s : List UInt8) (m : Option Spec.Prefix)
    (e : ParseError) :
    parseRef strict v s m = .err e ↔
      (Spec.lengthOk v s m = false ∧ e = .invalidStringLength) ∨
      (Spec.lengthOk v s m = true ∧ Spec.resolvePrefix v s m = some .withVersion ∧
        s.take 2 ≠ [84, 49] ∧ e = .invalidPrefix) ∨
      (∃ p, Spec.resolvePrefix v s m = some p ∧ Spec.lengthOk v s m = true ∧
        (p = .empty ∨ s.take 2 = [84, 49]) ∧ parseDigits strict v (Spec.stripPrefix s p) = .err e) := by
  unfold parseRef Spec.lengthOk
  cases hr : Spec.resolvePrefix v s m with
  | none => simp [eq_comm]
  | some p =>
    cases p
    · by_cases h1 : s.length = v.strLen - 2 <;> simp [h1, Spec.stripPrefix, eq_comm]
    · by_cases h1 : s.length = v.strLen <;> by_cases h2 : s.take 2 = [84, 49] <;>
        simp [h1, h2, Spec.stripPrefix, eq_comm]

theorem parseRef_defined (strict : Bool) (v : Variant) (s : List UInt8) (m : Option Spec.Prefix) :
    (∃ h, parseRef strict v s m = .ok h) ∨ ∃ e, parseRef strict v s m = .err e := by
  unfold parseRef
  have hd := fun d => parseDigits_cases strict v d
  have hd' : ∀ d, (∃ h, parseDigits strict v d = .ok h) ∨ ∃ e, parseDigits strict v d = .err e := by
    intro d; rcases hd d with h | h | ⟨_, h | h⟩
    · exact .inl h
    all_goals exact .inr ⟨_, h⟩
  split
  · exact .inr ⟨_, rfl⟩
  · split
    · exact .inr ⟨_, rfl⟩
    · exact hd' _
  · split
    · exact .inr ⟨_, rfl⟩
    · split
      · exact .inr ⟨_, rfl⟩
      · exact hd' _

/-! ### strict versus lenient -/

theorem parseDigits_strict_of_lenient_ok (v : Variant) (d : List UInt8) (h : Hash)
    (hl : parseDigits false v d = .ok h) :
    parseDigits true v d =
      if ¬ Model.ckValid v 48 h.checksum then .err .invalidChecksum
      else if ¬ Model.lvalueValid 170 h.lvalue then .err .lengthIsTooLarge
      else .ok h := by
  rw [parseDigits_strict, hl]

theorem parseDigits_strict_of_lenient_err (v : Variant) (d : List UInt8) (e : ParseError)
    (hl : parseDigits false v d = .err e) : ∃ e', parseDigits true v d = .err e' := by
  rcases parseDigits_cases true v d with ⟨h, hs⟩ | hs | ⟨_, hs | hs⟩
  · rw [parseDigits_strict, hl] at hs
    simp only at hs
    repeat' (split at hs)
    all_goals cases hs
  all_goals exact ⟨_, hs⟩

theorem parseDigits_strict_ok (v : Variant) (d : List UInt8) (h : Hash) :
    parseDigits true v d = .ok h ↔
      parseDigits false v d = .ok h ∧ Model.ckValid v 48 h.checksum = true ∧
        Model.lvalueValid 170 h.lvalue = true := by
  constructor
  · intro hs
    rcases parseDigits_cases false v d with ⟨h', hl⟩ | hl | ⟨hf, _⟩
    · rw [parseDigits_strict_of_lenient_ok v d h' hl] at hs
      split at hs
      · cases hs
      · split at hs
        · cases hs
        · cases hs; simp_all
    · obtain ⟨e', he⟩ := parseDigits_strict_of_lenient_err v d _ hl
      rw [he] at hs; cases hs
    · cases hf
  · rintro ⟨hl, h1, h2⟩
    rw [parseDigits_strict_of_lenient_ok v d h hl]; simp [h1, h2]

theorem parseDigits_ok_lenient (strict : Bool) (v : Variant) (d : List UInt8) (h : Hash)
    (hs : parseDigits strict v d = .ok h) : parseDigits false v d = .ok h := by
  cases strict
  · exact hs
  · exact ((parseDigits_strict_ok v d h).mp hs).1

/-- Either the outer checks pass, and the result is that of `parseDigits` on the
digits part, or they fail with an error that does not depend on strictness. -/
theorem parseRef_split (v : Variant) (s : List UInt8) (m : Option Spec.Prefix) :
    (∃ p, Spec.resolvePrefix v s m = some p ∧
      ∀ strict, parseRef strict v s m = parseDigits strict v (Spec.stripPrefix s p)) ∨
    (∃ e, ∀ strict, parseRef strict v s m = .err e) := by
  unfold parseRef
  cases hr : Spec.resolvePrefix v s m with
  | none => exact .inr ⟨_, fun _ => rfl⟩
  | some p =>
    cases p
    · by_cases h1 : s.length = v.strLen - 2
      · exact .inl ⟨_, rfl, fun _ => by simp [h1, Spec.stripPrefix]⟩
      · exact .inr ⟨.invalidStringLength, fun _ => by simp [h1]⟩
    · by_cases h1 : s.length = v.strLen
      · by_cases h2 : s.take 2 = [84, 49]
        · exact .inl ⟨_, rfl, fun _ => by simp [h1, h2, Spec.stripPrefix]⟩
        · exact .inr ⟨.invalidPrefix, fun _ => by simp [h1, h2]⟩
      · exact .inr ⟨.invalidStringLength, fun _ => by simp [h1]⟩

end TlshVerif.Codec
