/-
Body distance: every back end (`pseudo_simd_64`, SSE2, SSE4.1, AVX2) computes
the same `u32` as `pseudo_simd_32` on bodies of the shipped lengths (C02).

No `bv_decide` in this file.
-/
import TlshVerif.Lemmas.DistBody

namespace TlshVerif.Lemmas.Dist

open TlshVerif Model

/-! ### `pseudo_simd_64` -/

theorem pseudo64_le64 (a b : List UInt8) :
    Gen.pseudo64SubDistance (le64 a) (le64 b)
      = Gen.pseudo32SubDistance (le32 a) (le32 b)
        + Gen.pseudo32SubDistance (le32 (a.drop 4)) (le32 (b.drop 4)) := by
  unfold le64
  exact pseudo64_split _ _ _ _

theorem pseudo64Distance_eq : ∀ (n : Nat) (a b : List UInt8), a.length = 8 * n → b.length = 8 * n →
    pseudo64Distance a b = pseudo32Distance a b
  | 0, a, b, ha, hb => by
    have ha' : a = [] := List.length_eq_zero_iff.mp (by omega)
    subst ha'
    rw [pseudo64Distance]
    simp [pseudo32Distance]
  | n + 1, a, b, ha, hb => by
    rw [pseudo64Distance, dif_pos ⟨by omega, by omega⟩, pseudo64_le64]
    rw [pseudo64Distance_eq n (a.drop 8) (b.drop 8) (by rw [List.length_drop]; omega)
      (by rw [List.length_drop]; omega)]
    rw [pseudo32Distance_step a b (by omega) (by omega)]
    rw [pseudo32Distance_step (a.drop 4) (b.drop 4) (by rw [List.length_drop]; omega)
      (by rw [List.length_drop]; omega)]
    simp only [List.drop_drop, Nat.reduceAdd, UInt32.add_assoc]

theorem pseudo64Distance12_eq (a b : List UInt8) (ha : a.length = 12) (hb : b.length = 12) :
    pseudo64Distance12 a b = pseudo32Distance a b := by
  unfold pseudo64Distance12
  rw [pseudo64_le64]
  rw [pseudo32Distance_step a b (by omega) (by omega)]
  rw [pseudo32Distance_step (a.drop 4) (b.drop 4) (by rw [List.length_drop]; omega)
    (by rw [List.length_drop]; omega)]
  rw [pseudo32Distance_step ((a.drop 4).drop 4) ((b.drop 4).drop 4)
    (by simp only [List.length_drop]; omega) (by simp only [List.length_drop]; omega)]
  have : List.drop 4 (List.drop 4 (List.drop 4 a)) = [] :=
    List.drop_eq_nil_of_le (by simp only [List.length_drop]; omega)
  rw [this]
  simp only [List.drop_drop, Nat.reduceAdd, UInt32.add_assoc, pseudo32Distance, UInt32.add_zero]

/-! ### loads -/

theorem getD_drop (l : List UInt8) (k i : Nat) : (l.drop k).getD i 0 = l.getD (k + i) 0 := by
  simp [List.getD_eq_getElem?_getD, List.getElem?_drop]

theorem ofBytes_drop (l : List UInt8) (k : Nat) :
    M128.ofBytes (l.drop (4 * k))
      = ⟨le32 (l.drop (4 * k)), le32 (l.drop (4 * (k + 1))), le32 (l.drop (4 * (k + 2))),
          le32 (l.drop (4 * (k + 3)))⟩ := by
  simp only [M128.ofBytes, le32, getD_drop, M128.mk.injEq]
  refine ⟨trivial, ?_, ?_, ?_⟩ <;> congr 2 <;> omega

theorem load128_eq (l : List UInt8) (idx : Nat) :
    load128 l idx
      = ⟨le32 (l.drop (4 * (4 * idx))), le32 (l.drop (4 * (4 * idx + 1))),
          le32 (l.drop (4 * (4 * idx + 2))), le32 (l.drop (4 * (4 * idx + 3)))⟩ := by
  unfold load128
  rw [show 16 * idx = 4 * (4 * idx) by omega]
  exact ofBytes_drop l (4 * idx)

theorem load256_eq (l : List UInt8) (idx : Nat) :
    load256 l idx
      = ⟨⟨le32 (l.drop (4 * (8 * idx))), le32 (l.drop (4 * (8 * idx + 1))),
          le32 (l.drop (4 * (8 * idx + 2))), le32 (l.drop (4 * (8 * idx + 3)))⟩,
         ⟨le32 (l.drop (4 * (8 * idx + 4))), le32 (l.drop (4 * (8 * idx + 5))),
          le32 (l.drop (4 * (8 * idx + 6))), le32 (l.drop (4 * (8 * idx + 7)))⟩⟩ := by
  unfold load256
  rw [show 32 * idx = 4 * (8 * idx) by omega, show 4 * (8 * idx) + 16 = 4 * (8 * idx + 4) by omega]
  rw [ofBytes_drop l (8 * idx), ofBytes_drop l (8 * idx + 4)]

/-! ### SSE4.1 and AVX2 -/

theorem sse41Packed_load (a b : List UInt8) (idx : Nat) :
    Gen.sse41Packed (load128 a idx) (load128 b idx)
      = ⟨W a b (4 * idx), W a b (4 * idx + 1), W a b (4 * idx + 2), W a b (4 * idx + 3)⟩ := by
  rw [sse41Packed_eq, load128_eq, load128_eq]
  rfl

theorem avx2Packed_load (a b : List UInt8) (idx : Nat) :
    Gen.avx2Packed (load256 a idx) (load256 b idx)
      = ⟨⟨W a b (8 * idx), W a b (8 * idx + 1), W a b (8 * idx + 2), W a b (8 * idx + 3)⟩,
         ⟨W a b (8 * idx + 4), W a b (8 * idx + 5), W a b (8 * idx + 6), W a b (8 * idx + 7)⟩⟩ := by
  rw [avx2Packed_eq, load256_eq, load256_eq]
  rfl

theorem sse41Distance32_eq (a b : List UInt8) (ha : a.length = 32) (hb : b.length = 32) :
    Gen.sse41Distance32 a b = pseudo32Distance a b := by
  rw [pseudo32Distance_eq_sumW 8 a b ha hb]
  unfold Gen.sse41Distance32
  simp only [sse41Packed_load, mm_add_epi32, mm_shuffle_epi32, mm_cvtsi128_si32, M128.map2, M128.lane,
    sumW, Nat.reduceAdd, Nat.reduceMul, Nat.reduceMod, Nat.reduceDiv, UInt32.add_zero]
  ac_rfl

theorem sse41Distance64_eq (a b : List UInt8) (ha : a.length = 64) (hb : b.length = 64) :
    Gen.sse41Distance64 a b = pseudo32Distance a b := by
  rw [pseudo32Distance_eq_sumW 16 a b ha hb]
  unfold Gen.sse41Distance64
  simp only [sse41Packed_load, mm_add_epi32, mm_shuffle_epi32, mm_cvtsi128_si32, mm_set1_epi32,
    M128.splat, M128.map2, M128.lane,
    sumW, Nat.reduceAdd, Nat.reduceMul, Nat.reduceMod, Nat.reduceDiv, UInt32.add_zero, UInt32.zero_add]
  ac_rfl

theorem avx2Distance32_eq (a b : List UInt8) (ha : a.length = 32) (hb : b.length = 32) :
    Gen.avx2Distance32 a b = pseudo32Distance a b := by
  rw [pseudo32Distance_eq_sumW 8 a b ha hb]
  unfold Gen.avx2Distance32
  simp only [avx2Packed_load, mm256_add_epi32, mm256_shuffle_epi32, mm256_extract_epi32, M256.lane,
    mm_add_epi32, mm_shuffle_epi32, M128.map2, M128.lane,
    sumW, Nat.reduceAdd, Nat.reduceMul, Nat.reduceMod, Nat.reduceDiv, Nat.reduceLT, UInt32.add_zero,
    if_true, if_false]
  ac_rfl

theorem avx2Distance64_eq (a b : List UInt8) (ha : a.length = 64) (hb : b.length = 64) :
    Gen.avx2Distance64 a b = pseudo32Distance a b := by
  rw [pseudo32Distance_eq_sumW 16 a b ha hb]
  unfold Gen.avx2Distance64
  simp only [avx2Packed_load, mm256_add_epi32, mm256_shuffle_epi32, mm256_extract_epi32, M256.lane,
    mm_add_epi32, mm_shuffle_epi32, M128.map2, M128.lane,
    sumW, Nat.reduceAdd, Nat.reduceMul, Nat.reduceMod, Nat.reduceDiv, Nat.reduceLT, UInt32.add_zero,
    if_true, if_false]
  ac_rfl

end TlshVerif.Lemmas.Dist
