/-
Body distance: from the word-level kernel lemmas (`DistKernels`) to
`Spec.bodyDist` on byte lists, for every back end (C02).

No `bv_decide` in this file: everything is derived from the kernel lemmas by
ordinary list / `Nat` reasoning.
-/
import TlshVerif.Lemmas.DistKernels
import TlshVerif.Lemmas.DistSpec

namespace TlshVerif.Lemmas.Dist

open TlshVerif Model

/-! ### dibits and bytes at the `Nat` level -/

theorem dd8_toNat (x y : UInt8) : (dd8 x y).toNat = Spec.dibitDist x.toNat y.toNat := by
  have h3 : (3 : UInt8).toNat = 3 := rfl
  unfold dd8 Spec.dibitDist
  simp only [ge_iff_le, beq_iff_eq, ← UInt8.toNat_inj, UInt8.le_iff_toNat_le]
  by_cases h : y.toNat ≤ x.toNat
  · have e : (x - y).toNat = x.toNat - y.toNat :=
      UInt8.toNat_sub_of_le _ _ (UInt8.le_iff_toNat_le.mpr h)
    simp only [h, if_true, e, h3]
    split <;> simp_all
  · have e : (y - x).toNat = y.toNat - x.toNat :=
      UInt8.toNat_sub_of_le _ _ (UInt8.le_iff_toNat_le.mpr (by omega))
    simp only [h, if_false, e, h3]
    split <;> simp_all

theorem dibit_toNat0 (a : UInt8) : (a &&& 3).toNat = Spec.dibitOf a 0 := by
  simp only [UInt8.toNat_and, Spec.dibitOf]
  exact Nat.and_two_pow_sub_one_eq_mod _ 2 |>.trans (by simp)
theorem dibit_toNat1 (a : UInt8) : ((a >>> 2) &&& 3).toNat = Spec.dibitOf a 1 := by
  simp only [UInt8.toNat_and, UInt8.toNat_shiftRight, Spec.dibitOf, Nat.shiftRight_eq_div_pow]
  exact Nat.and_two_pow_sub_one_eq_mod _ 2
theorem dibit_toNat2 (a : UInt8) : ((a >>> 4) &&& 3).toNat = Spec.dibitOf a 2 := by
  simp only [UInt8.toNat_and, UInt8.toNat_shiftRight, Spec.dibitOf, Nat.shiftRight_eq_div_pow]
  exact Nat.and_two_pow_sub_one_eq_mod _ 2
theorem dibit_toNat3 (a : UInt8) : ((a >>> 6) &&& 3).toNat = Spec.dibitOf a 3 := by
  simp only [UInt8.toNat_and, UInt8.toNat_shiftRight, Spec.dibitOf, Nat.shiftRight_eq_div_pow]
  exact Nat.and_two_pow_sub_one_eq_mod _ 2

/-- The `u8` byte distance is the reference byte distance. -/
theorem byteDist8_toNat (a b : UInt8) : (byteDist8 a b).toNat = Spec.byteDist a b := by
  have h0 := dibitDist_le _ _ (dibitOf_le a 0) (dibitOf_le b 0)
  have h1 := dibitDist_le _ _ (dibitOf_le a 1) (dibitOf_le b 1)
  have h2 := dibitDist_le _ _ (dibitOf_le a 2) (dibitOf_le b 2)
  have h3 := dibitDist_le _ _ (dibitOf_le a 3) (dibitOf_le b 3)
  unfold byteDist8 Spec.byteDist
  simp only [UInt8.toNat_add, dd8_toNat]
  simp only [dibit_toNat1, dibit_toNat2, dibit_toNat3]
  simp only [dibit_toNat0]
  omega

/-- The 32-bit kernel on two little-endian words is the reference distance of their bytes. -/
theorem pseudo32_word_toNat (a0 a1 a2 a3 b0 b1 b2 b3 : UInt8) :
    (Gen.pseudo32SubDistance (u32OfBytes a0 a1 a2 a3) (u32OfBytes b0 b1 b2 b3)).toNat
      = Spec.byteDist a0 b0 + Spec.byteDist a1 b1 + Spec.byteDist a2 b2 + Spec.byteDist a3 b3 := by
  have h0 := byteDist_le a0 b0
  have h1 := byteDist_le a1 b1
  have h2 := byteDist_le a2 b2
  have h3 := byteDist_le a3 b3
  rw [pseudo32_bytes]
  simp only [UInt32.toNat_add, UInt8.toNat_toUInt32, byteDist8_toNat]
  omega

/-! ### `pseudo_simd_32` on lists -/

theorem exists_cons4 {α : Type} (l : List α) (h : 4 ≤ l.length) :
    ∃ x0 x1 x2 x3 t, l = x0 :: x1 :: x2 :: x3 :: t :=
  match l, h with
  | x0 :: x1 :: x2 :: x3 :: t, _ => ⟨x0, x1, x2, x3, t, rfl⟩
  | [], h => by simp at h
  | [_], h => by simp at h
  | [_, _], h => by simp at h
  | [_, _, _], h => by simp at h

/-- `pseudo_simd_32::distance_N` computes the reference body distance on any two
equally long bodies whose length is a multiple of four (below the `u32` range). -/
theorem pseudo32Distance_spec : ∀ (n : Nat) (a b : List UInt8), a.length = 4 * n → b.length = 4 * n →
    n ≤ 1000000 → (pseudo32Distance a b).toNat = Spec.bodyDist a b
  | 0, a, b, ha, hb, _ => by
    have ha' : a = [] := List.length_eq_zero_iff.mp (by omega)
    subst ha'
    simp [pseudo32Distance, Spec.bodyDist]
  | n + 1, a, b, ha, hb, hn => by
    obtain ⟨a0, a1, a2, a3, as, rfl⟩ := exists_cons4 a (by omega)
    obtain ⟨b0, b1, b2, b3, bs, rfl⟩ := exists_cons4 b (by omega)
    simp only [List.length_cons] at ha hb
    have ih := pseudo32Distance_spec n as bs (by omega) (by omega) (by omega)
    have hle := bodyDist_le as bs
    have h0 := byteDist_le a0 b0
    have h1 := byteDist_le a1 b1
    have h2 := byteDist_le a2 b2
    have h3 := byteDist_le a3 b3
    simp only [pseudo32Distance, Spec.bodyDist, UInt32.toNat_add, pseudo32_word_toNat, ih]
    omega

/-! ### all other back ends reduce to `pseudo_simd_32` -/

theorem pseudo32Distance_step (a b : List UInt8) (ha : 4 ≤ a.length) (hb : 4 ≤ b.length) :
    pseudo32Distance a b
      = Gen.pseudo32SubDistance (le32 a) (le32 b) + pseudo32Distance (a.drop 4) (b.drop 4) := by
  obtain ⟨a0, a1, a2, a3, as, rfl⟩ := exists_cons4 a ha
  obtain ⟨b0, b1, b2, b3, bs, rfl⟩ := exists_cons4 b hb
  simp [pseudo32Distance, le32]

/-- The 32-bit kernel on word `i` of the two bodies. -/
def W (a b : List UInt8) (i : Nat) : UInt32 :=
  Gen.pseudo32SubDistance (le32 (a.drop (4 * i))) (le32 (b.drop (4 * i)))

/-- `W k + W (k+1) + … + W (k+n-1)`. -/
def sumW (a b : List UInt8) : Nat → Nat → UInt32
  | _, 0 => 0
  | k, n + 1 => W a b k + sumW a b (k + 1) n

theorem pseudo32Distance_drop : ∀ (n k : Nat) (a b : List UInt8),
    a.length = 4 * (k + n) → b.length = 4 * (k + n) →
    pseudo32Distance (a.drop (4 * k)) (b.drop (4 * k)) = sumW a b k n
  | 0, k, a, b, ha, hb => by
    have : a.drop (4 * k) = [] := List.drop_eq_nil_of_le (by omega)
    rw [this]
    simp [pseudo32Distance, sumW]
  | n + 1, k, a, b, ha, hb => by
    rw [pseudo32Distance_step _ _ (by rw [List.length_drop]; omega) (by rw [List.length_drop]; omega)]
    rw [List.drop_drop, List.drop_drop, show 4 * k + 4 = 4 * (k + 1) by omega]
    rw [pseudo32Distance_drop n (k + 1) a b (by omega) (by omega)]
    rfl

theorem pseudo32Distance_eq_sumW (n : Nat) (a b : List UInt8) (ha : a.length = 4 * n)
    (hb : b.length = 4 * n) : pseudo32Distance a b = sumW a b 0 n := by
  have := pseudo32Distance_drop n 0 a b (by omega) (by omega)
  simpa using this

theorem W_le (a b : List UInt8) (i : Nat) : (W a b i).toNat ≤ 96 :=
  UInt32.le_iff_toNat_le.mp (pseudo32_le _ _)

end TlshVerif.Lemmas.Dist
