/-
Word-level kernel lemmas for the body-distance back ends (C02).

Every lemma in this file is a statement about fixed-width machine words and is
discharged by `bv_decide` (SAT + checked LRAT certificate); these are the only
lemmas of C02 / C08 that carry a `_native.bv_decide` axiom.  Everything else
(`DistBody`, `DistScalar`, `DistSpec`) is proved from them in plain Lean.
-/
import TlshVerif.Model.Compare
import Std.Tactic.BVDecide

namespace TlshVerif.Lemmas.Dist

open TlshVerif Model

/-- Dibit distance on two bytes holding values `0…3` (`|a − b|`, with 3 replaced by 6). -/
def dd8 (a b : UInt8) : UInt8 :=
  let d := if a ≥ b then a - b else b - a
  if d == 3 then 6 else d

/-- Sum of the four dibit distances of two bytes, in `u8` arithmetic. -/
def byteDist8 (a b : UInt8) : UInt8 :=
  dd8 (a &&& 3) (b &&& 3) + dd8 ((a >>> 2) &&& 3) ((b >>> 2) &&& 3) +
    dd8 ((a >>> 4) &&& 3) ((b >>> 4) &&& 3) + dd8 ((a >>> 6) &&& 3) ((b >>> 6) &&& 3)

/-- Low 16-bit half of a 32-bit lane. -/
def lo16 (r : UInt32) : UInt32 := r &&& (0xffff : UInt32)
/-- High 16-bit half of a 32-bit lane. -/
def hi16 (r : UInt32) : UInt32 := r >>> (16 : UInt32)

/-- The bit-sliced 32-bit kernel computes the sum of the byte distances of the
four bytes of its operands. -/
theorem pseudo32_bytes (a0 a1 a2 a3 b0 b1 b2 b3 : UInt8) :
    Gen.pseudo32SubDistance (u32OfBytes a0 a1 a2 a3) (u32OfBytes b0 b1 b2 b3)
      = (byteDist8 a0 b0).toUInt32 + (byteDist8 a1 b1).toUInt32 + (byteDist8 a2 b2).toUInt32
        + (byteDist8 a3 b3).toUInt32 := by
  unfold Gen.pseudo32SubDistance u32OfBytes byteDist8 dd8
  bv_decide

/-- The 32-bit kernel never exceeds `16 · 6`. -/
theorem pseudo32_le (x y : UInt32) : Gen.pseudo32SubDistance x y ≤ 96 := by
  unfold Gen.pseudo32SubDistance
  bv_decide

/-- The 64-bit kernel on a word assembled from two 32-bit halves is the sum of
the 32-bit kernel on the halves. -/
theorem pseudo64_split (x1 x2 y1 y2 : UInt32) :
    Gen.pseudo64SubDistance (x1.toUInt64 ||| (x2.toUInt64 <<< 32)) (y1.toUInt64 ||| (y2.toUInt64 <<< 32))
      = Gen.pseudo32SubDistance x1 y1 + Gen.pseudo32SubDistance x2 y2 := by
  unfold Gen.pseudo64SubDistance Gen.pseudo32SubDistance
  bv_decide (config := { timeout := 300 })

/-- The SSE4.1 packed kernel is the 32-bit kernel on every lane. -/
theorem sse41Packed_eq (x y : M128) :
    Gen.sse41Packed x y = M128.map2 Gen.pseudo32SubDistance x y := by
  unfold Gen.sse41Packed
  simp only [mm_set1_epi8, mm_set1_epi32, mm_xor_si128, mm_and_si128, mm_or_si128, mm_slli_epi32,
    mm_srli_epi32, mm_sub_epi32, mm_add_epi32, mm_mullo_epi32, M128.map2, M128.map, M128.splat,
    M128.mk.injEq]
  refine ⟨?_, ?_, ?_, ?_⟩ <;> (unfold Gen.pseudo32SubDistance; bv_decide)

/-- The AVX2 packed kernel is the 32-bit kernel on every lane. -/
theorem avx2Packed_eq (x y : M256) :
    Gen.avx2Packed x y = M256.map2 Gen.pseudo32SubDistance x y := by
  unfold Gen.avx2Packed
  simp only [mm256_set1_epi8, mm256_set1_epi32, mm256_xor_si256, mm256_and_si256, mm256_or_si256,
    mm256_slli_epi32, mm256_srli_epi32, mm256_sub_epi32, mm256_add_epi32, mm256_mullo_epi32,
    mm_set1_epi8, mm_set1_epi32, mm_xor_si128, mm_and_si128, mm_or_si128, mm_slli_epi32,
    mm_srli_epi32, mm_sub_epi32, mm_add_epi32, mm_mullo_epi32, M256.map2, M128.map2, M128.map,
    M128.splat, M256.mk.injEq, M128.mk.injEq]
  refine ⟨⟨?_, ?_, ?_, ?_⟩, ⟨?_, ?_, ?_, ?_⟩⟩ <;> (unfold Gen.pseudo32SubDistance; bv_decide)

/-- Every lane of the SSE2 packed kernel holds two 16-bit partial sums, each at
most 48, that add up to the 32-bit kernel of that lane. -/
theorem sse2Packed_lanes (x y : M128) :
    (lo16 (Gen.sse2Packed x y).l0 + hi16 (Gen.sse2Packed x y).l0 = Gen.pseudo32SubDistance x.l0 y.l0 ∧
      lo16 (Gen.sse2Packed x y).l0 ≤ 48 ∧ hi16 (Gen.sse2Packed x y).l0 ≤ 48) ∧
    (lo16 (Gen.sse2Packed x y).l1 + hi16 (Gen.sse2Packed x y).l1 = Gen.pseudo32SubDistance x.l1 y.l1 ∧
      lo16 (Gen.sse2Packed x y).l1 ≤ 48 ∧ hi16 (Gen.sse2Packed x y).l1 ≤ 48) ∧
    (lo16 (Gen.sse2Packed x y).l2 + hi16 (Gen.sse2Packed x y).l2 = Gen.pseudo32SubDistance x.l2 y.l2 ∧
      lo16 (Gen.sse2Packed x y).l2 ≤ 48 ∧ hi16 (Gen.sse2Packed x y).l2 ≤ 48) ∧
    (lo16 (Gen.sse2Packed x y).l3 + hi16 (Gen.sse2Packed x y).l3 = Gen.pseudo32SubDistance x.l3 y.l3 ∧
      lo16 (Gen.sse2Packed x y).l3 ≤ 48 ∧ hi16 (Gen.sse2Packed x y).l3 ≤ 48) := by
  unfold Gen.sse2Packed lo16 hi16
  simp only [mm_set1_epi8, mm_xor_si128, mm_and_si128, mm_or_si128, mm_slli_epi32,
    mm_srli_epi32, mm_sub_epi32, mm_add_epi32, mm_slli_epi16, mm_srli_epi16, mm_add_epi16, M128.map2,
    M128.map, M128.splat, slli16, srli16, add16]
  refine ⟨?_, ?_, ?_, ?_⟩ <;> (unfold Gen.pseudo32SubDistance; bv_decide)

/-- `_mm_add_epi16` on one lane: the low halves add modulo 2¹⁶. -/
theorem add16_lo (r s : UInt32) : lo16 (add16 r s) = (lo16 r + lo16 s) &&& (0xffff : UInt32) := by
  unfold lo16 add16
  bv_decide

/-- `_mm_add_epi16` on one lane: the high halves add modulo 2¹⁶. -/
theorem add16_hi (r s : UInt32) : hi16 (add16 r s) = (hi16 r + hi16 s) &&& (0xffff : UInt32) := by
  unfold hi16 add16
  bv_decide

/-- `_mm_set1_epi16(0)` is the zero lane. -/
theorem set1_epi16_zero : mm_set1_epi16 0 = ⟨0, 0, 0, 0⟩ := by
  decide

end TlshVerif.Lemmas.Dist
