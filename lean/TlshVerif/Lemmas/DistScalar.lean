/-
Scalar parts of the comparison: ring distance, length, Q ratios, checksum —
model (`u8` arithmetic, optional lookup tables) against the reference (C02).
Plain `Nat` reasoning only.
-/
import TlshVerif.Model.Compare
import TlshVerif.Lemmas.DistSpec

namespace TlshVerif.Lemmas.Dist

open TlshVerif Model

/-! ### `distance_on_ring_mod` -/

theorem ringDist_zero (x y : UInt8) : (ringDist x y 0).toNat = Spec.ring 256 x.toNat y.toNat := by
  have hx := x.toNat_lt
  have hy := y.toNat_lt
  unfold ringDist Spec.ring
  simp only [ge_iff_le, UInt8.le_iff_toNat_le]
  split <;> split <;>
    simp only [UInt8.toNat_sub, UInt8.toNat_add, UInt8.toNat_ofNat] at * <;> omega

theorem ringDist_16 (x y : UInt8) (hx : x.toNat < 16) (hy : y.toNat < 16) :
    (ringDist x y 16).toNat = Spec.ring 16 x.toNat y.toNat := by
  unfold ringDist Spec.ring
  simp only [ge_iff_le, UInt8.le_iff_toNat_le]
  split <;> split <;>
    simp only [UInt8.toNat_sub, UInt8.toNat_add, UInt8.toNat_ofNat] at * <;> omega

/-! ### length -/

theorem distLengthNaive_eq (l1 l2 : UInt8) :
    distLengthNaive Ref.compareRaw l1 l2 = Spec.lengthDist l1 l2 := by
  unfold distLengthNaive Spec.lengthDist scale
  have h0 : UInt8.ofNat Ref.compareRaw.ringModuli.1 = 0 := rfl
  rw [h0, ringDist_zero]
  rfl

theorem ldistEntry_eq (l1 l2 : UInt8) :
    ldistEntry Ref.compareRaw (l1 - l2) = Spec.lengthDist l1 l2 := by
  unfold ldistEntry Spec.lengthDist
  have h0 : UInt8.ofNat Ref.compareRaw.ringModuli.2.1 = 0 := rfl
  have h1 : Ref.compareRaw.lengthTableThreshold = 1 := rfl
  have h2 : Ref.compareRaw.lengthMult = 12 := rfl
  have hr : Spec.ring 256 (0 : UInt8).toNat (l1 - l2).toNat = Spec.ring 256 l1.toNat l2.toNat := by
    have hx := l1.toNat_lt
    have hy := l2.toNat_lt
    unfold Spec.ring
    simp only [UInt8.toNat_sub, UInt8.toNat_ofNat]
    omega
  have hle := ring256_le l1.toNat l2.toNat
  rw [h0, h1, h2, ringDist_zero, hr]
  simp only
  split <;> omega

theorem distLength_eq (c : CompareCfg) (l1 l2 : UInt8) :
    distLength Ref.compareRaw c l1 l2 = Spec.lengthDist l1 l2 := by
  unfold distLength
  split
  · exact ldistEntry_eq l1 l2
  · exact distLengthNaive_eq l1 l2

/-! ### Q ratios -/

theorem lowNibble_toNat (a : UInt8) : (a &&& 0x0f).toNat = a.toNat % 16 := by
  rw [UInt8.toNat_and]
  exact Nat.and_two_pow_sub_one_eq_mod _ 4

theorem highNibble_toNat (a : UInt8) : (a >>> 4).toNat = a.toNat / 16 := by
  rw [UInt8.toNat_shiftRight, Nat.shiftRight_eq_div_pow]
  rfl

theorem qsub_eq (x y : UInt8) (hx : x.toNat < 16) (hy : y.toNat < 16) :
    qsub Ref.compareRaw x y = Spec.qratioDist1 x.toNat y.toNat := by
  unfold qsub Spec.qratioDist1 scale
  have h0 : UInt8.ofNat Ref.compareRaw.ringModuli.2.2 = 16 := rfl
  rw [h0, ringDist_16 x y hx hy]
  rfl

theorem qsub_low (a b : UInt8) :
    qsub Ref.compareRaw (a &&& 0x0f) (b &&& 0x0f) = Spec.qratioDist1 (a.toNat % 16) (b.toNat % 16) := by
  rw [qsub_eq _ _ (by rw [lowNibble_toNat]; omega) (by rw [lowNibble_toNat]; omega),
    lowNibble_toNat, lowNibble_toNat]

theorem qsub_high (a b : UInt8) :
    qsub Ref.compareRaw (a >>> 4) (b >>> 4) = Spec.qratioDist1 (a.toNat / 16) (b.toNat / 16) := by
  have ha := a.toNat_lt
  have hb := b.toNat_lt
  rw [qsub_eq _ _ (by rw [highNibble_toNat]; omega) (by rw [highNibble_toNat]; omega),
    highNibble_toNat, highNibble_toNat]

theorem distQNaive_eq (a b : UInt8) : distQNaive Ref.compareRaw a b = Spec.qratioDist a b := by
  unfold distQNaive Spec.qratioDist
  rw [qsub_low, qsub_high]

theorem distQ_eq (c : CompareCfg) (a b : UInt8) :
    distQ Ref.compareRaw c a b = Spec.qratioDist a b := by
  unfold distQ
  split
  · -- two-dimensional table, `u8` entries, indexed `[a][b]` with swapped roles
    have := qratioDist_le b a
    rw [distQNaive_eq, qratioDist_comm a b]
    omega
  · -- one-dimensional table applied to each nibble pair
    have h1 := qratioDist1_le (b.toNat % 16) (a.toNat % 16)
    have h2 := qratioDist1_le (b.toNat / 16) (a.toNat / 16)
    rw [qsub_low, qsub_high, qratioDist_comm a b]
    unfold Spec.qratioDist
    omega
  · exact distQNaive_eq a b

/-! ### checksum -/

theorem distChecksum_eq : ∀ (a b : List UInt8), distChecksum a b = Spec.checksumDist a b
  | [], _ => by simp [distChecksum, Spec.checksumDist]
  | _ :: _, [] => by simp [distChecksum, Spec.checksumDist]
  | _ :: as, _ :: bs => by simp only [distChecksum, Spec.checksumDist, distChecksum_eq as bs]

end TlshVerif.Lemmas.Dist
