/-
Elementary facts about the reference distance `Spec.distance` and its
components (used by C02 and C08).  Plain `Nat` reasoning only.
-/
import TlshVerif.Spec.Distance

namespace TlshVerif.Lemmas.Dist

open TlshVerif

/-! ### dibits, bytes, bodies -/

theorem dibitDist_le (x y : Nat) (hx : x ≤ 3) (hy : y ≤ 3) : Spec.dibitDist x y ≤ 6 := by
  unfold Spec.dibitDist
  simp only
  split <;> split <;> omega

theorem dibitDist_self (x : Nat) : Spec.dibitDist x x = 0 := by
  simp [Spec.dibitDist]

theorem dibitDist_comm (x y : Nat) : Spec.dibitDist x y = Spec.dibitDist y x := by
  have h : (if x ≥ y then x - y else y - x) = (if y ≥ x then y - x else x - y) := by
    split <;> split <;> omega
  unfold Spec.dibitDist
  simp only [h]

theorem dibitDist_eq_zero (x y : Nat) (h : Spec.dibitDist x y = 0) : x = y := by
  unfold Spec.dibitDist at h
  simp only at h
  split at h <;> split at h <;> omega

theorem dibitOf_le (a : UInt8) (j : Nat) : Spec.dibitOf a j ≤ 3 := by
  unfold Spec.dibitOf; omega

theorem byteDist_le (a b : UInt8) : Spec.byteDist a b ≤ 24 := by
  unfold Spec.byteDist
  have h0 := dibitDist_le _ _ (dibitOf_le a 0) (dibitOf_le b 0)
  have h1 := dibitDist_le _ _ (dibitOf_le a 1) (dibitOf_le b 1)
  have h2 := dibitDist_le _ _ (dibitOf_le a 2) (dibitOf_le b 2)
  have h3 := dibitDist_le _ _ (dibitOf_le a 3) (dibitOf_le b 3)
  omega

theorem byteDist_self (a : UInt8) : Spec.byteDist a a = 0 := by
  simp [Spec.byteDist, dibitDist_self]

theorem byteDist_comm (a b : UInt8) : Spec.byteDist a b = Spec.byteDist b a := by
  unfold Spec.byteDist
  rw [dibitDist_comm (Spec.dibitOf a 0), dibitDist_comm (Spec.dibitOf a 1),
    dibitDist_comm (Spec.dibitOf a 2), dibitDist_comm (Spec.dibitOf a 3)]

/-- Two bytes at byte distance zero are equal. -/
theorem byteDist_eq_zero (a b : UInt8) (h : Spec.byteDist a b = 0) : a = b := by
  unfold Spec.byteDist at h
  have h0 := dibitDist_eq_zero (Spec.dibitOf a 0) (Spec.dibitOf b 0) (by omega)
  have h1 := dibitDist_eq_zero (Spec.dibitOf a 1) (Spec.dibitOf b 1) (by omega)
  have h2 := dibitDist_eq_zero (Spec.dibitOf a 2) (Spec.dibitOf b 2) (by omega)
  have h3 := dibitDist_eq_zero (Spec.dibitOf a 3) (Spec.dibitOf b 3) (by omega)
  have ha := a.toNat_lt
  have hb := b.toNat_lt
  simp only [Spec.dibitOf, Nat.reducePow] at h0 h1 h2 h3
  apply UInt8.toNat_inj.mp
  omega

theorem bodyDist_le : ∀ (a b : List UInt8), Spec.bodyDist a b ≤ 24 * a.length
  | [], _ => by simp [Spec.bodyDist]
  | _ :: _, [] => by simp [Spec.bodyDist]
  | x :: as, y :: bs => by
    have h1 := byteDist_le x y
    have h2 := bodyDist_le as bs
    simp only [Spec.bodyDist, List.length_cons]
    omega

theorem bodyDist_self : ∀ (a : List UInt8), Spec.bodyDist a a = 0
  | [] => by simp [Spec.bodyDist]
  | x :: as => by simp [Spec.bodyDist, byteDist_self, bodyDist_self as]

theorem bodyDist_comm : ∀ (a b : List UInt8), Spec.bodyDist a b = Spec.bodyDist b a
  | [], [] => rfl
  | [], _ :: _ => by simp [Spec.bodyDist]
  | _ :: _, [] => by simp [Spec.bodyDist]
  | x :: as, y :: bs => by
    simp only [Spec.bodyDist]
    rw [byteDist_comm x y, bodyDist_comm as bs]

theorem bodyDist_eq_zero : ∀ (a b : List UInt8), a.length = b.length → Spec.bodyDist a b = 0 → a = b
  | [], [], _, _ => rfl
  | [], _ :: _, hl, _ => by simp at hl
  | _ :: _, [], hl, _ => by simp at hl
  | x :: as, y :: bs, hl, h => by
    simp only [Spec.bodyDist] at h
    simp only [List.length_cons, Nat.add_right_cancel_iff] at hl
    rw [byteDist_eq_zero x y (by omega), bodyDist_eq_zero as bs hl (by omega)]

theorem bodyDist_replicate (x y : UInt8) : ∀ n : Nat,
    Spec.bodyDist (List.replicate n x) (List.replicate n y) = n * Spec.byteDist x y
  | 0 => by simp [Spec.bodyDist]
  | n + 1 => by
    simp only [List.replicate_succ, Spec.bodyDist, bodyDist_replicate x y n, Nat.add_mul, Nat.one_mul]
    omega

/-! ### checksum -/

theorem checksumDist_replicate (x y : UInt8) (h : x ≠ y) : ∀ n : Nat,
    Spec.checksumDist (List.replicate n x) (List.replicate n y) = n
  | 0 => by simp [Spec.checksumDist]
  | n + 1 => by
    simp only [List.replicate_succ, Spec.checksumDist, checksumDist_replicate x y h n]
    rw [if_pos h]
    omega

theorem checksumDist_le : ∀ (a b : List UInt8), Spec.checksumDist a b ≤ a.length
  | [], _ => by simp [Spec.checksumDist]
  | _ :: _, [] => by simp [Spec.checksumDist]
  | x :: as, y :: bs => by
    have h2 := checksumDist_le as bs
    simp only [Spec.checksumDist, List.length_cons]
    split <;> omega

theorem checksumDist_self : ∀ (a : List UInt8), Spec.checksumDist a a = 0
  | [] => by simp [Spec.checksumDist]
  | x :: as => by simp [Spec.checksumDist, checksumDist_self as]

theorem checksumDist_comm : ∀ (a b : List UInt8), Spec.checksumDist a b = Spec.checksumDist b a
  | [], [] => rfl
  | [], _ :: _ => by simp [Spec.checksumDist]
  | _ :: _, [] => by simp [Spec.checksumDist]
  | x :: as, y :: bs => by
    simp only [Spec.checksumDist]
    rw [checksumDist_comm as bs]
    simp only [ne_comm]

theorem checksumDist_eq_zero : ∀ (a b : List UInt8), a.length = b.length →
    Spec.checksumDist a b = 0 → a = b
  | [], [], _, _ => rfl
  | [], _ :: _, hl, _ => by simp at hl
  | _ :: _, [], hl, _ => by simp at hl
  | x :: as, y :: bs, hl, h => by
    simp only [Spec.checksumDist] at h
    simp only [List.length_cons, Nat.add_right_cancel_iff] at hl
    have hxy : x = y := by
      by_cases e : x = y
      · exact e
      · simp [e] at h
    rw [hxy, checksumDist_eq_zero as bs hl (by omega)]

/-- Checksums that were all set to the same byte are at distance zero. -/
theorem checksumDist_map_const (c : UInt8) : ∀ (a b : List UInt8),
    Spec.checksumDist (a.map (fun _ => c)) (b.map (fun _ => c)) = 0
  | [], _ => by simp [Spec.checksumDist]
  | _ :: _, [] => by simp [Spec.checksumDist]
  | _ :: as, _ :: bs => by simp [Spec.checksumDist, checksumDist_map_const c as bs]

/-! ### rings, Q ratios, length -/

theorem ring_comm (n x y : Nat) : Spec.ring n x y = Spec.ring n y x := by
  unfold Spec.ring; exact Nat.min_comm _ _

theorem ring256_self (x : Nat) : Spec.ring 256 x x = 0 := by
  unfold Spec.ring; omega
theorem ring16_self (x : Nat) : Spec.ring 16 x x = 0 := by
  unfold Spec.ring; omega

theorem ring256_le (x y : Nat) : Spec.ring 256 x y ≤ 128 := by
  unfold Spec.ring; omega
theorem ring16_le (x y : Nat) : Spec.ring 16 x y ≤ 8 := by
  unfold Spec.ring; omega

theorem ring256_eq_zero (x y : Nat) (hx : x < 256) (hy : y < 256) (h : Spec.ring 256 x y = 0) :
    x = y := by
  unfold Spec.ring at h; omega
theorem ring16_eq_zero (x y : Nat) (hx : x < 16) (hy : y < 16) (h : Spec.ring 16 x y = 0) :
    x = y := by
  unfold Spec.ring at h; omega

theorem qratioDist1_comm (x y : Nat) : Spec.qratioDist1 x y = Spec.qratioDist1 y x := by
  unfold Spec.qratioDist1; rw [ring_comm]

theorem qratioDist1_self (x : Nat) : Spec.qratioDist1 x x = 0 := by
  unfold Spec.qratioDist1; simp [ring16_self]

theorem qratioDist1_le (x y : Nat) : Spec.qratioDist1 x y ≤ 84 := by
  have := ring16_le x y
  unfold Spec.qratioDist1
  simp only
  split <;> omega

theorem qratioDist1_eq_zero (x y : Nat) (hx : x < 16) (hy : y < 16) (h : Spec.qratioDist1 x y = 0) :
    x = y := by
  apply ring16_eq_zero x y hx hy
  unfold Spec.qratioDist1 at h
  simp only at h
  split at h <;> omega

theorem qratioDist_comm (a b : UInt8) : Spec.qratioDist a b = Spec.qratioDist b a := by
  unfold Spec.qratioDist
  rw [qratioDist1_comm (a.toNat % 16), qratioDist1_comm (a.toNat / 16)]

theorem qratioDist_self (a : UInt8) : Spec.qratioDist a a = 0 := by
  simp [Spec.qratioDist, qratioDist1_self]

theorem qratioDist_le (a b : UInt8) : Spec.qratioDist a b ≤ 168 := by
  have h1 := qratioDist1_le (a.toNat % 16) (b.toNat % 16)
  have h2 := qratioDist1_le (a.toNat / 16) (b.toNat / 16)
  unfold Spec.qratioDist
  omega

theorem qratioDist_eq_zero (a b : UInt8) (h : Spec.qratioDist a b = 0) : a = b := by
  have ha := a.toNat_lt
  have hb := b.toNat_lt
  unfold Spec.qratioDist at h
  have h1 := qratioDist1_eq_zero (a.toNat % 16) (b.toNat % 16) (by omega) (by omega) (by omega)
  have h2 := qratioDist1_eq_zero (a.toNat / 16) (b.toNat / 16) (by omega) (by omega) (by omega)
  apply UInt8.toNat_inj.mp
  omega

theorem lengthDist_comm (a b : UInt8) : Spec.lengthDist a b = Spec.lengthDist b a := by
  unfold Spec.lengthDist; rw [ring_comm]

theorem lengthDist_self (a : UInt8) : Spec.lengthDist a a = 0 := by
  unfold Spec.lengthDist; simp [ring256_self]

theorem lengthDist_le (a b : UInt8) : Spec.lengthDist a b ≤ 1536 := by
  have := ring256_le a.toNat b.toNat
  unfold Spec.lengthDist
  simp only
  split <;> omega

theorem lengthDist_eq_zero (a b : UInt8) (h : Spec.lengthDist a b = 0) : a = b := by
  apply UInt8.toNat_inj.mp
  apply ring256_eq_zero _ _ a.toNat_lt b.toNat_lt
  unfold Spec.lengthDist at h
  simp only at h
  split at h <;> omega

end TlshVerif.Lemmas.Dist
