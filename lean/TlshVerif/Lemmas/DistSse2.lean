/-
Body distance, SSE2 back end: 16-bit partial sums never carry, so the result is
the same `u32` as `pseudo_simd_32` (C02).

No `bv_decide` in this file.
-/
import TlshVerif.Lemmas.DistBackends

namespace TlshVerif.Lemmas.Dist

open TlshVerif Model

theorem and_ffff_toNat (x : UInt32) : (x &&& (0xffff : UInt32)).toNat = x.toNat % 65536 := by
  rw [UInt32.toNat_and]
  exact Nat.and_two_pow_sub_one_eq_mod _ 16

/-- `Lane r B w`: the two 16-bit halves of lane `r` are at most `B` and add up to `w`. -/
def Lane (r : UInt32) (B w : Nat) : Prop :=
  (lo16 r).toNat + (hi16 r).toNat = w ∧ (lo16 r).toNat ≤ B ∧ (hi16 r).toNat ≤ B

theorem Lane.zero : Lane 0 0 0 := by
  refine ⟨?_, ?_, ?_⟩ <;> decide

/-- `_mm_add_epi16` adds the halves exactly as long as the bounds stay below 2¹⁶. -/
theorem Lane.add {r s : UInt32} {B C w v : Nat} (h1 : Lane r B w) (h2 : Lane s C v)
    (hb : B + C < 65536) : Lane (add16 r s) (B + C) (w + v) := by
  obtain ⟨e1, l1, u1⟩ := h1
  obtain ⟨e2, l2, u2⟩ := h2
  have hl : (lo16 (add16 r s)).toNat = (lo16 r).toNat + (lo16 s).toNat := by
    rw [add16_lo, and_ffff_toNat, UInt32.toNat_add]; omega
  have hh : (hi16 (add16 r s)).toNat = (hi16 r).toNat + (hi16 s).toNat := by
    rw [add16_hi, and_ffff_toNat, UInt32.toNat_add]; omega
  refine ⟨?_, ?_, ?_⟩ <;> omega

/-- The final `(t & 0xffff) + (t >> 16)`. -/
theorem Lane.final {t : UInt32} {B w : Nat} (h : Lane t B w) (hb : B < 65536) :
    ((t &&& (65535 : UInt32)) + (t >>> (16 : UInt32))).toNat = w := by
  obtain ⟨e, l, u⟩ := h
  have : ((lo16 t) + (hi16 t)).toNat = w := by
    rw [UInt32.toNat_add]; omega
  exact this

theorem lane_of_kernel {r w : UInt32} (h : lo16 r + hi16 r = w ∧ lo16 r ≤ 48 ∧ hi16 r ≤ 48) :
    Lane r 48 w.toNat := by
  obtain ⟨e, l, u⟩ := h
  have l' : (lo16 r).toNat ≤ 48 := UInt32.le_iff_toNat_le.mp l
  have u' : (hi16 r).toNat ≤ 48 := UInt32.le_iff_toNat_le.mp u
  refine ⟨?_, l', u'⟩
  rw [← e, UInt32.toNat_add]; omega

theorem kernel_load (a b : List UInt8) (idx : Nat) :
    Gen.pseudo32SubDistance (load128 a idx).l0 (load128 b idx).l0 = W a b (4 * idx) ∧
    Gen.pseudo32SubDistance (load128 a idx).l1 (load128 b idx).l1 = W a b (4 * idx + 1) ∧
    Gen.pseudo32SubDistance (load128 a idx).l2 (load128 b idx).l2 = W a b (4 * idx + 2) ∧
    Gen.pseudo32SubDistance (load128 a idx).l3 (load128 b idx).l3 = W a b (4 * idx + 3) := by
  rw [load128_eq, load128_eq]
  exact ⟨rfl, rfl, rfl, rfl⟩

theorem sse2Packed_load (a b : List UInt8) (idx : Nat) :
    Lane (Gen.sse2Packed (load128 a idx) (load128 b idx)).l0 48 (W a b (4 * idx)).toNat ∧
    Lane (Gen.sse2Packed (load128 a idx) (load128 b idx)).l1 48 (W a b (4 * idx + 1)).toNat ∧
    Lane (Gen.sse2Packed (load128 a idx) (load128 b idx)).l2 48 (W a b (4 * idx + 2)).toNat ∧
    Lane (Gen.sse2Packed (load128 a idx) (load128 b idx)).l3 48 (W a b (4 * idx + 3)).toNat := by
  obtain ⟨h0, h1, h2, h3⟩ := sse2Packed_lanes (load128 a idx) (load128 b idx)
  obtain ⟨e0, e1, e2, e3⟩ := kernel_load a b idx
  rw [e0] at h0
  rw [e1] at h1
  rw [e2] at h2
  rw [e3] at h3
  exact ⟨lane_of_kernel h0, lane_of_kernel h1, lane_of_kernel h2, lane_of_kernel h3⟩

theorem sse2Distance32_eq (a b : List UInt8) (ha : a.length = 32) (hb : b.length = 32) :
    Gen.sse2Distance32 a b = pseudo32Distance a b := by
  rw [pseudo32Distance_eq_sumW 8 a b ha hb]
  apply UInt32.toNat_inj.mp
  obtain ⟨p0, p1, p2, p3⟩ := sse2Packed_load a b 0
  obtain ⟨q0, q1, q2, q3⟩ := sse2Packed_load a b 1
  have key := Lane.final
    (((p0.add q0 (by omega)).add (p2.add q2 (by omega)) (by omega)).add
      ((p1.add q1 (by omega)).add (p3.add q3 (by omega)) (by omega)) (by omega)) (by omega)
  have b0 := W_le a b 0
  have b1 := W_le a b 1
  have b2 := W_le a b 2
  have b3 := W_le a b 3
  have b4 := W_le a b 4
  have b5 := W_le a b 5
  have b6 := W_le a b 6
  have b7 := W_le a b 7
  unfold Gen.sse2Distance32
  simp only [mm_add_epi16, mm_shuffle_epi32, mm_cvtsi128_si32, M128.map2, M128.lane,
    Nat.reduceAdd, Nat.reduceMod, Nat.reduceDiv]
  refine key.trans ?_
  simp only [sumW, UInt32.toNat_add, Nat.reduceAdd, Nat.reduceMul, UInt32.toNat_zero]
  omega

theorem sse2Distance64_eq (a b : List UInt8) (ha : a.length = 64) (hb : b.length = 64) :
    Gen.sse2Distance64 a b = pseudo32Distance a b := by
  rw [pseudo32Distance_eq_sumW 16 a b ha hb]
  apply UInt32.toNat_inj.mp
  obtain ⟨p0, p1, p2, p3⟩ := sse2Packed_load a b 0
  obtain ⟨q0, q1, q2, q3⟩ := sse2Packed_load a b 1
  obtain ⟨r0, r1, r2, r3⟩ := sse2Packed_load a b 2
  obtain ⟨t0, t1, t2, t3⟩ := sse2Packed_load a b 3
  have z := Lane.zero
  have c0 := (((z.add p0 (by omega)).add q0 (by omega)).add r0 (by omega)).add t0 (by omega)
  have c1 := (((z.add p1 (by omega)).add q1 (by omega)).add r1 (by omega)).add t1 (by omega)
  have c2 := (((z.add p2 (by omega)).add q2 (by omega)).add r2 (by omega)).add t2 (by omega)
  have c3 := (((z.add p3 (by omega)).add q3 (by omega)).add r3 (by omega)).add t3 (by omega)
  have key := Lane.final ((c0.add c2 (by omega)).add (c1.add c3 (by omega)) (by omega)) (by omega)
  have b0 := W_le a b 0
  have b1 := W_le a b 1
  have b2 := W_le a b 2
  have b3 := W_le a b 3
  have b4 := W_le a b 4
  have b5 := W_le a b 5
  have b6 := W_le a b 6
  have b7 := W_le a b 7
  have b8 := W_le a b 8
  have b9 := W_le a b 9
  have b10 := W_le a b 10
  have b11 := W_le a b 11
  have b12 := W_le a b 12
  have b13 := W_le a b 13
  have b14 := W_le a b 14
  have b15 := W_le a b 15
  unfold Gen.sse2Distance64
  simp only [set1_epi16_zero, mm_add_epi16, mm_shuffle_epi32, mm_cvtsi128_si32, M128.map2, M128.lane,
    Nat.reduceAdd, Nat.reduceMod, Nat.reduceDiv]
  refine key.trans ?_
  simp only [sumW, UInt32.toNat_add, Nat.reduceAdd, Nat.reduceMul, UInt32.toNat_zero]
  omega

end TlshVerif.Lemmas.Dist
