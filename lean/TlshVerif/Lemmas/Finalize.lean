/-
Lemmas about `genFinalizeWith`: the length gate.
-/
import TlshVerif.Model.Params

namespace TlshVerif.Model

/-- The length passed to the validity check. -/
def finLen (s : GenState) : Nat := (processedLen s).getD (2 ^ 32 - 1)

theorem genFinalizeWith_tooLarge_iff (agg : List UInt32 → UInt32 → UInt32 → UInt32 → List UInt8)
    (P : GenParams) (cfg : Cfg) (v : Variant) (s : GenState) (o : Options) :
    genFinalizeWith agg P cfg v s o = .err .tooLarge ↔
      validity P (vparams P v) (finLen s) = .tooLarge := by
  unfold genFinalizeWith finLen
  cases hv : validity P (vparams P v) ((processedLen s).getD (2 ^ 32 - 1)) <;>
    simp only [Validity.isErrOn] <;> (repeat' split) <;> simp_all <;> (try (intro h; simp_all))

/-- If the length is not an error for the mode, or small inputs are allowed and
it is not too large, the length gate passes. -/
theorem validity_ref (v : Variant) (hv : v.Valid) (len : Nat) :
    validity Ref.params (vparams Ref.params v) len =
      if len < (if v.buckets = 48 then 10 else 50) then .tooSmall
      else if len < (if v.buckets = 48 then 10 else 128) then .validWhenOptimistic
      else if len ≤ 4224281216 then .valid else .tooLarge := by
  have hv' : v = .short ∨ v = .normal ∨ v = .normalLong ∨ v = .long ∨ v = .longLong := by
    simpa [Variant.Valid, Variant.all] using hv
  rcases hv' with h | h | h | h | h <;> subst h <;> rfl

theorem validity_shape_tooLarge_iff (a b m len : Nat) (ha : a ≤ m) (hb : b ≤ m) :
    (if len < a then Validity.tooSmall else if len < b then Validity.validWhenOptimistic
      else if len ≤ m then Validity.valid else Validity.tooLarge) = Validity.tooLarge ↔ len > m := by
  (repeat' split) <;> simp <;> omega

theorem validity_ref_tooLarge_iff (v : Variant) (hv : v.Valid) (len : Nat) :
    validity Ref.params (vparams Ref.params v) len = .tooLarge ↔ len > 4224281216 := by
  rw [validity_ref v hv]
  apply validity_shape_tooLarge_iff <;> split <;> omega

end TlshVerif.Model
