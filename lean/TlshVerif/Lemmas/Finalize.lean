/-
Lemmas about `genFinalizeWith`: the length gate.
-/
import TlshVerif.Model.Params

namespace TlshVerif.Model

theorem lengthGate_tooLarge_iff (val : Validity) (o : Options) :
    lengthGate val o = some .tooLarge ↔ val = .tooLarge := by
  cases val <;> cases hc : o.conservative <;> cases hs : o.allowSmall <;>
    simp [lengthGate, Validity.isErrOn, hc, hs]

theorem distributionGate_cases (q3 : UInt32) (nz mn : Nat) (o : Options) :
    distributionGate q3 nz mn o = none ∨ distributionGate q3 nz mn o = some .threeQuarterEmpty ∨
      distributionGate q3 nz mn o = some .halfEmpty := by
  unfold distributionGate
  split
  · exact Or.inr (Or.inl rfl)
  · split
    · exact Or.inr (Or.inr rfl)
    · exact Or.inl rfl

theorem finalizeCore_ne_lengthError (agg : List UInt32 → UInt32 → UInt32 → UInt32 → List UInt8)
    (P : GenParams) (cfg : Cfg) (v : Variant) (s : GenState) (o : Options) (lv : Nat) :
    finalizeCore agg P cfg v s o lv ≠ .err .tooLarge ∧ finalizeCore agg P cfg v s o lv ≠ .err .tooSmall := by
  unfold finalizeCore
  simp only []
  rcases distributionGate_cases (selectQuartiles (bucketData v s) v.buckets).2.2
      (List.countP (· ≠ 0) (bucketData v s)) (vparams P v).minNonzero o with h | h | h <;>
    rw [h] <;> simp only [] <;> (try split) <;> simp

theorem encodeThen_ne_err (r : Outcome Unit (Option Nat)) (k : Nat → Outcome GenError Hash) (e : GenError)
    (h : ∀ lv, k lv ≠ .err e) : encodeThen r k ≠ .err e := by
  unfold encodeThen
  split <;> simp_all

theorem genFinalizeWith_tooLarge_iff (agg : List UInt32 → UInt32 → UInt32 → UInt32 → List UInt8)
    (P : GenParams) (cfg : Cfg) (v : Variant) (s : GenState) (o : Options) :
    genFinalizeWith agg P cfg v s o = .err .tooLarge ↔
      validity P (vparams P v) (finLen s) = .tooLarge := by
  rw [← lengthGate_tooLarge_iff _ o]
  unfold genFinalizeWith
  cases hg : lengthGate (validity P (vparams P v) (finLen s)) o with
  | some e => simp
  | none =>
    have := encodeThen_ne_err (encodeLength P cfg (finLen s)) (finalizeCore agg P cfg v s o) .tooLarge
      (fun lv => (finalizeCore_ne_lengthError agg P cfg v s o lv).1)
    simp [this]

/-- If the length is not an error for the mode, or small inputs are allowed and
it is not too large, the length gate passes. -/
theorem validity_ref (v : Variant) (hv : v.Valid) (len : Nat) :
    validity Ref.params (vparams Ref.params v) len =
      if len < (if v.buckets = 48 then 10 else 50) then .tooSmall
      else if len < (if v.buckets = 48 then 10 else 128) then .validWhenOptimistic
      else if len ≤ 4224281216 then .valid else .tooLarge := by
  have hv' : v = .short ∨ v = .normal ∨ v = .normalLong ∨ v = .long ∨ v = .longLong := by
    simpa [Variant.Valid, Variant.all] using hv
  rcases hv' with h | h | h | h | h <;> subst h <;> rfl

theorem validity_shape_tooLarge_iff (a b m len : Nat) (ha : a ≤ m) (hb : b ≤ m) :
    (if len < a then Validity.tooSmall else if len < b then Validity.validWhenOptimistic
      else if len ≤ m then Validity.valid else Validity.tooLarge) = Validity.tooLarge ↔ len > m := by
  (repeat' split) <;> simp <;> omega

theorem validity_ref_tooLarge_iff (v : Variant) (hv : v.Valid) (len : Nat) :
    validity Ref.params (vparams Ref.params v) len = .tooLarge ↔ len > 4224281216 := by
  rw [validity_ref v hv]
  apply validity_shape_tooLarge_iff <;> split <;> omega

end TlshVerif.Model
