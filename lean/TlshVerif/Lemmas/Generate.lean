/-
Refinement of the generator model to the reference algorithm:
`generate Ref.params cfg v o data = specOutcome (Spec.tlsh v o data)`.
-/
import TlshVerif.Model.Params
import TlshVerif.Spec.Tlsh
import TlshVerif.Lemmas.Update
import TlshVerif.Lemmas.Windows
import TlshVerif.Lemmas.Buckets
import TlshVerif.Lemmas.Finalize
import TlshVerif.Lemmas.Length
import TlshVerif.Lemmas.Select
import TlshVerif.Lemmas.Aggregate

namespace TlshVerif.Model

open TlshVerif.Lemmas

/-- The reference result as a model outcome. -/
def specOutcome : Except GenError Hash → Outcome GenError Hash
  | .ok h => .ok h
  | .error e => .err e

/-- The accumulator step at the reference parameters. -/
abbrev refStep (cfg : Cfg) (v : Variant) : Acc → List UInt8 → Acc := accStep Ref.params cfg (vparams Ref.params v)

theorem genUpdate_init (cfg : Cfg) (v : Variant) (data : List UInt8) :
    genUpdate Ref.params cfg v (genInit cfg v) data = ideal (refStep cfg v) (initAcc cfg v) data :=
  update_init _ _ data

/-- Checksum and bucket array after the input `data` (first 2³² bytes). -/
theorem ideal_acc_ref (cfg : Cfg) (v : Variant) (hv : v.Valid) (data : List UInt8) :
    (ideal (refStep cfg v) (initAcc cfg v) data).acc =
      (Spec.checksum v (data.take (2 ^ 32)),
        (Spec.keys v (data.take (2 ^ 32))).foldl (increment cfg (vparams Ref.params v))
          (Array.replicate (physBuckets cfg v) 0)) := by
  rw [ideal_acc]
  exact foldl_accStep cfg v hv _ (windows_length _) _ _ (by simp)

theorem buckets_le_256 {v : Variant} (hv : v.Valid) : v.buckets ≤ 256 ∧ v.buckets % 4 = 0 ∧ v.buckets ≥ 4 := by
  rcases valid_cases hv with h | h | h | h | h <;> subst h <;> decide

theorem physBuckets_ge (cfg : Cfg) {v : Variant} (hv : v.Valid) : v.buckets ≤ physBuckets cfg v := by
  unfold physBuckets; split
  · exact Nat.le_refl _
  · exact (buckets_le_256 hv).1

/-- The bucket counters handed to `finalize` are the reference bucket counts. -/
theorem bucketData_ideal (cfg : Cfg) (v : Variant) (hv : v.Valid) (data : List UInt8)
    (hlen : data.length ≤ 2 ^ 32) :
    (bucketData v (ideal (refStep cfg v) (initAcc cfg v) data)).map UInt32.toNat = Spec.buckets v data := by
  unfold bucketData
  rw [ideal_acc_ref cfg v hv data, List.take_of_length_le hlen]
  simp only []
  have hsz := foldl_increment_size cfg (vparams Ref.params v) (Spec.keys v data)
    (Array.replicate (physBuckets cfg v) 0)
  have hge := physBuckets_ge cfg hv
  apply List.ext_getElem
  · simp [Spec.buckets, hsz]; omega
  · intro i h1 h2
    have hi : i < v.buckets := by simpa [Spec.buckets] using h2
    simp only [List.getElem_map, List.getElem_take, Spec.buckets, List.getElem_range, Spec.bucket]
    have hi' : i < (Array.replicate (physBuckets cfg v) (0 : UInt32)).size := by simp; omega
    have := foldl_increment_getD cfg (vparams Ref.params v) (Spec.keys v data) _ i hi' (by exact hi)
    rw [Array.getD_eq_getD_getElem?] at this
    have hi'' : i < (List.foldl (increment cfg (vparams Ref.params v)) (Array.replicate (physBuckets cfg v) 0)
        (Spec.keys v data)).size := by rw [hsz]; exact hi'
    rw [Array.getElem?_eq_getElem hi'', Option.getD_some] at this
    rw [Array.getElem_toList, this]
    have z : (Array.replicate (physBuckets cfg v) (0 : UInt32)).getD i 0 = 0 := by
      rw [Array.getD_eq_getD_getElem?, Array.getElem?_eq_getElem hi', Array.getElem_replicate]; rfl
    rw [z]
    simp [UInt32.toNat_ofNat']

theorem finLen_ideal (f : Acc → List UInt8 → Acc) (a0 : Acc) (data : List UInt8) :
    finLen (ideal f a0 data) = if data.length < 2 ^ 32 then data.length else 2 ^ 32 - 1 := by
  unfold finLen
  rw [processedLen_ideal]
  split <;> rfl

theorem lengthGate_shape (a b m n : Nat) (hab : a ≤ b) (hn : n ≤ m) (o : Options) :
    lengthGate (if n < a then Validity.tooSmall else if n < b then Validity.validWhenOptimistic
      else if n ≤ m then Validity.valid else Validity.tooLarge) o =
      if (n < a ∨ (o.conservative = true ∧ n < b)) ∧ ¬ o.allowSmall = true then some .tooSmall else none := by
  by_cases h1 : n < a
  · have h2 : n < b := by omega
    cases hc : o.conservative <;> cases hs : o.allowSmall <;>
      simp [lengthGate, Validity.isErrOn, h1, h2, hc, hs]
  · by_cases h2 : n < b
    · cases hc : o.conservative <;> cases hs : o.allowSmall <;>
        simp [lengthGate, Validity.isErrOn, h1, h2, hc, hs]
    · cases hc : o.conservative <;> cases hs : o.allowSmall <;>
        simp [lengthGate, Validity.isErrOn, h1, h2, hn, hc, hs]

theorem lengthGate_ref (v : Variant) (hv : v.Valid) (o : Options) (n : Nat) (hn : n ≤ 4224281216) :
    lengthGate (validity Ref.params (vparams Ref.params v) n) o =
      if (n < Spec.minLength v ∨ (o.conservative = true ∧ n < Spec.minLengthConservative v)) ∧
          ¬ o.allowSmall = true then some .tooSmall else none := by
  rw [validity_ref v hv]
  unfold Spec.minLength Spec.minLengthConservative
  apply lengthGate_shape _ _ _ _ _ hn
  split <;> omega

theorem countP_ne_zero_toNat (l : List UInt32) :
    l.countP (· ≠ 0) = (l.map UInt32.toNat).countP (· ≠ 0) := by
  induction l with
  | nil => rfl
  | cons x xs ih =>
    simp only [List.map_cons, List.countP_cons, ih]
    have : (x ≠ 0) ↔ (x.toNat ≠ 0) := by
      constructor
      · intro h h'; exact h (UInt32.toNat_inj.mp (by simpa using h'))
      · intro h h'; exact h (by rw [h']; rfl)
    by_cases hx : x = 0 <;> simp_all

theorem qratio_pack : ∀ r1 r2 : Fin 16,
    (UInt8.ofNat r1.val &&& (0x0f : UInt8)) ||| ((UInt8.ofNat r2.val &&& (0x0f : UInt8)) <<< (4 : UInt8))
      = UInt8.ofNat (r2.val * 16 + r1.val) := by
  decide +kernel

theorem spec_ratio_lt (o : Options) (q q3 : Nat) : Spec.ratio o q q3 < 16 := by
  unfold Spec.ratio F32.ratio
  split <;> exact Nat.mod_lt _ (by decide)

theorem qratio_ref (o : Options) (q q3 : UInt32) :
    qratio Ref.params o q q3 = UInt8.ofNat (Spec.ratio o q.toNat q3.toNat) := by
  unfold qratio Spec.ratio
  have hc : Ref.params.raw.qratioConsts = (100, 16, 100, 16) := rfl
  simp only [hc]
  split <;> rfl

theorem bucketData_length (cfg : Cfg) (v : Variant) (hv : v.Valid) (data : List UInt8)
    (hlen : data.length ≤ 2 ^ 32) :
    (bucketData v (ideal (refStep cfg v) (initAcc cfg v) data)).length = v.buckets := by
  have := congrArg List.length (bucketData_ideal cfg v hv data hlen)
  simpa [Spec.buckets] using this

theorem vparams_minNonzero (v : Variant) (hv : v.Valid) :
    (vparams Ref.params v).minNonzero = Spec.minNonzero v := by
  rcases valid_cases hv with h | h | h | h | h <;> subst h <;> rfl

theorem u32_eq_zero_iff (x : UInt32) : x = 0 ↔ x.toNat = 0 := by
  constructor
  · intro h; rw [h]; rfl
  · intro h; exact UInt32.toNat_inj.mp (by simpa using h)

theorem qratios_byte (o : Options) (q1 q2 q3 : UInt32) :
    (qratio Ref.params o q1 q3 &&& (0x0f : UInt8)) ||| ((qratio Ref.params o q2 q3 &&& (0x0f : UInt8)) <<< (4 : UInt8))
      = UInt8.ofNat (Spec.ratio o q2.toNat q3.toNat * 16 + Spec.ratio o q1.toNat q3.toNat) := by
  rw [qratio_ref, qratio_ref]
  exact qratio_pack ⟨_, spec_ratio_lt o q1.toNat q3.toNat⟩ ⟨_, spec_ratio_lt o q2.toNat q3.toNat⟩

theorem finalizeCore_ref (cfg : Cfg) (v : Variant) (hv : v.Valid) (o : Options) (data : List UInt8)
    (hlen : data.length ≤ 2 ^ 32) (lv : Nat) :
    finalizeCore aggregateNaive Ref.params cfg v (ideal (refStep cfg v) (initAcc cfg v) data) o lv =
      (let b := Spec.buckets v data
       let q := Spec.quartiles b
       if q.2.2 = 0 ∧ ¬ o.allowQuarter = true then Outcome.err GenError.threeQuarterEmpty
       else
         let q' := if q.2.2 = 0 then (1, 1, 1) else q
         if b.countP (· ≠ 0) < Spec.minNonzero v ∧ ¬ (o.allowHalf = true ∨ o.allowQuarter = true) then
           Outcome.err GenError.halfEmpty
         else
           Outcome.ok { checksum := Spec.checksum v data
                      , lvalue := UInt8.ofNat lv
                      , qratios := UInt8.ofNat (Spec.ratio o q'.2.1 q'.2.2 * 16 + Spec.ratio o q'.1 q'.2.2)
                      , body := Spec.body v b q'.1 q'.2.1 q'.2.2 }) := by
  have hB := bucketData_ideal cfg v hv data hlen
  have hL := bucketData_length cfg v hv data hlen
  obtain ⟨h256, h4, hge⟩ := buckets_le_256 hv
  have hsel := Select.selectNth_quartiles (bucketData v (ideal (refStep cfg v) (initAcc cfg v) data))
    v.buckets hL h4 hge
  simp only [] at hsel
  have hck : (ideal (refStep cfg v) (initAcc cfg v) data).acc.1 = Spec.checksum v data := by
    rw [ideal_acc_ref cfg v hv data, List.take_of_length_le hlen]
  have hbody : ∀ q1 q2 q3 : UInt32, aggregateNaive (bucketData v (ideal (refStep cfg v) (initAcc cfg v) data)) q1 q2 q3
      = Spec.body v (Spec.buckets v data) q1.toNat q2.toNat q3.toNat := by
    intro q1 q2 q3
    rw [Aggregate.aggregateNaive_eq_body v _ (by rw [hL]; unfold Variant.bodyLen; omega), hB]
  unfold finalizeCore
  simp only [hck, hbody, vparams_minNonzero v hv, countP_ne_zero_toNat, hB, qratios_byte]
  -- name the selected quartiles
  generalize hQ : selectQuartiles (bucketData v (ideal (refStep cfg v) (initAcc cfg v) data)) v.buckets = Q
  have hQ' : Q = ((selectNth (selectNth (bucketData v (ideal (refStep cfg v) (initAcc cfg v) data)) (v.buckets / 2 - 1)).1 (v.buckets / 4 - 1)).2.1,
      (selectNth (bucketData v (ideal (refStep cfg v) (initAcc cfg v) data)) (v.buckets / 2 - 1)).2.1,
      (selectNth (selectNth (bucketData v (ideal (refStep cfg v) (initAcc cfg v) data)) (v.buckets / 2 - 1)).2.2 (v.buckets / 4 - 1)).2.1) := by
    rw [← hQ]; rfl
  rw [hB] at hsel
  obtain ⟨hq, ho1, ho2⟩ := hsel
  obtain ⟨Q1, Q2, Q3⟩ := Q
  simp only [Prod.mk.injEq] at hQ'
  obtain ⟨e1, e2, e3⟩ := hQ'
  rw [← e1] at hq ho1
  rw [← e2] at hq ho1 ho2
  rw [← e3] at hq ho2
  rw [← hq]
  simp only []
  unfold distributionGate adjustQuartiles
  by_cases hz : Q3 = 0
  · have hz' : Q3.toNat = 0 := (u32_eq_zero_iff Q3).mp hz
    cases haq : o.allowQuarter <;> cases hah : o.allowHalf <;> simp [hz, hz']
  · have hz' : ¬ Q3.toNat = 0 := fun h => hz ((u32_eq_zero_iff Q3).mpr h)
    have hord : Q1 ≤ Q2 ∧ Q2 ≤ Q3 := ⟨ho1, ho2⟩
    cases haq : o.allowQuarter <;> cases hah : o.allowHalf <;> simp [hz, hz', hord] <;>
      (split <;> simp_all)

/-- **Refinement.**  One-shot generation at the reference parameters equals the reference algorithm. -/
theorem generate_ref_eq_spec (cfg : Cfg) (v : Variant) (hv : v.Valid) (o : Options) (data : List UInt8) :
    generate Ref.params cfg v o data = specOutcome (Spec.tlsh v o data) := by
  unfold generate genFinalize
  rw [genUpdate_init]
  unfold genFinalizeWith
  rw [finLen_ideal]
  by_cases hbig : data.length > 4224281216
  · have hval : validity Ref.params (vparams Ref.params v)
        (if data.length < 2 ^ 32 then data.length else 2 ^ 32 - 1) = .tooLarge :=
      (validity_ref_tooLarge_iff v hv _).mpr (by split <;> omega)
    rw [hval]
    have hs : Spec.tlsh v o data = .error .tooLarge := by
      unfold Spec.tlsh
      simp [Ref.maxLength, hbig]
    rw [hs]
    cases hc : o.conservative <;> simp [lengthGate, Validity.isErrOn, specOutcome]
  · have hn : data.length ≤ 4224281216 := by omega
    have h32 : data.length < 2 ^ 32 := by omega
    simp only [h32, if_true]
    rw [lengthGate_ref v hv o _ hn]
    unfold Spec.tlsh
    have hmax : ¬ data.length > Ref.maxLength := by unfold Ref.maxLength; omega
    simp only [hmax, if_false]
    by_cases hsmall : (data.length < Spec.minLength v ∨
        (o.conservative = true ∧ data.length < Spec.minLengthConservative v)) ∧ ¬ o.allowSmall = true
    · rw [if_pos hsmall, if_pos hsmall]; rfl
    · rw [if_neg hsmall, if_neg hsmall]
      rw [Length.encodeLength_ref cfg _ h32]
      simp only [hn, if_true, encodeThen]
      rw [finalizeCore_ref cfg v hv o data (by omega)]
      simp only []
      split
      · rfl
      · split
        · rfl
        · rfl

/-- The bucket array handed to `finalize` always has the variant's length (any input length). -/
theorem bucketData_length_any (cfg : Cfg) (v : Variant) (hv : v.Valid) (data : List UInt8) :
    (bucketData v (ideal (refStep cfg v) (initAcc cfg v) data)).length = v.buckets := by
  unfold bucketData
  rw [ideal_acc_ref cfg v hv data]
  simp only [List.length_take, Array.length_toList]
  rw [foldl_increment_size]
  have := physBuckets_ge cfg hv
  simp; omega

end TlshVerif.Model
