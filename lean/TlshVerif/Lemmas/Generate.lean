/-
Refinement of the generator model to the reference algorithm:
`generate Ref.params cfg v o data = specOutcome (Spec.tlsh v o data)`.
-/
import TlshVerif.Model.Params
import TlshVerif.Spec.Tlsh
import TlshVerif.Lemmas.Update
import TlshVerif.Lemmas.Finalize

namespace TlshVerif.Model

/-- The reference result as a model outcome. -/
def specOutcome : Except GenError Hash → Outcome GenError Hash
  | .ok h => .ok h
  | .error e => .err e

end TlshVerif.Model
