/-
The configured aggregation back end does not change `finalize` (C07).
-/
import TlshVerif.Lemmas.Generate
import TlshVerif.Lemmas.AggBackends

namespace TlshVerif.Model

open TlshVerif.Lemmas

theorem adjusted_sorted (B : List UInt32) (n : Nat) (hL : B.length = n) (h4 : n % 4 = 0) (hge : n ≥ 4) :
    (adjustQuartiles (selectQuartiles B n)).1 ≤ (adjustQuartiles (selectQuartiles B n)).2.1 ∧
      (adjustQuartiles (selectQuartiles B n)).2.1 ≤ (adjustQuartiles (selectQuartiles B n)).2.2 := by
  have hsel := Select.selectNth_quartiles B n hL h4 hge
  simp only [] at hsel
  obtain ⟨_, ho1, ho2⟩ := hsel
  unfold adjustQuartiles
  split
  · exact ⟨by decide, by decide⟩
  · exact ⟨ho1, ho2⟩

/-- `finalizeCore` with any back end = with the naive one, on states whose bucket
array has the variant's length. -/
theorem finalizeCore_backend (be : AggBackend) (u0 u1 : M128) (P : GenParams) (cfg : Cfg) (v : Variant)
    (hv : v.Valid) (s : GenState) (o : Options) (lv : Nat) (hL : (bucketData v s).length = v.buckets) :
    finalizeCore (aggregateWith be u0 u1) P cfg v s o lv = finalizeCore aggregateNaive P cfg v s o lv := by
  obtain ⟨_, h4, hge⟩ := buckets_le_256 hv
  have hs := adjusted_sorted (bucketData v s) v.buckets hL h4 hge
  have h8 : (bucketData v s).length = 8 * (v.buckets / 8) := by
    rw [hL]
    rcases valid_cases hv with h | h | h | h | h <;> subst h <;> decide
  unfold finalizeCore
  simp only []
  rw [aggregateWith_eq_naive be u0 u1 _ _ h8 _ _ _ hs.1 hs.2]

theorem genFinalizeCfg_eq (u0 u1 : M128) (P : GenParams) (cfg : Cfg) (v : Variant) (hv : v.Valid)
    (s : GenState) (o : Options) (hL : (bucketData v s).length = v.buckets) :
    genFinalizeCfg u0 u1 P cfg v s o = genFinalize P cfg v s o := by
  unfold genFinalizeCfg genFinalize genFinalizeWith
  have : finalizeCore (aggregateWith cfg.aggBackend u0 u1) P cfg v s o = finalizeCore aggregateNaive P cfg v s o := by
    funext lv
    exact finalizeCore_backend cfg.aggBackend u0 u1 P cfg v hv s o lv hL
  rw [this]

end TlshVerif.Model
