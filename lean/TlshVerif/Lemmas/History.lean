/-
Small-step semantics of generator histories (update / finalize / clone /
switch handle) and the proof that each handle tracks `ideal (bytes it has seen)`.
-/
import TlshVerif.Lemmas.Update

namespace TlshVerif.Model

inductive HistOp where
  | update (p : List UInt8)
  | finalize (o : Options)
  | clone
  /-- `Clone::clone_from`: handle `k` becomes, in place, a copy of the current handle -/
  | cloneFrom (k : Nat)
  | switch (k : Nat)
deriving Repr

/-- Concrete system: a list of live generators and the current handle. -/
structure Sys (α : Type) where
  gens : List (St α)
  cur : Nat

/-- Abstract system: per handle, the bytes it has seen. -/
structure AbsSys where
  seen : List (List UInt8)
  cur : Nat

def initSys {α} (a0 : α) : Sys α := { gens := [init a0], cur := 0 }
def initAbs : AbsSys := { seen := [[]], cur := 0 }

/-- One operation.  An out-of-range handle leaves the system unchanged (the
harness never generates one). -/
def stepSys {α β} (f : α → List UInt8 → α) (fin : St α → Options → β)
    (s : Sys α × List β) (op : HistOp) : Sys α × List β :=
  match op with
  | .update p =>
    match s.1.gens[s.1.cur]? with
    | some g => ({ s.1 with gens := s.1.gens.set s.1.cur (update f g p) }, s.2)
    | none => s
  | .finalize o =>
    match s.1.gens[s.1.cur]? with
    | some g => (s.1, s.2 ++ [fin g o])
    | none => s
  | .clone =>
    match s.1.gens[s.1.cur]? with
    | some g => ({ s.1 with gens := s.1.gens ++ [g] }, s.2)
    | none => s
  | .cloneFrom k =>
    match s.1.gens[s.1.cur]? with
    | some g => ({ s.1 with gens := s.1.gens.set k g }, s.2)
    | none => s
  | .switch k => if k < s.1.gens.length then ({ s.1 with cur := k }, s.2) else s

def stepAbs (s : AbsSys × List (List UInt8 × Options)) (op : HistOp) :
    AbsSys × List (List UInt8 × Options) :=
  match op with
  | .update p =>
    match s.1.seen[s.1.cur]? with
    | some e => ({ s.1 with seen := s.1.seen.set s.1.cur (e ++ p) }, s.2)
    | none => s
  | .finalize o =>
    match s.1.seen[s.1.cur]? with
    | some e => (s.1, s.2 ++ [(e, o)])
    | none => s
  | .clone =>
    match s.1.seen[s.1.cur]? with
    | some e => ({ s.1 with seen := s.1.seen ++ [e] }, s.2)
    | none => s
  | .cloneFrom k =>
    match s.1.seen[s.1.cur]? with
    | some e => ({ s.1 with seen := s.1.seen.set k e }, s.2)
    | none => s
  | .switch k => if k < s.1.seen.length then ({ s.1 with cur := k }, s.2) else s

def runHistFrom {α β} (f : α → List UInt8 → α) (fin : St α → Options → β)
    (s : Sys α × List β) (h : List HistOp) : Sys α × List β := h.foldl (stepSys f fin) s

def runHist {α β} (f : α → List UInt8 → α) (fin : St α → Options → β) (s : Sys α)
    (h : List HistOp) : Sys α × List β := runHistFrom f fin (s, []) h

def runAbsFrom (s : AbsSys × List (List UInt8 × Options)) (h : List HistOp) :
    AbsSys × List (List UInt8 × Options) := h.foldl stepAbs s

def runAbs (h : List HistOp) : AbsSys × List (List UInt8 × Options) := runAbsFrom (initAbs, []) h

/-- The refinement relation between concrete and abstract systems. -/
def Rel {α β} (f : α → List UInt8 → α) (a0 : α) (fin : St α → Options → β)
    (c : Sys α × List β) (a : AbsSys × List (List UInt8 × Options)) : Prop :=
  c.1.gens = a.1.seen.map (ideal f a0) ∧ c.1.cur = a.1.cur ∧
    c.2 = a.2.map (fun e => fin (ideal f a0 e.1) e.2)

theorem step_rel {α β} (f : α → List UInt8 → α) (a0 : α) (fin : St α → Options → β)
    (c : Sys α × List β) (a : AbsSys × List (List UInt8 × Options)) (op : HistOp)
    (h : Rel f a0 fin c a) : Rel f a0 fin (stepSys f fin c op) (stepAbs a op) := by
  obtain ⟨hg, hc, ho⟩ := h
  cases op with
  | update p =>
    simp only [stepSys, stepAbs, hc, hg, List.getElem?_map]
    cases hs : a.1.seen[a.1.cur]? with
    | none => exact ⟨hg, hc, ho⟩
    | some e =>
      refine ⟨?_, rfl, ho⟩
      simp [List.map_set, update_ideal]
  | finalize o =>
    simp only [stepSys, stepAbs, hc, hg, List.getElem?_map]
    cases hs : a.1.seen[a.1.cur]? with
    | none => exact ⟨hg, hc, ho⟩
    | some e =>
      refine ⟨hg, hc, ?_⟩
      simp [ho]
  | clone =>
    simp only [stepSys, stepAbs, hc, hg, List.getElem?_map]
    cases hs : a.1.seen[a.1.cur]? with
    | none => exact ⟨hg, hc, ho⟩
    | some e =>
      refine ⟨?_, rfl, ho⟩
      simp
  | cloneFrom k =>
    simp only [stepSys, stepAbs, hc, hg, List.getElem?_map]
    cases hs : a.1.seen[a.1.cur]? with
    | none => exact ⟨hg, hc, ho⟩
    | some e =>
      refine ⟨?_, rfl, ho⟩
      simp [List.map_set]
  | switch k =>
    simp only [stepSys, stepAbs, hg, List.length_map]
    split
    · exact ⟨by simp, rfl, ho⟩
    · exact ⟨hg, hc, ho⟩

theorem run_rel {α β} (f : α → List UInt8 → α) (a0 : α) (fin : St α → Options → β)
    (h : List HistOp) (c : Sys α × List β) (a : AbsSys × List (List UInt8 × Options))
    (r : Rel f a0 fin c a) : Rel f a0 fin (runHistFrom f fin c h) (runAbsFrom a h) := by
  induction h generalizing c a with
  | nil => exact r
  | cons op rest ih =>
    simp only [runHistFrom, runAbsFrom, List.foldl_cons]
    exact ih _ _ (step_rel f a0 fin c a op r)

theorem runHist_spec {α β} (f : α → List UInt8 → α) (a0 : α) (fin : St α → Options → β)
    (h : List HistOp) :
    Rel f a0 fin (runHist f fin (initSys a0) h) (runAbs h) := by
  apply run_rel
  refine ⟨?_, rfl, rfl⟩
  simp [initSys, initAbs, ideal_nil]

end TlshVerif.Model
