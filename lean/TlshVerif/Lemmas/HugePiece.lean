/-
A single `update()` piece of `n` zero bytes, in closed form on the observables that do not depend on
the accumulator (`len`, `tail`).  The probe feeds real slices of 4 GiB and more (lazily zeroed
memory); the model driver cannot hold such a list, so it evaluates `updateZeros` instead — this file
proves that it is the model's `update` on `List.replicate n 0`.
-/
import TlshVerif.Lemmas.Update

namespace TlshVerif.Model

theorem updateFull_zeros (tail : List UInt8) (len n : Nat) (h : tail.length = 4) :
    updateFull (fun (_ : Unit) _ => ()) tail len () (List.replicate n 0) = updateFullZeros tail len n := by
  rw [updateFull_eq _ _ _ _ _ h]
  unfold updateFullZeros
  simp only [List.take_replicate, List.length_replicate]
  congr 1
  by_cases hk : min (maxLen - len) n ≥ 4
  · have hk' : min n (maxLen - len) ≥ 4 := by omega
    simp only [hk', if_true]
    rw [List.drop_append]
    have e1 : List.drop (min (maxLen - len) n) tail = [] := by
      apply List.drop_eq_nil_of_le; omega
    simp only [e1, List.nil_append, List.drop_replicate, h]
    have : min (maxLen - len) n - (min (maxLen - len) n - 4) = 4 := by omega
    rw [this]; rfl
  · have hk' : ¬ min n (maxLen - len) ≥ 4 := by omega
    simp only [hk', if_false]
    rw [List.drop_append]
    simp [Nat.min_comm]
    omega
  · rw [Nat.min_comm]

/-- The closed form is the model's `update` on `n` zero bytes (observables `len`, `tail`). -/
theorem updateZeros_eq (s : St Unit) (n : Nat) (hs : s.tail.length ≤ 4) :
    update (fun (_ : Unit) _ => ()) s (List.replicate n 0) = updateZeros s n := by
  unfold update updateZeros
  by_cases h1 : s.tail.length < tailSize
  · simp only [h1, if_true, List.length_replicate]
    by_cases h2 : n ≤ tailSize - s.tail.length
    · simp [h2]
    · simp only [h2, if_false, List.take_replicate, List.drop_replicate]
      have hm : min (tailSize - s.tail.length) n = tailSize - s.tail.length := by omega
      rw [hm]
      apply updateFull_zeros
      simp [tailSize_eq] at h1 ⊢; omega
  · simp only [h1, if_false]
    apply updateFull_zeros
    simp [tailSize_eq] at h1; omega

/-- Non-vacuity / sanity: a fresh generator fed 2³² zero bytes in one piece saturates. -/
example : (updateZeros ⟨[], 0, ()⟩ (2 ^ 32)).len = maxLen ∧ (updateZeros ⟨[], 0, ()⟩ (2 ^ 32)).tail = [0, 0, 0, 0]
    ∧ processedLen (updateZeros ⟨[], 0, ()⟩ (2 ^ 32)) = none := by decide

end TlshVerif.Model
