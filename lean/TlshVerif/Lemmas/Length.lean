/-
Lemmas for C09 — the length code.

* general `List.findIdx` facts (splitting a list into a failing prefix, a
  searched middle and a passing suffix; monotonicity in the predicate);
* `strictlyIncreasing` ⇒ `Pairwise (· < ·)`;
* the concrete CLZ index table of the reference parameters, checked row by row
  with `decide +kernel` (33 + 32 rows);
* `2^(31-clz) ≤ n < 2^(32-clz)`;
* `encodeLength Ref.params cfg n` for every `n < 2^32`.
-/
import TlshVerif.Model.Params
import TlshVerif.Spec.Tlsh
import TlshVerif.Ref.Justify

namespace TlshVerif.Lemmas.Length

open TlshVerif Model

/-! ### `findIdx` -/

/-- If every element of `l₁` fails `p` and every element of `l₃` satisfies it,
searching `l₁ ++ l₂ ++ l₃` is searching `l₂`, shifted. -/
theorem findIdx_sandwich {α : Type} (p : α → Bool) (l₁ l₂ l₃ : List α)
    (h₁ : ∀ x ∈ l₁, p x = false) (h₃ : ∀ x ∈ l₃, p x = true) :
    (l₁ ++ (l₂ ++ l₃)).findIdx p = l₁.length + l₂.findIdx p := by
  have e1 : l₁.findIdx p = l₁.length := List.findIdx_eq_length.2 h₁
  rw [List.findIdx_append, e1, if_neg (Nat.lt_irrefl _), Nat.add_comm]
  congr 1
  rw [List.findIdx_append]
  split
  · rfl
  · rename_i h
    have e2 : l₂.findIdx p = l₂.length :=
      Nat.le_antisymm List.findIdx_le_length (Nat.le_of_not_lt h)
    rw [e2]
    cases l₃ with
    | nil => simp
    | cons a t =>
      have : p a = true := h₃ a (by simp)
      simp [List.findIdx_cons, this]

/-- A weaker predicate is found no later. -/
theorem findIdx_le_of_imp {α : Type} (p q : α → Bool) (l : List α)
    (h : ∀ x, q x = true → p x = true) : l.findIdx p ≤ l.findIdx q := by
  induction l with
  | nil => simp
  | cons a t ih =>
    rw [List.findIdx_cons, List.findIdx_cons]
    cases hq : q a
    · cases hp : p a
      · simpa using ih
      · simp
    · simp [h a hq]

/-! ### Strictly increasing lists -/

theorem pairwise_of_strictlyIncreasing :
    ∀ l : List Nat, Ref.strictlyIncreasing l = true → l.Pairwise (· < ·)
  | [], _ => List.Pairwise.nil
  | [_], _ => by simp
  | a :: b :: rest, h => by
    simp only [Ref.strictlyIncreasing, Bool.and_eq_true, decide_eq_true_eq] at h
    have ih := pairwise_of_strictlyIncreasing (b :: rest) h.2
    refine List.Pairwise.cons ?_ ih
    intro x hx
    rcases List.mem_cons.1 hx with rfl | hx
    · exact h.1
    · exact Nat.lt_trans h.1 ((List.pairwise_cons.1 ih).1 x hx)

theorem topval_pairwise : Ref.topval.Pairwise (· < ·) :=
  pairwise_of_strictlyIncreasing _ Ref.topval_increasing

/-- Indexwise form of strict monotonicity. -/
theorem topval_strictMono {i j : Nat} (hij : i < j) (hj : j < Ref.topval.length) :
    Ref.topval[i]'(Nat.lt_trans hij hj) < Ref.topval[j] :=
  List.pairwise_iff_getElem.1 topval_pairwise i j (Nat.lt_trans hij hj) hj hij

theorem topval_mono {i j : Nat} (hij : i ≤ j) (hj : j < Ref.topval.length) :
    Ref.topval[i]'(Nat.lt_of_le_of_lt hij hj) ≤ Ref.topval[j] := by
  rcases Nat.lt_or_eq_of_le hij with h | rfl
  · exact Nat.le_of_lt (topval_strictMono h hj)
  · exact Nat.le_refl _

theorem getD_topval {i : Nat} (h : i < Ref.topval.length) :
    Ref.topval.getD i 0 = Ref.topval[i] := by
  rw [List.getD_eq_getElem?_getD, List.getElem?_eq_getElem h, Option.getD_some]

/-! ### Leading zeros -/

/-- For a nonzero `u32`, `clz ≤ 31` and `2^(31-clz) ≤ n < 2^(32-clz)`. -/
theorem leadingZeros32_bounds {n : Nat} (h0 : n ≠ 0) (h32 : n < 2 ^ 32) :
    leadingZeros32 n ≤ 31 ∧ 2 ^ (31 - leadingZeros32 n) ≤ n ∧ n < 2 ^ (32 - leadingZeros32 n) := by
  have hl : n.log2 < 32 := (Nat.log2_lt h0).2 h32
  simp only [leadingZeros32, if_neg h0]
  have e1 : 31 - (31 - n.log2) = n.log2 := by omega
  have e2 : 32 - (31 - n.log2) = n.log2 + 1 := by omega
  rw [e1, e2]
  exact ⟨Nat.sub_le _ _, Nat.log2_self_le h0, Nat.lt_log2_self⟩

/-! ### The concrete reference tables -/

/-- `ENCODED_INDICES_BY_LEADING_ZEROS` of the reference table. -/
def lzTable : List Nat :=
  [170, 162, 155, 148, 141, 133, 126, 119, 111, 104, 97, 90, 82, 75, 68, 61, 53, 46, 39, 31, 24,
   20, 17, 15, 13, 11, 10, 8, 6, 5, 3, 1, 0]

theorem lzIndex_eq : Ref.params.lzIndex.toList = lzTable := by decide +kernel

theorem params_topval : Ref.params.topval = Ref.topval.toArray := rfl
theorem params_topval_toList : Ref.params.topval.toList = Ref.topval := rfl
theorem params_topval_size : Ref.params.topval.size = 170 := by
  rw [params_topval, List.size_toArray]; exact Ref.topval_length
theorem params_maxLength : Ref.params.raw.maxLength = 4224281216 := rfl

/-- What the CLZ narrowing needs, for every leading-zero class `c` of a nonzero
`u32`: with `bottom = T[c+1]`, `top = T[c]`, the three `invariant!` conditions
hold, everything before `bottom` is below `2^(31-c)` and everything from `top`
on is at least `2^(32-c)`. -/
theorem lzTable_rows : ∀ c : Fin 32,
    lzTable.getD (c.val + 1) 0 ≤ lzTable.getD c.val 0 ∧ lzTable.getD c.val 0 ≤ 170 ∧
    (∀ x ∈ Ref.topval.take (lzTable.getD (c.val + 1) 0), x < 2 ^ (31 - c.val)) ∧
    (∀ x ∈ Ref.topval.drop (lzTable.getD c.val 0), 2 ^ (32 - c.val) ≤ x) := by
  decide +kernel

theorem lzIndex_getElem? (c : Nat) (hc : c < 33) :
    Ref.params.lzIndex[c]? = some (lzTable.getD c 0) := by
  rw [← Array.getElem?_toList, lzIndex_eq]
  have : c < lzTable.length := hc
  rw [List.getD_eq_getElem?_getD, List.getElem?_eq_getElem this]
  rfl

/-! ### The length code -/

theorem lengthCode_zero : Spec.lengthCode 0 = 0 := by
  decide +kernel

/-- `encodeLength` on the reference parameters: always a normal return, `None`
above the maximum, otherwise the least index of an entry `≥ n`. -/
theorem encodeLength_ref (cfg : Cfg) (n : Nat) (h32 : n < 2 ^ 32) :
    encodeLength Ref.params cfg n =
      .ok (if n ≤ 4224281216 then some (Spec.lengthCode n) else none) := by
  unfold encodeLength
  by_cases h0 : n = 0
  · subst h0; simp [lengthCode_zero]
  rw [if_neg h0, params_maxLength]
  by_cases hmax : n > 4224281216
  · rw [if_pos hmax, if_neg (show ¬ n ≤ 4224281216 by omega)]
  rw [if_neg hmax, if_pos (show n ≤ 4224281216 by omega)]
  dsimp only
  obtain ⟨hc, hlo, hhi⟩ := leadingZeros32_bounds h0 h32
  generalize leadingZeros32 n = c at hc hlo hhi
  obtain ⟨hbt, htop, hpre, hsuf⟩ := lzTable_rows ⟨c, by omega⟩
  simp only at hbt htop hpre hsuf
  rw [lzIndex_getElem? (c + 1) (by omega), lzIndex_getElem? c (by omega)]
  generalize lzTable.getD (c + 1) 0 = bottom at hbt hpre
  generalize lzTable.getD c 0 = top at hbt htop hpre hsuf
  simp only [params_topval_size, params_topval_toList]
  rw [if_neg (show ¬¬(bottom ≤ 170 ∧ top ≤ 170 ∧ bottom ≤ top) by omega)]
  -- split the table
  have hsplit : Ref.topval =
      Ref.topval.take bottom ++ ((Ref.topval.take top).drop bottom ++ Ref.topval.drop top) := by
    conv => lhs; rw [← List.take_append_drop top Ref.topval]
    conv => lhs; rw [← List.take_append_drop bottom (Ref.topval.take top)]
    rw [List.take_take, Nat.min_eq_left hbt, List.append_assoc]
  have hlen : (Ref.topval.take bottom).length = bottom := by
    rw [List.length_take, Ref.topval_length]; omega
  have hcode : Spec.lengthCode n =
      bottom + binarySearchPos ((Ref.topval.take top).drop bottom) n := by
    unfold Spec.lengthCode binarySearchPos
    conv => lhs; rw [hsplit]
    rw [findIdx_sandwich, hlen]
    · intro x hx
      have := hpre x hx
      simp only [decide_eq_false_iff_not]; omega
    · intro x hx
      have := hsuf x hx
      simp only [decide_eq_true_eq]; omega
  have hpos : binarySearchPos ((Ref.topval.take top).drop bottom) n ≤ top - bottom := by
    unfold binarySearchPos
    refine Nat.le_trans List.findIdx_le_length ?_
    rw [List.length_drop, List.length_take]; omega
  rw [hcode, Nat.mod_eq_of_lt (by omega)]

end TlshVerif.Lemmas.Length
