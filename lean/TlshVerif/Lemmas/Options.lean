/-
Lemmas about the option gates of `genFinalizeWith`.
-/
import TlshVerif.Lemmas.Finalize

namespace TlshVerif.Model

variable (agg : List UInt32 → UInt32 → UInt32 → UInt32 → List UInt8)

theorem lengthGate_cases (val : Validity) (o : Options) :
    lengthGate val o = none ∨ lengthGate val o = some .tooLarge ∨ lengthGate val o = some .tooSmall := by
  cases val <;> cases hc : o.conservative <;> cases hs : o.allowSmall <;>
    simp [lengthGate, Validity.isErrOn, hc, hs]

theorem lengthGate_isSome_iff (val : Validity) (o : Options) :
    (lengthGate val o).isSome = true ↔
      (val.isErrOn o.conservative = true ∧ ¬ (o.allowSmall = true ∧ val ≠ .tooLarge)) := by
  cases val <;> cases hc : o.conservative <;> cases hs : o.allowSmall <;>
    simp [lengthGate, Validity.isErrOn, hc, hs]

theorem genFinalizeWith_lengthError_iff (P : GenParams) (cfg : Cfg) (v : Variant) (s : GenState)
    (o : Options) :
    (genFinalizeWith agg P cfg v s o = .err .tooLarge ∨ genFinalizeWith agg P cfg v s o = .err .tooSmall) ↔
      ((validity P (vparams P v) (finLen s)).isErrOn o.conservative = true ∧
        ¬ (o.allowSmall = true ∧ validity P (vparams P v) (finLen s) ≠ .tooLarge)) := by
  rw [← lengthGate_isSome_iff]
  unfold genFinalizeWith
  rcases lengthGate_cases (validity P (vparams P v) (finLen s)) o with h | h | h <;> rw [h]
  · have h1 := encodeThen_ne_err (encodeLength P cfg (finLen s)) (finalizeCore agg P cfg v s o) .tooLarge
      (fun lv => (finalizeCore_ne_lengthError agg P cfg v s o lv).1)
    have h2 := encodeThen_ne_err (encodeLength P cfg (finLen s)) (finalizeCore agg P cfg v s o) .tooSmall
      (fun lv => (finalizeCore_ne_lengthError agg P cfg v s o lv).2)
    simp [h1, h2]
  · simp
  · simp

theorem distributionGate_quarter (q3 : UInt32) (nz mn : Nat) (o : Options) (hq : o.allowQuarter = true) :
    distributionGate q3 nz mn o = none := by
  simp [distributionGate, hq]

theorem finalizeCore_quarter (P : GenParams) (cfg : Cfg) (v : Variant) (s : GenState) (o : Options)
    (lv : Nat) (hq : o.allowQuarter = true) :
    finalizeCore agg P cfg v s o lv ≠ .err .halfEmpty ∧
      finalizeCore agg P cfg v s o lv ≠ .err .threeQuarterEmpty := by
  unfold finalizeCore
  simp only [distributionGate_quarter _ _ _ o hq]
  constructor <;> split <;> simp

theorem genFinalizeWith_quarter (P : GenParams) (cfg : Cfg) (v : Variant) (s : GenState) (o : Options)
    (hq : o.allowQuarter = true) :
    genFinalizeWith agg P cfg v s o ≠ .err .halfEmpty ∧
      genFinalizeWith agg P cfg v s o ≠ .err .threeQuarterEmpty := by
  unfold genFinalizeWith
  rcases lengthGate_cases (validity P (vparams P v) (finLen s)) o with h | h | h <;> rw [h]
  · exact ⟨encodeThen_ne_err _ _ _ (fun lv => (finalizeCore_quarter agg P cfg v s o lv hq).1),
      encodeThen_ne_err _ _ _ (fun lv => (finalizeCore_quarter agg P cfg v s o lv hq).2)⟩
  · simp
  · simp

/-- The length gate only opens further under more permissive options. -/
theorem lengthGate_mono (val : Validity) (o o' : Options)
    (hc : o'.conservative = true → o.conservative = true)
    (hs : o.allowSmall = true → o'.allowSmall = true) (h : lengthGate val o = none) :
    lengthGate val o' = none := by
  cases val <;> cases hc1 : o.conservative <;> cases hs1 : o.allowSmall <;>
    cases hc2 : o'.conservative <;> cases hs2 : o'.allowSmall <;>
    simp_all [lengthGate, Validity.isErrOn]

theorem distributionGate_mono (q3 : UInt32) (nz mn : Nat) (o o' : Options)
    (hh : o.allowHalf = true → o'.allowHalf = true) (hq : o.allowQuarter = true → o'.allowQuarter = true)
    (h : distributionGate q3 nz mn o = none) : distributionGate q3 nz mn o' = none := by
  unfold distributionGate at *
  cases h1 : o.allowHalf <;> cases h2 : o.allowQuarter <;> cases h3 : o'.allowHalf <;>
    cases h4 : o'.allowQuarter <;> simp_all <;> (repeat' split at h) <;> simp_all

theorem qratio_congr (P : GenParams) (o o' : Options) (hp : o.pureInt = o'.pureInt) (q q3 : UInt32) :
    qratio P o q q3 = qratio P o' q q3 := by
  unfold qratio; rw [hp]

theorem finalizeCore_mono (P : GenParams) (cfg : Cfg) (v : Variant) (s : GenState) (o o' : Options)
    (hp : o.pureInt = o'.pureInt)
    (hh : o.allowHalf = true → o'.allowHalf = true)
    (hq : o.allowQuarter = true → o'.allowQuarter = true) (lv : Nat) (h : Hash)
    (hok : finalizeCore agg P cfg v s o lv = .ok h) : finalizeCore agg P cfg v s o' lv = .ok h := by
  unfold finalizeCore at *
  simp only [] at *
  cases hg : distributionGate (selectQuartiles (bucketData v s) v.buckets).2.2
      (List.countP (· ≠ 0) (bucketData v s)) (vparams P v).minNonzero o with
  | some e => rw [hg] at hok; simp at hok
  | none =>
    rw [hg] at hok
    rw [distributionGate_mono _ _ _ o o' hh hq hg]
    simp only [qratio_congr P o o' hp] at hok
    exact hok

theorem encodeThen_ok (r : Outcome Unit (Option Nat)) (k k' : Nat → Outcome GenError Hash) (h : Hash)
    (hk : ∀ lv, k lv = .ok h → k' lv = .ok h) (hok : encodeThen r k = .ok h) : encodeThen r k' = .ok h := by
  unfold encodeThen at *
  split at hok <;> simp_all

theorem genFinalizeWith_mono (P : GenParams) (cfg : Cfg) (v : Variant) (s : GenState) (o o' : Options)
    (hp : o.pureInt = o'.pureInt) (hc : o'.conservative = true → o.conservative = true)
    (hs : o.allowSmall = true → o'.allowSmall = true) (hh : o.allowHalf = true → o'.allowHalf = true)
    (hq : o.allowQuarter = true → o'.allowQuarter = true) (h : Hash)
    (hok : genFinalizeWith agg P cfg v s o = .ok h) : genFinalizeWith agg P cfg v s o' = .ok h := by
  unfold genFinalizeWith at *
  cases hg : lengthGate (validity P (vparams P v) (finLen s)) o with
  | some e => rw [hg] at hok; simp at hok
  | none =>
    rw [hg] at hok
    rw [lengthGate_mono _ o o' hc hs hg]
    exact encodeThen_ok _ _ _ h (fun lv => finalizeCore_mono agg P cfg v s o o' hp hh hq lv h) hok

end TlshVerif.Model
