/-
The six `self.buckets.increment(Self::b_mapping(salt, b_i, b_j, b_k))` statements of
`Generator::update` commute: the state after one window does not depend on the order in which
they are written in the source.  The translator therefore emits them in a canonical order
(`Gen.pairings`, sorted) next to the order found in the source (`Gen.pairingsSrc`); the theorems
below carry every result about the model at `Gen.pairings` over to the source order.
-/
import TlshVerif.Model.Generator

namespace TlshVerif.Model

theorem modify_succ_comm (a : Array UInt32) (i j : Nat) :
    (a.modify i (· + 1)).modify j (· + 1) = (a.modify j (· + 1)).modify i (· + 1) := by
  apply Array.ext
  · simp
  · intro k h1 h2
    simp only [Array.getElem_modify]
    by_cases hi : i = k <;> by_cases hj : j = k <;> simp [hi, hj]

theorem increment_comm (cfg : Cfg) (vp : VParams) (bk : Array UInt32) (i j : UInt8) :
    increment cfg vp (increment cfg vp bk i) j = increment cfg vp (increment cfg vp bk j) i := by
  unfold increment
  by_cases h1 : (cfg.lowMemBuckets && !vp.constrained && decide (i.toNat ≥ vp.v.buckets)) = true <;>
    by_cases h2 : (cfg.lowMemBuckets && !vp.constrained && decide (j.toNat ≥ vp.v.buckets)) = true <;>
    simp only [h1, h2, if_true, if_false, Bool.false_eq_true] <;> try rfl
  exact (modify_succ_comm bk i.toNat j.toNat)

/-- The same parameters with the pairing statements in another order. -/
def withPairings (P : GenParams) (l : List (Nat × Nat × Nat × Nat)) : GenParams :=
  { P with raw := { P.raw with pairings := l } }

theorem accStep_perm (P : GenParams) (l : List (Nat × Nat × Nat × Nat)) (h : l.Perm P.raw.pairings)
    (cfg : Cfg) (vp : VParams) (a : Acc) (w : List UInt8) :
    accStep (withPairings P l) cfg vp a w = accStep P cfg vp a w := by
  unfold accStep
  have hb : ∀ x y z u, bMapping (withPairings P l) vp x y z u = bMapping P vp x y z u := fun _ _ _ _ => rfl
  have hc : ∀ ck x y, checksumUpdate (withPairings P l) vp ck x y = checksumUpdate P vp ck x y := fun _ _ _ => rfl
  simp only [hb, hc]
  congr 1
  show List.foldl _ a.2 l = List.foldl _ a.2 P.raw.pairings
  exact h.foldl_eq' (fun x _ y _ z => increment_comm cfg vp z _ _) a.2

theorem vparams_withPairings (P : GenParams) (l : List (Nat × Nat × Nat × Nat)) (v : Variant) :
    vparams (withPairings P l) v = vparams P v := rfl

/-- `update` does not depend on the order of the pairing statements. -/
theorem genUpdate_perm (P : GenParams) (l : List (Nat × Nat × Nat × Nat)) (h : l.Perm P.raw.pairings)
    (cfg : Cfg) (v : Variant) : genUpdate (withPairings P l) cfg v = genUpdate P cfg v := by
  funext s data
  unfold genUpdate
  rw [vparams_withPairings]
  congr 1
  funext a w
  exact accStep_perm P l h cfg _ a w

end TlshVerif.Model
