/-
Lemmas on quartile selection (used by C01).

* `Spec.sortAsc` is a sorted permutation;
* `mergeSort` on `UInt32` with `≤` agrees with `Spec.sortAsc` on the values;
* the *contract* of `select_nth_unstable` (`SelectSpec`) pins down the selected
  element and the sorted forms of the two sides, whatever the implementation;
* hence the three nested selections of `finalize_with_options` produce
  `Spec.quartiles`, for the model's `selectNth` and for every other
  implementation meeting the contract.
-/
import TlshVerif.Model.Generator
import TlshVerif.Spec.Tlsh

namespace TlshVerif.Lemmas.Select

open TlshVerif Model Spec

/-! ### B1: `sortAsc` is a sorted permutation -/

theorem insertAsc_perm (x : Nat) : ∀ l : List Nat, (insertAsc x l).Perm (x :: l)
  | [] => List.Perm.refl _
  | y :: ys => by
    simp only [insertAsc]
    split
    · exact List.Perm.refl _
    · exact ((insertAsc_perm x ys).cons y).trans (List.Perm.swap x y ys)

theorem mem_insertAsc {a x : Nat} {l : List Nat} : a ∈ insertAsc x l ↔ a = x ∨ a ∈ l := by
  rw [(insertAsc_perm x l).mem_iff, List.mem_cons]

theorem insertAsc_pairwise (x : Nat) :
    ∀ l : List Nat, l.Pairwise (· ≤ ·) → (insertAsc x l).Pairwise (· ≤ ·)
  | [], _ => by simp [insertAsc]
  | y :: ys, h => by
    have hy := List.pairwise_cons.1 h
    simp only [insertAsc]
    split
    · rename_i hxy
      refine List.pairwise_cons.2 ⟨?_, h⟩
      intro a ha
      rcases List.mem_cons.1 ha with rfl | ha
      · exact hxy
      · exact Nat.le_trans hxy (hy.1 a ha)
    · rename_i hxy
      refine List.pairwise_cons.2 ⟨?_, insertAsc_pairwise x ys hy.2⟩
      intro a ha
      rcases mem_insertAsc.1 ha with rfl | ha
      · omega
      · exact hy.1 a ha

theorem sortAsc_perm : ∀ l : List Nat, (sortAsc l).Perm l
  | [] => List.Perm.refl _
  | x :: xs => by
    simp only [sortAsc]
    exact (insertAsc_perm x _).trans ((sortAsc_perm xs).cons x)

theorem sortAsc_pairwise : ∀ l : List Nat, (sortAsc l).Pairwise (· ≤ ·)
  | [] => List.Pairwise.nil
  | x :: xs => by
    simp only [sortAsc]
    exact insertAsc_pairwise x _ (sortAsc_pairwise xs)

theorem sortAsc_length (l : List Nat) : (sortAsc l).length = l.length :=
  (sortAsc_perm l).length_eq

/-- Two ascending lists with the same elements are equal. -/
theorem eq_of_perm_of_sorted_nat {l₁ l₂ : List Nat} (h₁ : l₁.Pairwise (· ≤ ·))
    (h₂ : l₂.Pairwise (· ≤ ·)) (hp : l₁.Perm l₂) : l₁ = l₂ :=
  List.Perm.eq_of_pairwise (fun _ _ _ _ h h' => Nat.le_antisymm h h') h₁ h₂ hp

/-- `sortAsc` is characterised by being the sorted permutation. -/
theorem sortAsc_unique {l s : List Nat} (hs : s.Pairwise (· ≤ ·)) (hp : s.Perm l) :
    s = sortAsc l :=
  eq_of_perm_of_sorted_nat hs (sortAsc_pairwise l) (hp.trans (sortAsc_perm l).symm)

/-! ### B2: `mergeSort` on `UInt32` -/

/-- The sort the model uses (`slice.sort_unstable()` order on `u32`). -/
abbrev sort32 (l : List UInt32) : List UInt32 := l.mergeSort (fun x y => decide (x ≤ y))

theorem sort32_perm (l : List UInt32) : (sort32 l).Perm l := List.mergeSort_perm _ _

theorem sort32_length (l : List UInt32) : (sort32 l).length = l.length := List.length_mergeSort _

theorem sort32_pairwise (l : List UInt32) : (sort32 l).Pairwise (· ≤ ·) := by
  have h := List.pairwise_mergeSort (le := fun x y : UInt32 => decide (x ≤ y))
    (by intro a b c hab hbc
        simp only [decide_eq_true_eq, UInt32.le_iff_toNat_le] at *
        omega)
    (by intro a b
        simp only [Bool.or_eq_true, decide_eq_true_eq, UInt32.le_iff_toNat_le]
        omega) l
  exact h.imp (fun h => by simpa using h)

theorem eq_of_perm_of_sorted32 {l₁ l₂ : List UInt32} (h₁ : l₁.Pairwise (· ≤ ·))
    (h₂ : l₂.Pairwise (· ≤ ·)) (hp : l₁.Perm l₂) : l₁ = l₂ :=
  List.Perm.eq_of_pairwise
    (fun a b _ _ h h' => by
      rw [UInt32.le_iff_toNat_le] at h h'
      exact UInt32.toNat_inj.1 (Nat.le_antisymm h h')) h₁ h₂ hp

theorem sort32_of_sorted {l : List UInt32} (h : l.Pairwise (· ≤ ·)) : sort32 l = l :=
  List.mergeSort_of_pairwise (h.imp (fun h => by simpa using h))

/-- The model's sort and the specification's sort agree on the values. -/
theorem mergeSort_map_toNat (l : List UInt32) :
    (l.mergeSort (fun x y => decide (x ≤ y))).map UInt32.toNat = sortAsc (l.map UInt32.toNat) := by
  apply sortAsc_unique
  · exact (sort32_pairwise l).map _ (fun a b h => UInt32.le_iff_toNat_le.1 h)
  · exact (sort32_perm l).map _

theorem getD_map_toNat (l : List UInt32) (k : Nat) :
    (l.map UInt32.toNat).getD k 0 = (l.getD k 0).toNat := by
  rw [List.getD_eq_getElem?_getD, List.getD_eq_getElem?_getD, List.getElem?_map]
  cases l[k]? <;> rfl

/-! ### B4: the contract of `select_nth_unstable` -/

/-- What `slice.select_nth_unstable(k)` guarantees about the rearranged slice
`lo ++ [x] ++ hi`: it is a permutation of the input, `x` sits at index `k`,
nothing before it is greater and nothing after it is smaller. -/
def SelectSpec (l : List UInt32) (k : Nat) (r : List UInt32 × UInt32 × List UInt32) : Prop :=
  (r.1 ++ r.2.1 :: r.2.2).Perm l ∧ r.1.length = k ∧ (∀ a ∈ r.1, a ≤ r.2.1) ∧ (∀ b ∈ r.2.2, r.2.1 ≤ b)

private theorem le32_trans {a b c : UInt32} (h₁ : a ≤ b) (h₂ : b ≤ c) : a ≤ c := by
  rw [UInt32.le_iff_toNat_le] at *; omega

/-- Any result meeting the contract splits the sorted input at `k`. -/
theorem SelectSpec.sorted_eq {l : List UInt32} {k : Nat} {lo hi : List UInt32} {x : UInt32}
    (h : SelectSpec l k (lo, x, hi)) : sort32 l = sort32 lo ++ x :: sort32 hi := by
  obtain ⟨hp, _, hlo, hhi⟩ := h
  simp only at hp hlo hhi
  apply eq_of_perm_of_sorted32 (sort32_pairwise l)
  · rw [List.pairwise_append]
    refine ⟨sort32_pairwise lo, List.pairwise_cons.2 ⟨?_, sort32_pairwise hi⟩, ?_⟩
    · intro b hb
      exact hhi b ((sort32_perm hi).mem_iff.1 hb)
    · intro a ha b hb
      have hax : a ≤ x := hlo a ((sort32_perm lo).mem_iff.1 ha)
      rcases List.mem_cons.1 hb with rfl | hb
      · exact hax
      · exact le32_trans hax (hhi b ((sort32_perm hi).mem_iff.1 hb))
  · refine (sort32_perm l).trans (hp.symm.trans ?_)
    exact ((sort32_perm lo).symm).append (((sort32_perm hi).symm).cons x)

/-- The selected element is the `k`-th smallest. -/
theorem SelectSpec.nth_eq {l : List UInt32} {k : Nat} {lo hi : List UInt32} {x : UInt32}
    (h : SelectSpec l k (lo, x, hi)) : x = (sort32 l).getD k 0 := by
  have hk : (sort32 lo).length = k := by rw [sort32_length]; exact h.2.1
  rw [h.sorted_eq, List.getD_eq_getElem?_getD, List.getElem?_append_right (by omega), hk,
    Nat.sub_self]
  rfl

theorem SelectSpec.lo_sorted_eq {l : List UInt32} {k : Nat} {lo hi : List UInt32} {x : UInt32}
    (h : SelectSpec l k (lo, x, hi)) : sort32 lo = (sort32 l).take k := by
  have hk : (sort32 lo).length = k := by rw [sort32_length]; exact h.2.1
  rw [h.sorted_eq, ← hk, List.take_left]

theorem SelectSpec.hi_sorted_eq {l : List UInt32} {k : Nat} {lo hi : List UInt32} {x : UInt32}
    (h : SelectSpec l k (lo, x, hi)) : sort32 hi = (sort32 l).drop (k + 1) := by
  have hk : (sort32 lo).length = k := by rw [sort32_length]; exact h.2.1
  have : sort32 lo ++ x :: sort32 hi = (sort32 lo ++ [x]) ++ sort32 hi := by simp
  rw [h.sorted_eq, this]
  have hk' : (sort32 lo ++ [x]).length = k + 1 := by simp [hk]
  rw [← hk', List.drop_left]

theorem SelectSpec.length_eq {l : List UInt32} {k : Nat} {lo hi : List UInt32} {x : UInt32}
    (h : SelectSpec l k (lo, x, hi)) : k + 1 + hi.length = l.length := by
  have := h.1.length_eq
  simp only [List.length_append, List.length_cons] at this
  have := h.2.1
  simp only at this
  omega

/-- The model's implementation (full sort, then split) meets the contract. -/
theorem selectNth_spec (l : List UInt32) (k : Nat) (hk : k < l.length) :
    SelectSpec l k (selectNth l k) := by
  unfold selectNth
  show SelectSpec l k ((sort32 l).take k, (sort32 l).getD k 0, (sort32 l).drop (k + 1))
  have hk' : k < (sort32 l).length := by rw [sort32_length]; exact hk
  have hget : (sort32 l).getD k 0 = (sort32 l)[k] := by
    rw [List.getD_eq_getElem?_getD, List.getElem?_eq_getElem hk', Option.getD_some]
  have hsplit : (sort32 l).take k ++ (sort32 l)[k] :: (sort32 l).drop (k + 1) = sort32 l := by
    rw [List.getElem_cons_drop, List.take_append_drop]
  have hpw := sort32_pairwise l
  rw [← hsplit, List.pairwise_append] at hpw
  refine ⟨?_, ?_, ?_, ?_⟩
  · show ((sort32 l).take k ++ (sort32 l).getD k 0 :: (sort32 l).drop (k + 1)).Perm l
    rw [hget, hsplit]; exact sort32_perm l
  · show ((sort32 l).take k).length = k
    rw [List.length_take]; omega
  · intro a ha
    show a ≤ (sort32 l).getD k 0
    rw [hget]
    exact hpw.2.2 a ha _ (List.mem_cons_self)
  · intro b hb
    show (sort32 l).getD k 0 ≤ b
    rw [hget]
    exact (List.pairwise_cons.1 hpw.2.1).1 b hb

/-! ### B3: the three nested selections give the quartiles -/

private theorem getD_eq_getElem32 {s : List UInt32} {k : Nat} (h : k < s.length) :
    s.getD k 0 = s[k] := by
  rw [List.getD_eq_getElem?_getD, List.getElem?_eq_getElem h, Option.getD_some]

/-- For *every* implementation of `select_nth_unstable` meeting its contract:
selecting position `n/2-1`, then position `n/4-1` in each side, yields the
specification's quartiles, in ascending order. -/
theorem quartiles_of_selectSpec {l l0 l1 a b c d : List UInt32} {q1 q2 q3 : UInt32} {n : Nat}
    (hn : l.length = n) (h4 : n % 4 = 0) (hge : n ≥ 4)
    (s2 : SelectSpec l (n / 2 - 1) (l0, q2, l1))
    (s1 : SelectSpec l0 (n / 4 - 1) (a, q1, b))
    (s3 : SelectSpec l1 (n / 4 - 1) (c, q3, d)) :
    (q1.toNat, q2.toNat, q3.toNat) = Spec.quartiles (l.map UInt32.toNat) ∧ q1 ≤ q2 ∧ q2 ≤ q3 := by
  have hlen : (sort32 l).length = n := by rw [sort32_length, hn]
  have e2 : q2 = (sort32 l).getD (n / 2 - 1) 0 := s2.nth_eq
  have e1 : q1 = (sort32 l).getD (n / 4 - 1) 0 := by
    rw [s1.nth_eq, s2.lo_sorted_eq, List.getD_eq_getElem?_getD, List.getD_eq_getElem?_getD,
      List.getElem?_take, if_pos (by omega)]
  have e3 : q3 = (sort32 l).getD (3 * n / 4 - 1) 0 := by
    rw [s3.nth_eq, s2.hi_sorted_eq, List.getD_eq_getElem?_getD, List.getD_eq_getElem?_getD,
      List.getElem?_drop]
    congr 2
    omega
  have i1 : n / 4 - 1 < (sort32 l).length := by omega
  have i2 : n / 2 - 1 < (sort32 l).length := by omega
  have i3 : 3 * n / 4 - 1 < (sort32 l).length := by omega
  refine ⟨?_, ?_, ?_⟩
  · unfold Spec.quartiles
    simp only [List.length_map, hn]
    rw [← mergeSort_map_toNat, getD_map_toNat, getD_map_toNat, getD_map_toNat, ← e1, ← e2, ← e3]
  · rw [e1, e2, getD_eq_getElem32 i1, getD_eq_getElem32 i2]
    by_cases h : n / 4 - 1 < n / 2 - 1
    · exact List.pairwise_iff_getElem.1 (sort32_pairwise l) _ _ i1 i2 h
    · omega
  · rw [e2, e3, getD_eq_getElem32 i2, getD_eq_getElem32 i3]
    exact List.pairwise_iff_getElem.1 (sort32_pairwise l) _ _ i2 i3 (by omega)

/-- B3 for the model's `selectNth`, in the shape used by `genFinalizeWith`. -/
theorem selectNth_quartiles (l : List UInt32) (n : Nat)
    (hn : l.length = n) (h4 : n % 4 = 0) (hge : n ≥ 4) :
    let r2 := selectNth l (n / 2 - 1)
    let r1 := selectNth r2.1 (n / 4 - 1)
    let r3 := selectNth r2.2.2 (n / 4 - 1)
    (r1.2.1.toNat, r2.2.1.toNat, r3.2.1.toNat) = Spec.quartiles (l.map UInt32.toNat) ∧
      r1.2.1 ≤ r2.2.1 ∧ r2.2.1 ≤ r3.2.1 := by
  intro r2 r1 r3
  have s2 : SelectSpec l (n / 2 - 1) r2 := selectNth_spec l _ (by omega)
  have hl0 : r2.1.length = n / 2 - 1 := s2.2.1
  have hl1 : n / 2 - 1 + 1 + r2.2.2.length = l.length :=
    SelectSpec.length_eq (lo := r2.1) (x := r2.2.1) (hi := r2.2.2) s2
  have s1 : SelectSpec r2.1 (n / 4 - 1) r1 := selectNth_spec _ _ (by omega)
  have s3 : SelectSpec r2.2.2 (n / 4 - 1) r3 := selectNth_spec _ _ (by omega)
  exact quartiles_of_selectSpec (l0 := r2.1) (l1 := r2.2.2) (q2 := r2.2.1)
    (a := r1.1) (q1 := r1.2.1) (b := r1.2.2) (c := r3.1) (q3 := r3.2.1) (d := r3.2.2)
    hn h4 hge s2 s1 s3

/-- The same, with the destructuring `let`s of `genFinalizeWith`. -/
theorem selectNth_quartiles_match (l : List UInt32) (n : Nat)
    (hn : l.length = n) (h4 : n % 4 = 0) (hge : n ≥ 4) :
    (match selectNth l (n / 2 - 1) with
      | (l0, q2, l1) =>
        match selectNth l0 (n / 4 - 1) with
        | (_, q1, _) =>
          match selectNth l1 (n / 4 - 1) with
          | (_, q3, _) => (q1.toNat, q2.toNat, q3.toNat)) = Spec.quartiles (l.map UInt32.toNat) :=
  (selectNth_quartiles l n hn h4 hge).1

end TlshVerif.Lemmas.Select
