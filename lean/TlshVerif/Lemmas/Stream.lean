/-
The read loop of `hash_stream_common` against the reader-script spec.
-/
import TlshVerif.Model.Easy
import TlshVerif.Spec.Api
import TlshVerif.Lemmas.Generate

namespace TlshVerif.Model

/-- A script within the `Read` contract: at most `BUFFER_SIZE` bytes per read, no misreporting. -/
def WellBehaved (script : List ReadEv) : Prop :=
  ∀ ev ∈ script, match ev with
    | .deliver bs => bs.length ≤ bufferSize
    | .lie _ => False
    | _ => True

def NoInterrupt (script : List ReadEv) : Prop := ∀ ev ∈ script, ev ≠ .interrupted

theorem wellBehaved_tail {ev : ReadEv} {rest : List ReadEv} (h : WellBehaved (ev :: rest)) : WellBehaved rest :=
  fun e he => h e (List.mem_cons_of_mem _ he)

/-- The loop (with `Interrupted` retried) started from the state that has seen `bs`:
the first hard error, or the state that has seen `bs ++ delivered`. -/
theorem hashStreamLoop_ideal (f : Acc → List UInt8 → Acc) (a0 : Acc) (u : Bool) (bs : List UInt8)
    (script : List ReadEv) (hw : WellBehaved script) :
    hashStreamLoop true (update f) u (ideal f a0 bs) script =
      match Spec.consume script with
      | .error k => Outcome.err (StreamErr.io k)
      | .ok d => Outcome.ok (ideal f a0 (bs ++ d)) := by
  induction script generalizing bs with
  | nil => simp [hashStreamLoop, Spec.consume]
  | cons ev rest ih =>
    have hr := wellBehaved_tail hw
    cases ev with
    | deliver d =>
      have hd : d.length ≤ bufferSize := hw (.deliver d) List.mem_cons_self
      simp only [hashStreamLoop, Spec.consume]
      by_cases he : d.isEmpty = true
      · simp [he]
      · have hn : ¬ d.length > bufferSize := by omega
        simp only [he, hn, if_false, Bool.false_eq_true]
        rw [update_ideal, ih _ hr]
        cases Spec.consume rest with
        | error k => rfl
        | ok more => simp [List.append_assoc]
    | interrupted =>
      simp only [hashStreamLoop, Spec.consume, if_true]
      exact ih _ hr
    | error k => simp [hashStreamLoop, Spec.consume]
    | lie n => exact absurd (hw (.lie n) List.mem_cons_self) (by simp)

/-- Without `Interrupted` events the retry flag is irrelevant. -/
theorem hashStreamLoop_noInterrupt (upd : GenState → List UInt8 → GenState) (u : Bool) (g : GenState)
    (script : List ReadEv) (hn : NoInterrupt script) :
    hashStreamLoop false upd u g script = hashStreamLoop true upd u g script := by
  induction script generalizing g with
  | nil => rfl
  | cons ev rest ih =>
    have hr : NoInterrupt rest := fun e he => hn e (List.mem_cons_of_mem _ he)
    cases ev with
    | deliver d =>
      simp only [hashStreamLoop]
      split
      · rfl
      · split
        · rfl
        · exact ih _ hr
    | interrupted => exact absurd rfl (hn .interrupted List.mem_cons_self)
    | error k => rfl
    | lie n =>
      simp only [hashStreamLoop]
      split
      · rfl
      · split
        · rfl
        · exact ih _ hr

/-- Finalising the state that has seen `d` with the default options is the reference hash of `d`. -/
theorem genFinalize_ideal_ref (cfg : Cfg) (v : Variant) (hv : v.Valid) (o : Options) (d : List UInt8) :
    genFinalize Ref.params cfg v (ideal (refStep cfg v) (initAcc cfg v) d) o = specOutcome (Spec.tlsh v o d) := by
  have := generate_ref_eq_spec cfg v hv o d
  unfold generate at this
  rw [genUpdate_init] at this
  exact this

end TlshVerif.Model
