/-
Every hash the reference algorithm can produce is strictly valid and well formed.
-/
import TlshVerif.Spec.Tlsh
import TlshVerif.Spec.Text
import TlshVerif.Lemmas.Windows
import TlshVerif.Theorems.C09

namespace TlshVerif.Model

theorem fold48_le : ∀ i : Fin 256, (Spec.fold48 (UInt8.ofNat i.val)).toNat ≤ 48 := by decide +kernel

theorem fold48_le' (x : UInt8) : (Spec.fold48 x).toNat ≤ 48 := by
  have := fold48_le ⟨x.toNat, UInt8.toNat_lt x⟩
  simpa using this

theorem checksumStep_length' (v : Variant) (ck w : List UInt8) :
    (Spec.checksumStep v ck w).length = ck.length := by
  unfold Spec.checksumStep
  split
  · split <;> simp_all
  · rfl

theorem checksum_length (v : Variant) (data : List UInt8) : (Spec.checksum v data).length = v.cksum := by
  unfold Spec.checksum
  generalize Spec.windows data = ws
  have : ∀ ck : List UInt8, (ws.foldl (Spec.checksumStep v) ck).length = ck.length := by
    induction ws with
    | nil => intro ck; rfl
    | cons w rest ih => intro ck; simp only [List.foldl_cons]; rw [ih, checksumStep_length']
  rw [this]; simp

theorem bmap_short_le (s x y z : UInt8) : (Spec.bmap Variant.short s x y z).toNat ≤ 48 := by
  unfold Spec.bmap
  have : Variant.short.buckets = 48 := rfl
  rw [if_pos this]
  exact fold48_le' _

/-- On the 48-bucket variant the first checksum byte never exceeds 48. -/
theorem checksumStep_head_le (ck w : List UInt8) (h : (ck.headD 0).toNat ≤ 48) :
    ((Spec.checksumStep Variant.short ck w).headD 0).toNat ≤ 48 := by
  unfold Spec.checksumStep
  split
  · split
    · rw [List.headD_cons]; exact bmap_short_le _ _ _ _
    · rw [List.headD_cons]; exact bmap_short_le _ _ _ _
    · exact h
  · exact h

theorem checksum_short_le (data : List UInt8) : ((Spec.checksum Variant.short data).headD 0).toNat ≤ 48 := by
  unfold Spec.checksum
  generalize Spec.windows data = ws
  have : ∀ ck : List UInt8, (ck.headD 0).toNat ≤ 48 →
      ((ws.foldl (Spec.checksumStep Variant.short) ck).headD 0).toNat ≤ 48 := by
    induction ws with
    | nil => intro ck h; exact h
    | cons w rest ih => intro ck h; simp only [List.foldl_cons]; exact ih _ (checksumStep_head_le ck w h)
  apply this
  decide

/-- Every hash produced by the reference algorithm is well formed, carries a
valid length code (< 170) and, on the 48-bucket variant, a checksum byte ≤ 48. -/
theorem spec_tlsh_valid (v : Variant) (hv : v.Valid) (o : Options) (data : List UInt8) (h : Hash)
    (hok : Spec.tlsh v o data = .ok h) :
    h.WF v ∧ Spec.checksumValid v h = true ∧ Spec.lengthValid h = true ∧
      h.lvalue.toNat = Spec.lengthCode data.length := by
  unfold Spec.tlsh at hok
  simp only [] at hok
  split at hok
  · cases hok
  · rename_i hmax
    split at hok
    · cases hok
    · split at hok
      · cases hok
      · split at hok
        · cases hok
        · cases hok
          have hn : data.length ≤ 4224281216 := by unfold Ref.maxLength at hmax; omega
          have hlt := Theorems.C09.lengthCode_lt_170 hn
          have hlv : (UInt8.ofNat (Spec.lengthCode data.length)).toNat = Spec.lengthCode data.length := by
            simp [UInt8.toNat_ofNat']; omega
          refine ⟨⟨checksum_length v data, by simp [Spec.body]⟩, ?_, ?_, hlv⟩
          · unfold Spec.checksumValid
            split
            · rename_i h48
              have : v = Variant.short := by
                simp only [Variant.Valid, Variant.all, List.mem_cons, List.not_mem_nil, or_false] at hv
                rcases hv with rfl | rfl | rfl | rfl | rfl <;> simp_all [Variant.normal, Variant.normalLong, Variant.long, Variant.longLong, Variant.short]
              subst this
              simpa using checksum_short_le data
            · rfl
          · unfold Spec.lengthValid
            simp only [hlv, decide_eq_true_eq]
            exact hlt

end TlshVerif.Model
