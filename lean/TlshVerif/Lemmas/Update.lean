/-
Backbone refinement: `update f (ideal f a0 bs) d = ideal f a0 (bs ++ d)`.
Everything about chunking, histories, 4 GiB saturation and the reported length
(C01, C03, C11, C12) is a corollary.
-/
import TlshVerif.Model.Core

namespace TlshVerif.Model

variable {α : Type}

theorem tailSize_eq : tailSize = 4 := rfl
theorem maxLen_eq : maxLen = 2 ^ 32 - 4 := by decide

theorem loop_append (f : α → List UInt8 → α) (regs d1 d2 : List UInt8) (a : α) :
    loop f regs (d1 ++ d2) a = loop f (loop f regs d1 a).1 d2 (loop f regs d1 a).2 := by
  simp [loop, List.foldl_append]

theorem loop_nil (f : α → List UInt8 → α) (regs : List UInt8) (a : α) :
    loop f regs [] a = (regs, a) := rfl

theorem loop_regs (f : α → List UInt8 → α) (regs data : List UInt8) (a : α)
    (h : regs.length = 4) : (loop f regs data a).1 = (regs ++ data).drop data.length := by
  induction data generalizing regs a with
  | nil => simp [loop]
  | cons b rest ih =>
    have h' : (regs.drop 1 ++ [b]).length = 4 := by simp [h]
    have := ih (regs.drop 1 ++ [b]) (f a (regs ++ [b])) h'
    simp only [loop, List.foldl_cons, step] at this ⊢
    rw [this]
    match regs, h with
    | [r0, r1, r2, r3], _ => simp

theorem tail_rewrite (regs data : List UInt8) (h : regs.length = 4) :
    (if data.length ≥ 4 then data.drop (data.length - 4) else regs.drop data.length ++ data)
      = (regs ++ data).drop data.length := by
  split
  · rw [List.drop_append]; simp [h]; omega
  · rw [List.drop_append]
    have : data.length - regs.length = 0 := by omega
    simp [this]

/-- Steps 2–5 in closed form: only `maxLen - len` more bytes are consumed. -/
theorem updateFull_eq (f : α → List UInt8 → α) (tail : List UInt8) (len : Nat) (acc : α)
    (data : List UInt8) (h : tail.length = 4) :
    updateFull f tail len acc data =
      { tail := (tail ++ data.take (maxLen - len)).drop (data.take (maxLen - len)).length
      , len := len + (data.take (maxLen - len)).length
      , acc := (loop f tail (data.take (maxLen - len)) acc).2 } := by
  unfold updateFull
  by_cases hl : len ≥ maxLen
  · have z : maxLen - len = 0 := by omega
    simp [hl, z, loop_nil]
  · simp only [hl, if_false]
    have hm : maxLen - len ≤ 2 ^ 32 - 4 := by rw [maxLen_eq]; omega
    by_cases hd : data.length ≤ maxLen - len
    · have e1 : min data.length (2 ^ 32 - 1) = data.length := by omega
      have nt : ¬ (data.length > maxLen - len) := by omega
      have tk : data.take (maxLen - len) = data := List.take_of_length_le hd
      simp only [e1, nt, if_false, tk, tailSize_eq]
      rw [tail_rewrite _ _ h]
    · have t : min data.length (2 ^ 32 - 1) > maxLen - len := by omega
      have tl : (data.take (maxLen - len)).length = maxLen - len := by
        rw [List.length_take]; omega
      simp only [t, if_true, tailSize_eq]
      rw [tail_rewrite _ _ h, tl]

/-- `ideal` without the 2³² cut. -/
def idealRaw (f : α → List UInt8 → α) (a0 : α) (e : List UInt8) : St α :=
  { tail := e.drop (e.length - 4), len := e.length - 4
  , acc := (loop f (e.take 4) (e.drop 4) a0).2 }

theorem ideal_eq_raw (f : α → List UInt8 → α) (a0 : α) (bs : List UInt8) :
    ideal f a0 bs = idealRaw f a0 (bs.take (2 ^ 32)) := rfl

theorem idealRaw_short (f : α → List UInt8 → α) (a0 : α) (e : List UInt8) (h : e.length ≤ 4) :
    idealRaw f a0 e = { tail := e, len := 0, acc := a0 } := by
  have e1 : e.length - 4 = 0 := by omega
  have e3 : e.drop 4 = [] := List.drop_eq_nil_of_le h
  simp [idealRaw, e1, e3, loop]

/-- Feeding `d` (with `|e| + |d| ≤ 2³²`) to the state after `e`. -/
theorem update_idealRaw (f : α → List UInt8 → α) (a0 : α) (e d : List UInt8)
    (hb : e.length ≤ 2 ^ 32) :
    update f (idealRaw f a0 e) d = idealRaw f a0 (e ++ d.take (2 ^ 32 - e.length)) := by
  by_cases hlt : e.length < 4
  · rw [idealRaw_short f a0 e (by omega)]
    unfold update
    simp only [tailSize_eq, hlt, if_true]
    by_cases hd : d.length ≤ 4 - e.length
    · simp only [hd, if_true]
      have tk : d.take (2 ^ 32 - e.length) = d := List.take_of_length_le (by omega)
      rw [tk, idealRaw_short f a0 (e ++ d) (by simp; omega)]
    · simp only [hd, if_false]
      have h4 : (e ++ d.take (4 - e.length)).length = 4 := by
        simp [List.length_take]; omega
      rw [updateFull_eq f _ _ _ _ h4]
      have ml : maxLen - 0 = 2 ^ 32 - 4 := by rw [maxLen_eq]
      rw [ml]
      -- E := e ++ d.take (2^32 - |e|)
      have t4 : (e ++ d.take (2 ^ 32 - e.length)).take 4 = e ++ d.take (4 - e.length) := by
        rw [List.take_append]
        have : e.take 4 = e := List.take_of_length_le (by omega)
        rw [this, List.take_take]
        congr 2
        omega
      have d4 : (e ++ d.take (2 ^ 32 - e.length)).drop 4
          = (d.drop (4 - e.length)).take (2 ^ 32 - 4) := by
        rw [List.drop_append]
        have : e.drop 4 = [] := List.drop_eq_nil_of_le (by omega)
        rw [this, List.nil_append, List.drop_take]
        congr 1
        omega
      simp only [idealRaw]
      rw [t4, d4]
      have hl : ((d.drop (4 - e.length)).take (2 ^ 32 - 4)).length + 4
          = (e ++ d.take (2 ^ 32 - e.length)).length := by
        simp only [List.length_take, List.length_drop, List.length_append]; omega
      congr 1
      · -- tail
        have : e ++ d.take (4 - e.length) ++ (d.drop (4 - e.length)).take (2 ^ 32 - 4)
            = e ++ d.take (2 ^ 32 - e.length) := by
          rw [← t4, ← d4, List.take_append_drop]
        rw [this]
        congr 1
        omega
      · omega
  · -- tail is full
    have hb4 : 4 ≤ e.length := by omega
    have tl : (idealRaw f a0 e).tail.length = 4 := by
      simp only [idealRaw, List.length_drop]; omega
    unfold update
    have nlt : ¬ (idealRaw f a0 e).tail.length < tailSize := by rw [tl, tailSize_eq]; omega
    simp only [nlt, if_false]
    rw [updateFull_eq f _ _ _ _ tl]
    simp only [idealRaw]
    have ml : maxLen - (e.length - 4) = 2 ^ 32 - e.length := by rw [maxLen_eq]; omega
    rw [ml]
    generalize hd' : d.take (2 ^ 32 - e.length) = d'
    have t4 : (e ++ d').take 4 = e.take 4 := by rw [List.take_append]; simp; omega
    have z : 4 - e.length = 0 := by omega
    have d4 : (e ++ d').drop 4 = e.drop 4 ++ d' := by rw [List.drop_append, z]; simp
    have r4 : (e.take 4).length = 4 := by simp; omega
    have regs := loop_regs f (e.take 4) (e.drop 4) a0 r4
    rw [List.take_append_drop] at regs
    have ee : e.drop (e.drop 4).length = e.drop (e.length - 4) := by
      simp only [List.length_drop]
    rw [ee] at regs
    rw [t4, d4, loop_append, regs]
    congr 1
    · rw [List.drop_append, List.drop_append, List.drop_drop]
      have i1 : e.length - 4 + d'.length = e.length + d'.length - 4 := by omega
      have i2 : d'.length - (e.drop (e.length - 4)).length
          = e.length + d'.length - 4 - e.length := by
        simp only [List.length_drop]; omega
      rw [i1, i2]
      simp only [List.length_append]
    · simp only [List.length_append]; omega

/-- **Backbone.**  Feeding `d` to a generator that has seen `bs` leaves it in
the state of a generator that has seen `bs ++ d` — for every `bs`, `d`,
including across and beyond the 4 GiB boundary. -/
theorem update_ideal (f : α → List UInt8 → α) (a0 : α) (bs d : List UInt8) :
    update f (ideal f a0 bs) d = ideal f a0 (bs ++ d) := by
  rw [ideal_eq_raw, ideal_eq_raw]
  have hb : (bs.take (2 ^ 32)).length ≤ 2 ^ 32 := by simp [List.length_take]; omega
  rw [update_idealRaw f a0 _ d hb]
  congr 1
  rw [List.take_append]
  congr 2
  simp only [List.length_take]
  omega

theorem ideal_nil (f : α → List UInt8 → α) (a0 : α) : ideal f a0 [] = init a0 := by
  simp [ideal, init, loop, tailSize_eq]

/-- Any sequence of `update` calls equals one call with the concatenation. -/
theorem foldl_update_ideal (f : α → List UInt8 → α) (a0 : α) (bs : List UInt8)
    (ps : List (List UInt8)) :
    ps.foldl (update f) (ideal f a0 bs) = ideal f a0 (bs ++ ps.flatten) := by
  induction ps generalizing bs with
  | nil => simp
  | cons p ps ih =>
    simp only [List.foldl_cons, List.flatten_cons]
    rw [update_ideal, ih, List.append_assoc]

theorem processedLen_ideal (f : α → List UInt8 → α) (a0 : α) (bs : List UInt8) :
    processedLen (ideal f a0 bs) = if bs.length < 2 ^ 32 then some bs.length else none := by
  simp only [processedLen, ideal, tailSize_eq, List.length_drop, List.length_take]
  have : min (2 ^ 32) bs.length - 4 + (min (2 ^ 32) bs.length - (min (2 ^ 32) bs.length - 4))
      = min (2 ^ 32) bs.length := by omega
  rw [this]
  by_cases h : bs.length < 2 ^ 32
  · have : min (2 ^ 32) bs.length = bs.length := by omega
    simp [h, this]
  · have : min (2 ^ 32) bs.length = 2 ^ 32 := by omega
    simp [h, this]

end TlshVerif.Model
