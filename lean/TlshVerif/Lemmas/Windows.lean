/-
The register loop of `update` visits exactly the 5-byte windows of the input.
-/
import TlshVerif.Lemmas.Update
import TlshVerif.Spec.Tlsh

namespace TlshVerif.Model

variable {α : Type}

theorem windows_short (l : List UInt8) (h : l.length < 5) : Spec.windows l = [] := by
  cases l with
  | nil => rfl
  | cons b rest =>
    simp only [Spec.windows]
    have : ¬ rest.length ≥ 4 := by simp at h; omega
    simp [this]

theorem windows_cons (b : UInt8) (rest : List UInt8) (h : rest.length ≥ 4) :
    Spec.windows (b :: rest) = (b :: rest.take 4) :: Spec.windows rest := by
  simp [Spec.windows, h]

theorem windows_length (l : List UInt8) : ∀ w ∈ Spec.windows l, w.length = 5 := by
  induction l with
  | nil => simp [Spec.windows]
  | cons b rest ih =>
    intro w hw
    by_cases h : rest.length ≥ 4
    · rw [windows_cons b rest h] at hw
      rcases List.mem_cons.mp hw with rfl | hw
      · simp [List.length_take]; omega
      · exact ih w hw
    · have : Spec.windows (b :: rest) = [] := by simp [Spec.windows, h]
      rw [this] at hw; cases hw

/-- The loop over `data` with registers `regs` folds `f` over the windows of `regs ++ data`. -/
theorem loop_windows (f : α → List UInt8 → α) (regs data : List UInt8) (a : α) (h : regs.length = 4) :
    (loop f regs data a).2 = (Spec.windows (regs ++ data)).foldl f a := by
  induction data generalizing regs a with
  | nil =>
    rw [List.append_nil, windows_short regs (by omega)]
    rfl
  | cons b rest ih =>
    match regs, h with
    | [r0, r1, r2, r3], _ =>
      have h' : ([r0, r1, r2, r3].drop 1 ++ [b]).length = 4 := by simp
      have := ih ([r0, r1, r2, r3].drop 1 ++ [b]) (f a ([r0, r1, r2, r3] ++ [b])) h'
      simp only [loop, List.foldl_cons, step] at this ⊢
      rw [this]
      have hw : Spec.windows ([r0, r1, r2, r3] ++ b :: rest)
          = [r0, r1, r2, r3, b] :: Spec.windows ([r1, r2, r3] ++ b :: rest) := by
        have : [r0, r1, r2, r3] ++ b :: rest = r0 :: (r1 :: r2 :: r3 :: b :: rest) := rfl
        rw [this, windows_cons _ _ (by simp)]
        rfl
      rw [hw]
      simp

/-- The accumulator of the ideal state is the fold over all windows of the
(first 2³² bytes of the) input. -/
theorem ideal_acc (f : α → List UInt8 → α) (a0 : α) (bs : List UInt8) :
    (ideal f a0 bs).acc = (Spec.windows (bs.take (2 ^ 32))).foldl f a0 := by
  simp only [ideal, tailSize_eq]
  generalize bs.take (2 ^ 32) = e
  by_cases h : e.length < 4
  · have e3 : e.drop 4 = [] := List.drop_eq_nil_of_le (by omega)
    rw [e3, windows_short e (by omega)]
    rfl
  · have r4 : (e.take 4).length = 4 := by simp; omega
    rw [loop_windows f _ _ a0 r4, List.take_append_drop]

/-- One `update` from the initial state. -/
theorem update_init (f : α → List UInt8 → α) (a0 : α) (data : List UInt8) :
    update f (init a0) data = ideal f a0 data := by
  rw [← ideal_nil f a0, update_ideal]; simp

end TlshVerif.Model
