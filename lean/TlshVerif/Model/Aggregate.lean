/-
MODEL — the x86 bucket-aggregation back ends, built from the *generated*
kernels (`Gen.sse2SubAggregation`, `Gen.ssse3SubAggregation`,
`Gen.avx2SubAggregation`) and the chunk loops of
generate/bucket_aggregation/x86_*.rs.
-/
import TlshVerif.Model.Generator
import TlshVerif.Gen.Kernels

namespace TlshVerif.Model

/-- SSE2: four buckets per output byte; chunk `c` goes to byte `len-1-c`.
`u0`, `u1` are the contents of the two `_mm_undefined_si128()` registers. -/
def aggregateSse2 (u0 u1 : M128) (b : List UInt32) (q1 q2 q3 : UInt32) : List UInt8 :=
  ((chunksExact 4 b).map (fun c => Gen.sse2SubAggregation c q1 q2 q3 u0 u1)).reverse

def aggregateSsse3 (b : List UInt32) (q1 q2 q3 : UInt32) : List UInt8 :=
  ((chunksExact 4 b).map (fun c => Gen.ssse3SubAggregation c q1 q2 q3)).reverse

/-- AVX2: eight buckets per pair of output bytes (`out.chunks_mut(2).rev()`),
`(out[0], out[1]) = (high lane, low lane)`. -/
def aggregateAvx2 (b : List UInt32) (q1 q2 q3 : UInt32) : List UInt8 :=
  ((chunksExact 8 b).map (fun c => Gen.avx2SubAggregation c q1 q2 q3)).reverse.flatMap (fun p => [p.1, p.2])

/-- The aggregation function selected by the build / the run-time dispatcher. -/
def aggregateWith (be : AggBackend) (u0 u1 : M128) : List UInt32 → UInt32 → UInt32 → UInt32 → List UInt8 :=
  match be with
  | .naive => aggregateNaive
  | .sse2 => aggregateSse2 u0 u1
  | .ssse3 => aggregateSsse3
  | .avx2 => aggregateAvx2

/-- `finalize_with_options` with the configured aggregation back end. -/
def genFinalizeCfg (u0 u1 : M128) (P : GenParams) (cfg : Cfg) (v : Variant) (s : GenState) (o : Options) :
    Outcome GenError Hash :=
  genFinalizeWith (aggregateWith cfg.aggBackend u0 u1) P cfg v s o

end TlshVerif.Model
