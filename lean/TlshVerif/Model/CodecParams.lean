/- Gen / Ref instances of the codec parameters. -/
import TlshVerif.Model.Codec
import TlshVerif.Model.Params
import TlshVerif.Gen.Codec

namespace TlshVerif

def Gen.codecRaw : Model.CodecRaw :=
  { nibble := Gen.hexUpperNibbleTable, revLo16 := Gen.hexRevTableLo16, revLo8 := Gen.hexRevTableLo8
  , invalid16 := Gen.hexInvalid16, invalid8 := Gen.hexInvalid8
  , digitArms := Gen.decodeDigitArms, digitDefault := Gen.decodeDigitDefault
  , hashPrefix := Gen.hashPrefix, prefixLen := Gen.prefixLenInSizes }

/-- Reference decode table: value of the digit, or `inv`. -/
def Ref.revTable (inv : Nat) : List Nat :=
  (List.range 256).map (fun c =>
    if 48 ≤ c ∧ c ≤ 57 then c - 48 else if 65 ≤ c ∧ c ≤ 70 then c - 55
    else if 97 ≤ c ∧ c ≤ 102 then c - 87 else inv)

def Ref.codecRaw : Model.CodecRaw :=
  { nibble := [48, 49, 50, 51, 52, 53, 54, 55, 56, 57, 65, 66, 67, 68, 69, 70]
  , revLo16 := Ref.revTable 256, revLo8 := Ref.revTable 255
  , invalid16 := 256, invalid8 := 255
  , digitArms := [(48, 57, 48, 0), (65, 70, 65, 10), (97, 102, 97, 10)], digitDefault := 255
  , hashPrefix := [84, 49], prefixLen := 2 }

def Gen.codec : Model.CodecParams := Model.CodecParams.mk' Gen.codecRaw
def Ref.codec : Model.CodecParams := Model.CodecParams.mk' Ref.codecRaw

def Gen.strict : Model.StrictConsts :=
  { shortChecksumMax := Gen.shortChecksumMax, encodedValueSize := Gen.encodedValueSize }
def Ref.strict : Model.StrictConsts := { shortChecksumMax := 48, encodedValueSize := 170 }

end TlshVerif
