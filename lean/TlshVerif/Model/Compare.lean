/-
MODEL — comparison (compare/*.rs, hash.rs `compare_with_config`, `max_distance`).

Constants come in through `CompareRaw` (translator); the word-level and SIMD
body-distance kernels are the *generated* definitions in `Gen/Kernels.lean`.
-/
import TlshVerif.Basic
import TlshVerif.Model.Intrinsics
import TlshVerif.Gen.Kernels
import TlshVerif.Gen.Compare

namespace TlshVerif.Model

structure CompareRaw where
  bodyOutlier : Nat
  maxBody : List (Nat × Nat)
  lengthMult : Nat
  maxLength : Nat
  qratioMult : Nat
  maxQRatios : Nat
  ringModuli : Nat × Nat × Nat
  lengthRule : Nat × Nat
  lengthTableThreshold : Nat
  qratioRule : Nat × Nat
deriving DecidableEq, Repr

inductive DistBackend | pseudo32 | pseudo64 | sse2 | sse41 | avx2
deriving DecidableEq, Repr, Inhabited
inductive QTable | none | single | double
deriving DecidableEq, Repr, Inhabited

structure CompareCfg where
  body : DistBackend := .pseudo64
  lengthTable : Bool := false
  qratioTable : QTable := .none
deriving DecidableEq, Repr, Inhabited

/-- `distance_on_ring_mod(x, y, n)` with `u8` wrapping arithmetic (`n = 0` means 256). -/
def ringDist (x y n : UInt8) : UInt8 :=
  let dl := if x ≥ y then x - y else x + n - y
  let dr := if x ≥ y then y + n - x else y - x
  if dl ≤ dr then dl else dr

def scale (rule : Nat × Nat) (mult d : Nat) : Nat := if d ≤ rule.1 then d else (d - rule.2) * mult

/-- `dist_length::naive::distance`. -/
def distLengthNaive (P : CompareRaw) (l1 l2 : UInt8) : Nat :=
  scale P.lengthRule P.lengthMult (ringDist l1 l2 (UInt8.ofNat P.ringModuli.1)).toNat

/-- `LDIST_VALUE[i]` (const-evaluated, `u16`). -/
def ldistEntry (P : CompareRaw) (i : UInt8) : Nat :=
  let d := (ringDist 0 i (UInt8.ofNat P.ringModuli.2.1)).toNat
  (if d ≤ P.lengthTableThreshold then d else d * P.lengthMult) % 65536

/-- `dist_length::distance`. -/
def distLength (P : CompareRaw) (c : CompareCfg) (l1 l2 : UInt8) : Nat :=
  if c.lengthTable then ldistEntry P (l1 - l2) else distLengthNaive P l1 l2

/-- `dist_qratios::naive::sub_distance`. -/
def qsub (P : CompareRaw) (x y : UInt8) : Nat :=
  scale P.qratioRule P.qratioMult (ringDist x y (UInt8.ofNat P.ringModuli.2.2)).toNat

/-- `dist_qratios::naive::distance`. -/
def distQNaive (P : CompareRaw) (a b : UInt8) : Nat :=
  qsub P (a &&& 0x0f) (b &&& 0x0f) + qsub P (a >>> 4) (b >>> 4)

/-- `dist_qratios::distance`: the tables are `u8`-typed, so entries are taken mod 256. -/
def distQ (P : CompareRaw) (c : CompareCfg) (a b : UInt8) : Nat :=
  match c.qratioTable with
  | .double => distQNaive P b a % 256        -- QDIST_VALUE_2[a][b] = naive::distance(x = b, y = a) as u8
  | .single => qsub P (b &&& 0x0f) (a &&& 0x0f) % 256 + qsub P (b >>> 4) (a >>> 4) % 256
  | .none => distQNaive P a b

/-- `distance_1` / `distance_3`. -/
def distChecksum : List UInt8 → List UInt8 → Nat
  | a :: as, b :: bs => (if a ≠ b then 1 else 0) + distChecksum as bs
  | _, _ => 0

def le32 (b : List UInt8) : UInt32 := u32OfBytes (b.getD 0 0) (b.getD 1 0) (b.getD 2 0) (b.getD 3 0)
def le64 (b : List UInt8) : UInt64 := (le32 b).toUInt64 ||| ((le32 (b.drop 4)).toUInt64 <<< 32)

/-- `pseudo_simd_32::distance_N`: sum over 4-byte chunks (`from_ne_bytes` on a little-endian target). -/
def pseudo32Distance : List UInt8 → List UInt8 → UInt32
  | a0 :: a1 :: a2 :: a3 :: as, b0 :: b1 :: b2 :: b3 :: bs =>
    Gen.pseudo32SubDistance (u32OfBytes a0 a1 a2 a3) (u32OfBytes b0 b1 b2 b3) + pseudo32Distance as bs
  | _, _ => 0

/-- `pseudo_simd_64::distance_32/64`: sum over 8-byte chunks. -/
def pseudo64Distance (a b : List UInt8) : UInt32 :=
  if h : 8 ≤ a.length ∧ 8 ≤ b.length then
    Gen.pseudo64SubDistance (le64 a) (le64 b) + pseudo64Distance (a.drop 8) (b.drop 8)
  else 0
termination_by a.length
decreasing_by
  obtain ⟨h1, _⟩ := h
  simp only [List.length_drop]; omega

/-- `pseudo_simd_64::distance_12`: one 64-bit word and one 32-bit word. -/
def pseudo64Distance12 (a b : List UInt8) : UInt32 :=
  Gen.pseudo64SubDistance (le64 a) (le64 b) + Gen.pseudo32SubDistance (le32 (a.drop 8)) (le32 (b.drop 8))

/-- Body distance of variant `v` through back end `be`
(`distance_12` always uses the pseudo-SIMD code; `usize::BITS = 64`). -/
def distBodyWith (be : DistBackend) (v : Variant) (a b : List UInt8) : UInt32 :=
  if v.buckets = 48 then
    match be with
    | .pseudo32 => pseudo32Distance a b
    | _ => pseudo64Distance12 a b
  else if v.buckets = 128 then
    match be with
    | .pseudo32 => pseudo32Distance a b
    | .pseudo64 => pseudo64Distance a b
    | .sse2 => Gen.sse2Distance32 a b
    | .sse41 => Gen.sse41Distance32 a b
    | .avx2 => Gen.avx2Distance32 a b
  else
    match be with
    | .pseudo32 => pseudo32Distance a b
    | .pseudo64 => pseudo64Distance a b
    | .sse2 => Gen.sse2Distance64 a b
    | .sse41 => Gen.sse41Distance64 a b
    | .avx2 => Gen.avx2Distance64 a b

/-- `compare_with_config`. -/
def compareHashes (P : CompareRaw) (c : CompareCfg) (v : Variant) (a b : Hash) (noLength : Bool) : Nat :=
  (distBodyWith c.body v a.body b.body).toNat + distChecksum a.checksum b.checksum +
    distQ P c a.qratios b.qratios + (if noLength then 0 else distLength P c a.lvalue b.lvalue)

/-- `max_distance(config)`. -/
def maxDistance (P : CompareRaw) (v : Variant) (noLength : Bool) : Nat :=
  (match P.maxBody.find? (fun e => e.1 = v.buckets) with | some e => e.2 | none => 0) +
    v.cksum + P.maxQRatios + (if noLength then 0 else P.maxLength)

end TlshVerif.Model

namespace TlshVerif

def Gen.compareRaw : Model.CompareRaw :=
  { bodyOutlier := Gen.bodyOutlierValue, maxBody := Gen.maxDistanceBody, lengthMult := Gen.lengthMult
  , maxLength := Gen.maxDistanceLength, qratioMult := Gen.qratioMult, maxQRatios := Gen.maxDistanceQRatios
  , ringModuli := Gen.ringModuli, lengthRule := Gen.lengthRule
  , lengthTableThreshold := Gen.lengthTableThreshold, qratioRule := Gen.qratioRule }

def Ref.compareRaw : Model.CompareRaw :=
  { bodyOutlier := 6, maxBody := [(48, 288), (128, 768), (256, 1536)], lengthMult := 12
  , maxLength := 1536, qratioMult := 12, maxQRatios := 168
  , ringModuli := (0, 0, 16), lengthRule := (1, 0), lengthTableThreshold := 1, qratioRule := (1, 1) }

end TlshVerif
