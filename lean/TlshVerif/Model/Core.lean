/-
MODEL — the incremental window loop of `inner::Generator::update`, generic in
the accumulator (`buckets` + `checksum` in the instance).

Literal shape of the Rust (generate.rs `update`):
  1. fill `tail` (up to 4 bytes); return if the data is used up
  2. if `len ≥ MAX_LEN` return                     (4 GiB already processed)
  3. `data_len = min(|data|, u32::MAX)`; truncate to `MAX_LEN - len` if larger
  4. `len += data_len`; run the 5-byte window over `tail ++ data`
  5. `tail :=` last 4 bytes (full overwrite, or shift-and-write for < 4 bytes)

`tail` holds only the valid part (`tail[..tail_len]`), so `tail_len = tail.length`.
-/
import TlshVerif.Basic

namespace TlshVerif.Model

/-- Generator state, generic in the accumulator. -/
structure St (α : Type) where
  tail : List UInt8
  len : Nat
  acc : α
deriving Repr

/-- `TAIL_SIZE = WINDOW_SIZE - 1`. -/
def tailSize : Nat := 4

/-- `MAX_LEN = u32::MAX - (TAIL_SIZE - 1)`. -/
def maxLen : Nat := 2 ^ 32 - 1 - (tailSize - 1)

/-- One iteration of `for &b4 in data`: accumulate the window `regs ++ [b4]`,
then shift the registers. -/
def step {α} (f : α → List UInt8 → α) (p : List UInt8 × α) (b : UInt8) : List UInt8 × α :=
  (p.1.drop 1 ++ [b], f p.2 (p.1 ++ [b]))

def loop {α} (f : α → List UInt8 → α) (regs : List UInt8) (data : List UInt8) (a : α) :
    List UInt8 × α :=
  data.foldl (step f) (regs, a)

/-- Steps 2–5, entered with a full `tail`. -/
def updateFull {α} (f : α → List UInt8 → α) (tail : List UInt8) (len : Nat) (acc : α)
    (data : List UInt8) : St α :=
  if len ≥ maxLen then { tail := tail, len := len, acc := acc }
  else
    let dataLen0 := min data.length (2 ^ 32 - 1)
    let trunc := dataLen0 > maxLen - len
    let dataLen := if trunc then maxLen - len else dataLen0
    let data := if trunc then data.take dataLen else data
    let r := loop f tail data acc
    let tail' :=
      if data.length ≥ tailSize then data.drop (data.length - tailSize)
      else tail.drop data.length ++ data
    { tail := tail', len := len + dataLen, acc := r.2 }

/-- `update(&mut self, data)`. -/
def update {α} (f : α → List UInt8 → α) (s : St α) (data : List UInt8) : St α :=
  if s.tail.length < tailSize then
    let remaining := tailSize - s.tail.length
    if data.length ≤ remaining then { s with tail := s.tail ++ data }
    else updateFull f (s.tail ++ data.take remaining) s.len s.acc (data.drop remaining)
  else updateFull f s.tail s.len s.acc data

/-- `processed_len()`: `len.checked_add(tail_len)`. -/
def processedLen {α} (s : St α) : Option Nat :=
  if s.len + s.tail.length < 2 ^ 32 then some (s.len + s.tail.length) else none

/-- `Default::default()`. -/
def init {α} (a0 : α) : St α := { tail := [], len := 0, acc := a0 }

/-- The state a generator is in after having been fed `bs` in any way: only
the first 2³² bytes count. -/
def ideal {α} (f : α → List UInt8 → α) (a0 : α) (bs : List UInt8) : St α :=
  let e := bs.take (2 ^ 32)
  { tail := e.drop (e.length - tailSize)
  , len := e.length - tailSize
  , acc := (loop f (e.take tailSize) (e.drop tailSize) a0).2 }

/-! ### A piece of `n` zero bytes in closed form (`len`, `tail` only)

Used by the model driver for real slices of 4 GiB and more; `Lemmas/HugePiece.lean` proves
`update (fun _ _ => ()) s (List.replicate n 0) = updateZeros s n`. -/

/-- Steps 2–5 on `n` zero bytes, entered with a full tail. -/
def updateFullZeros (tail : List UInt8) (len : Nat) (n : Nat) : St Unit :=
  let k := min n (maxLen - len)
  { tail := if k ≥ 4 then [0, 0, 0, 0] else tail.drop k ++ List.replicate k 0
  , len := len + k
  , acc := () }

/-- `update` on `n` zero bytes. -/
def updateZeros (s : St Unit) (n : Nat) : St Unit :=
  if s.tail.length < tailSize then
    let remaining := tailSize - s.tail.length
    if n ≤ remaining then { s with tail := s.tail ++ List.replicate n 0 }
    else updateFullZeros (s.tail ++ List.replicate remaining 0) s.len (n - remaining)
  else updateFullZeros s.tail s.len n

end TlshVerif.Model
