/-
MODEL — convenience functions (generate_easy.rs, generate_easy_std.rs,
compare_easy.rs).  A reader is a *script* of `Read::read` results.
-/
import TlshVerif.Model.Generator
import TlshVerif.Model.Codec
import TlshVerif.Model.Compare

namespace TlshVerif.Model

/-- One result of `reader.read(&mut buffer)`. -/
inductive ReadEv where
  /-- `Ok(bytes.len())` after writing `bytes` into the buffer (`Ok(0)` = end of stream) -/
  | deliver (bytes : List UInt8)
  /-- `Err(ErrorKind::Interrupted)` -/
  | interrupted
  /-- any other `Err(kind)` -/
  | error (kind : String)
  /-- contract violation: returns `Ok(n)` without regard to the buffer size -/
  | lie (n : Nat)
deriving Repr, DecidableEq

/-- `BUFFER_SIZE` -/
def bufferSize : Nat := 1048576

inductive StreamErr where
  | gen (e : GenError)
  | io (kind : String)
deriving Repr, DecidableEq

/-- `hash_stream_common`.  After the script is exhausted the reader reports
end of stream.  `retryInterrupted` = the code retries `ErrorKind::Interrupted`
(true after the fix; the pinned code propagated it with `?`). -/
def hashStreamLoop (retryInterrupted : Bool) (upd : GenState → List UInt8 → GenState) (unsafe_ : Bool)
    (g : GenState) : List ReadEv → Outcome StreamErr GenState
  | [] => .ok g
  | .deliver bs :: rest =>
    if bs.isEmpty then .ok g
    else if bs.length > bufferSize then
      -- a reader cannot deliver more than the buffer holds; such a script is a `lie`
      (if unsafe_ then .ub "generate_easy_std.rs: invariant!(len <= buffer.len()) is false"
       else .panic "generate_easy_std.rs: slice end index out of range")
    else hashStreamLoop retryInterrupted upd unsafe_ (upd g bs) rest
  | .interrupted :: rest =>
    if retryInterrupted then hashStreamLoop retryInterrupted upd unsafe_ g rest
    else .err (.io "Interrupted")
  | .error k :: _ => .err (.io k)
  | .lie n :: rest =>
    if n = 0 then .ok g
    else if n > bufferSize then
      (if unsafe_ then .ub "generate_easy_std.rs: invariant!(len <= buffer.len()) is false"
       else .panic "generate_easy_std.rs: slice end index out of range")
    else
      -- within bounds: the stale buffer content is hashed (zeros on the first call); not modelled further
      hashStreamLoop retryInterrupted upd unsafe_ (upd g (List.replicate n 0)) rest

/-- Default `GeneratorOptions`. -/
def defaultOptions : Options :=
  { conservative := false, pureInt := false, allowSmall := false, allowHalf := false, allowQuarter := false }

def hashStream (retryInterrupted : Bool) (P : GenParams) (cfg : Cfg) (v : Variant) (script : List ReadEv) :
    Outcome StreamErr Hash :=
  match hashStreamLoop retryInterrupted (genUpdate P cfg v) cfg.unsafe_ (genInit cfg v) script with
  | .ok g =>
    match genFinalize P cfg v g defaultOptions with
    | .ok h => .ok h
    | .err e => .err (.gen e)
    | .panic w => .panic w
    | .ub w => .ub w
  | .err e => .err e
  | .panic w => .panic w
  | .ub w => .ub w

/-- `hash_buf_for`. -/
def hashBuf (P : GenParams) (cfg : Cfg) (v : Variant) (data : List UInt8) : Outcome GenError Hash :=
  generate P cfg v defaultOptions data

inductive Side | left | right
deriving Repr, DecidableEq

/-- `compare_with::<T>(lhs, rhs)` on the UTF-8 bytes of the two strings. -/
def compareWith (CP : CodecParams) (S : StrictConsts) (cc : CodecCfg) (DP : CompareRaw) (dc : CompareCfg)
    (v : Variant) (l r : List UInt8) : Outcome (Side × ParseError) Nat :=
  match fromStrBytes CP S cc v l none with
  | .err e => .err (.left, e)
  | .panic w => .panic w
  | .ub w => .ub w
  | .ok a =>
    match fromStrBytes CP S cc v r none with
    | .err e => .err (.right, e)
    | .panic w => .panic w
    | .ub w => .ub w
    | .ok b => .ok (compareHashes DP dc v a b false)

end TlshVerif.Model
