/-
Reachability on the extracted call graph (C18): a set of nodes that contains
the roots and is closed under call edges contains everything reachable.
-/
namespace TlshVerif.Model

/-- `Reaches g r k`: `k` is reachable from `r` along call edges of `g`. -/
inductive Reaches (g : List (List Nat)) : Nat → Nat → Prop
  | refl (i : Nat) : Reaches g i i
  | step {i j k : Nat} : Reaches g i j → k ∈ g.getD j [] → Reaches g i k

/-- `c` is closed under the edges of `g` (decidable, kernel-cheap). -/
def closedSet (g : List (List Nat)) (c : List Nat) : Bool :=
  c.all (fun j => (g.getD j []).all (fun k => c.contains k))

theorem closedSet_contains_reachable (g : List (List Nat)) (c : List Nat) (hc : closedSet g c = true)
    (r k : Nat) (hr : r ∈ c) (h : Reaches g r k) : k ∈ c := by
  induction h with
  | refl => exact hr
  | step _ hk ih =>
    unfold closedSet at hc
    rw [List.all_eq_true] at hc
    have := hc _ ih
    rw [List.all_eq_true] at this
    have := this _ hk
    simpa using this

end TlshVerif.Model
