/-
MODEL — executable transcription of the generator (generate.rs, buckets.rs,
pearson.rs, hash/checksum.rs, length.rs `FuzzyHashLengthEncoding::new`,
generate/bucket_aggregation.rs `naive`).

Everything that is *data* in the Rust source (tables, salts, byte pairings,
thresholds, flag bits) comes in through `RawParams`, which the translator
regenerates from /repo on every run (`Gen.rawParams`) and which also exists as a
frozen reference (`Ref.rawParams`).  Theorems are proved for the model at
`Ref.rawParams`; `Gen.rawParams = Ref.rawParams` is a separate `decide`
obligation (Theorems/C01.lean).
-/
import TlshVerif.Basic
import TlshVerif.F32
import TlshVerif.Model.Core

namespace TlshVerif.Model

/-- Extracted constants, in list form (decidable equality by `decide`). -/
structure RawParams where
  pearson : List Nat
  pearsonInit : Nat
  fold48 : Nat × Nat × Nat
  pairings : List (Nat × Nat × Nat × Nat)
  checksumArgs : Nat × Nat
  registerShift : List Nat
  checksumSteps1 : List (Nat × Nat × Nat)
  checksumSteps3 : List (Nat × Nat × Nat)
  bucketMapping : List (Nat × Nat)
  bucketInfo : List (Nat × Nat × Nat)
  thresholds : List (Nat × Nat × Nat)
  topval : List Nat
  maxLength : Nat
  encodedValueSize : Nat
  qratioConsts : Nat × Nat × Nat × Nat
  selectArgs : List (String × Nat × Nat)
  windowSize : Nat
  shortChecksumMax : Nat
  variants : List (String × Nat × Nat)
  optionFlagBits : List (String × Nat)
deriving DecidableEq, Repr

/-- Build configuration: which `cfg_if!` branch the compiled code took. -/
inductive AggBackend | naive | sse2 | ssse3 | avx2
deriving DecidableEq, Repr, Inhabited

structure Cfg where
  lowMemBuckets : Bool := false
  pearsonDouble : Bool := true
  aggBackend : AggBackend := .naive
  unsafe_ : Bool := false
  debugAssertions : Bool := false
  strict : Bool := false
deriving DecidableEq, Repr, Inhabited

def leadingZeros32 (n : Nat) : Nat := if n = 0 then 32 else 31 - Nat.log2 n

/-- `ENCODED_INDICES_BY_LEADING_ZEROS` (const-evaluated in Rust). -/
def encodedIndicesByLZ (topval : List Nat) : Array Nat :=
  (List.range topval.length).foldl
    (fun arr i => arr.setIfInBounds (leadingZeros32 (topval.getD i 0)) (i + 1))
    (Array.replicate 33 0)

/-- Constants in the form the hot loop wants them. -/
structure GenParams where
  raw : RawParams
  pearson : Array UInt8
  /-- `SUBST_TABLE_48` (const-evaluated in Rust). -/
  pearson48 : Array UInt8
  pearsonInit : UInt8
  topval : Array Nat
  lzIndex : Array Nat

def fold48Byte (fc : Nat × Nat × Nat) (x : UInt8) : UInt8 :=
  if x.toNat ≥ fc.1 then UInt8.ofNat fc.2.1 else UInt8.ofNat (x.toNat % fc.2.2)

def GenParams.mk' (r : RawParams) : GenParams :=
  let p : Array UInt8 := (r.pearson.map UInt8.ofNat).toArray
  { raw := r
  , pearson := p
  , pearson48 := p.map (fold48Byte r.fold48)
  , pearsonInit := UInt8.ofNat r.pearsonInit
  , topval := r.topval.toArray
  , lzIndex := encodedIndicesByLZ r.topval }

/-- Per-variant resolved parameters. -/
structure VParams where
  v : Variant
  use48 : Bool
  constrained : Bool
  minNonzero : Nat
  minLen : Nat
  minLenConservative : Nat
  checksumSteps : List (Nat × Nat × Nat)
deriving Repr

def lookup3 (l : List (Nat × Nat × Nat)) (k : Nat) : Nat × Nat :=
  match l.find? (fun e => e.1 = k) with
  | some e => e.2
  | none => (0, 0)

def lookup2 (l : List (Nat × Nat)) (k : Nat) : Nat :=
  match l.find? (fun e => e.1 = k) with
  | some e => e.2
  | none => 0

def vparams (P : GenParams) (v : Variant) : VParams :=
  let bi := lookup3 P.raw.bucketInfo v.buckets
  let th := lookup3 P.raw.thresholds v.buckets
  { v := v
  , use48 := lookup2 P.raw.bucketMapping v.buckets = 48
  , constrained := bi.2 = 1
  , minNonzero := bi.1
  , minLen := th.1
  , minLenConservative := th.2
  , checksumSteps := if v.cksum = 1 then P.raw.checksumSteps1 else P.raw.checksumSteps3 }

/-! ### Pearson hashing and the bucket mapping (pearson.rs) -/

def pearsonUpdate (P : GenParams) (s x : UInt8) : UInt8 := P.pearson[(s ^^^ x).toNat]!
def pearsonInitWith (P : GenParams) (x : UInt8) : UInt8 := pearsonUpdate P P.pearsonInit x
/-- `update_double`: with `opt-pearson-table-double` this is one lookup in
`SUBST_TABLE_DOUBLE[b2][state ^ b1]`, a table *defined* as
`SUBST_TABLE[SUBST_TABLE[b1'] ^ b2]`; the compiled table is compared entry by
entry with this formula by the correspondence harness. -/
def updateDouble (P : GenParams) (s b1 b2 : UInt8) : UInt8 :=
  pearsonUpdate P (pearsonUpdate P s b1) b2
def final256 (P : GenParams) (s x : UInt8) : UInt8 := pearsonUpdate P s x
def final48 (P : GenParams) (s x : UInt8) : UInt8 := P.pearson48[(s ^^^ x).toNat]!

def bMapping256 (P : GenParams) (b0 b1 b2 b3 : UInt8) : UInt8 :=
  final256 P (updateDouble P (pearsonInitWith P b0) b1 b2) b3
def bMapping48 (P : GenParams) (b0 b1 b2 b3 : UInt8) : UInt8 :=
  final48 P (updateDouble P (pearsonInitWith P b0) b1 b2) b3
def bMapping (P : GenParams) (vp : VParams) (b0 b1 b2 b3 : UInt8) : UInt8 :=
  if vp.use48 then bMapping48 P b0 b1 b2 b3 else bMapping256 P b0 b1 b2 b3

/-! ### Accumulator: checksum and buckets -/

/-- checksum bytes × physical bucket array. -/
abbrev Acc := List UInt8 × Array UInt32

/-- `InnerChecksum::update(curr, prev)`. -/
def checksumUpdate (P : GenParams) (vp : VParams) (ck : List UInt8) (curr prev : UInt8) :
    List UInt8 :=
  vp.checksumSteps.foldl
    (fun ck st =>
      let seed := if st.2.2 ≥ 1000 then ck.getD (st.2.2 - 1000) 0 else UInt8.ofNat st.2.2
      let old := ck.getD st.1 0
      let nv := if st.2.1 = 0 then bMapping P vp seed curr prev old
                else bMapping256 P seed curr prev old
      ck.set st.1 nv)
    ck

/-- `FuzzyHashBucketsData::increment`. -/
def increment (cfg : Cfg) (vp : VParams) (bk : Array UInt32) (idx : UInt8) : Array UInt32 :=
  if cfg.lowMemBuckets && !vp.constrained && idx.toNat ≥ vp.v.buckets then bk
  else bk.modify idx.toNat (· + 1)

/-- Body of `for &b4 in data { … }` for the window `w = [b0,b1,b2,b3,b4]`. -/
def accStep (P : GenParams) (cfg : Cfg) (vp : VParams) (a : Acc) (w : List UInt8) : Acc :=
  let ck := checksumUpdate P vp a.1 (w.getD P.raw.checksumArgs.1 0) (w.getD P.raw.checksumArgs.2 0)
  let bk := P.raw.pairings.foldl
    (fun bk pr =>
      increment cfg vp bk
        (bMapping P vp (UInt8.ofNat pr.1) (w.getD pr.2.1 0) (w.getD pr.2.2.1 0) (w.getD pr.2.2.2 0)))
    a.2
  (ck, bk)

abbrev GenState := St Acc

def physBuckets (cfg : Cfg) (v : Variant) : Nat := if cfg.lowMemBuckets then v.buckets else 256

def initAcc (cfg : Cfg) (v : Variant) : Acc :=
  (List.replicate v.cksum 0, Array.replicate (physBuckets cfg v) 0)

def genInit (cfg : Cfg) (v : Variant) : GenState := init (initAcc cfg v)

def genUpdate (P : GenParams) (cfg : Cfg) (v : Variant) (s : GenState) (data : List UInt8) :
    GenState :=
  update (accStep P cfg (vparams P v)) s data

/-- `FuzzyHashBucketsData::data()`: the first `SIZE_BUCKETS` counters. -/
def bucketData (v : Variant) (s : GenState) : List UInt32 := (s.acc.2.toList).take v.buckets

/-! ### Length encoding (length.rs) -/

/-- `slice.binary_search(&len)` on a strictly increasing slice, `Ok(i) | Err(i) ↦ i`:
by the documented contract this is the first index whose element is `≥ len`. -/
def binarySearchPos (slice : List Nat) (len : Nat) : Nat := slice.findIdx (fun t => decide (len ≤ t))

/-- `FuzzyHashLengthEncoding::new(len)` on x86: CLZ-narrowed binary search.
`len` is a `u32` (callers pass `< 2^32`). -/
def encodeLength (P : GenParams) (cfg : Cfg) (len : Nat) : Outcome Unit (Option Nat) :=
  if len = 0 then .ok (some 0)
  else if len > P.raw.maxLength then .ok none
  else
    let clz := leadingZeros32 len
    match P.lzIndex[clz + 1]?, P.lzIndex[clz]? with
    | some bottom, some top =>
      let n := P.topval.size
      if ¬ (bottom ≤ n ∧ top ≤ n ∧ bottom ≤ top) then
        if cfg.unsafe_ then .ub "length.rs: invariant!(bottom/top) is false"
        else .panic "length.rs: slice index out of range"
      else
        .ok (some ((bottom + binarySearchPos ((P.topval.toList.take top).drop bottom) len) % 256))
    | _, _ => .panic "length.rs: ENCODED_INDICES_BY_LEADING_ZEROS index out of range"

/-! ### Finalisation (generate.rs `finalize_with_options`) -/

inductive Validity | tooSmall | validWhenOptimistic | valid | tooLarge
deriving DecidableEq, Repr

/-- `DataLengthValidity::new::<SIZE_BUCKETS>(len)`. -/
def validity (P : GenParams) (vp : VParams) (len : Nat) : Validity :=
  if len < vp.minLen then .tooSmall
  else if len < vp.minLenConservative then .validWhenOptimistic
  else if len ≤ P.raw.maxLength then .valid
  else .tooLarge

/-- `DataLengthValidity::is_err_on(mode)`. -/
def Validity.isErrOn (x : Validity) (conservative : Bool) : Bool :=
  match x with
  | .tooLarge | .tooSmall => true
  | .valid => false
  | .validWhenOptimistic => conservative

/-- `slice.select_nth_unstable(k)`, one admissible implementation (full sort). -/
def selectNth (l : List UInt32) (k : Nat) : List UInt32 × UInt32 × List UInt32 :=
  let s := l.mergeSort (fun x y => decide (x ≤ y))
  (s.take k, s.getD k 0, s.drop (k + 1))

/-- `naive::get_quartile`. -/
def getQuartile (value q1 q2 q3 : UInt32) : UInt8 :=
  if value > q3 then 3 else if value > q2 then 2 else if value > q1 then 1 else 0

/-- `slice.chunks_exact(n)` (remainder dropped). -/
def chunksExact {α : Type} (n : Nat) (l : List α) : List (List α) :=
  if h : 0 < n ∧ n ≤ l.length then l.take n :: chunksExact n (l.drop n) else []
termination_by l.length
decreasing_by
  obtain ⟨h1, h2⟩ := h
  simp only [List.length_drop]; omega

/-- `naive::aggregate_*`: chunk `c` of four buckets becomes output byte `len-1-c`. -/
def aggregateNaive (b : List UInt32) (q1 q2 q3 : UInt32) : List UInt8 :=
  ((chunksExact 4 b).map
    (fun c => c.reverse.foldl (fun x bv => (x <<< 2) ||| getQuartile bv q1 q2 q3) (0 : UInt8))).reverse

def qratio (P : GenParams) (o : Options) (q q3 : UInt32) : UInt8 :=
  let c := P.raw.qratioConsts
  if o.pureInt then UInt8.ofNat ((q.toNat * c.1 / q3.toNat) % c.2.1)
  else UInt8.ofNat (F32.ratio c.2.2.1 c.2.2.2 q.toNat q3.toNat)

/-- The data-length gate at the top of `finalize_with_options`. -/
def lengthGate (val : Validity) (o : Options) : Option GenError :=
  if val.isErrOn o.conservative then
    match val with
    | .tooLarge => some .tooLarge
    | _ => if o.allowSmall then none else some .tooSmall
  else none

/-- The three `select_nth_unstable` calls: `(q1, q2, q3)`. -/
def selectQuartiles (buckets : List UInt32) (n : Nat) : UInt32 × UInt32 × UInt32 :=
  let r2 := selectNth buckets (n / 2 - 1)
  let r1 := selectNth r2.1 (n / 4 - 1)
  let r3 := selectNth r2.2.2 (n / 4 - 1)
  (r1.2.1, r2.2.1, r3.2.1)

/-- The two data-distribution gates (three-quarter-empty first, then half-empty). -/
def distributionGate (q3 : UInt32) (nonzero minNonzero : Nat) (o : Options) : Option GenError :=
  if q3 = 0 ∧ o.allowQuarter = false then some .threeQuarterEmpty
  else if nonzero < minNonzero ∧ o.allowHalf = false ∧ o.allowQuarter = false then some .halfEmpty
  else none

/-- `(q1, q2, q3) = (1, 1, 1)` when `q3 == 0` (forced output). -/
def adjustQuartiles (q : UInt32 × UInt32 × UInt32) : UInt32 × UInt32 × UInt32 :=
  if q.2.2 = 0 then (1, 1, 1) else q

/-- Everything after the length gate and the length encoding. -/
def finalizeCore (agg : List UInt32 → UInt32 → UInt32 → UInt32 → List UInt8)
    (P : GenParams) (cfg : Cfg) (v : Variant) (s : GenState) (o : Options) (lvalue : Nat) :
    Outcome GenError Hash :=
  let vp := vparams P v
  let buckets := bucketData v s
  let nonzero := buckets.countP (· ≠ 0)
  let q0 := selectQuartiles buckets v.buckets
  match distributionGate q0.2.2 nonzero vp.minNonzero o with
  | some e => .err e
  | none =>
    let q := adjustQuartiles q0
    let q1r := qratio P o q.1 q.2.2
    let q2r := qratio P o q.2.1 q.2.2
    if cfg.debugAssertions ∧ ¬ (q.1 ≤ q.2.1 ∧ q.2.1 ≤ q.2.2) then
      .panic "bucket_aggregation.rs: debug_assert!(q1 <= q2 <= q3)"
    else
      .ok { checksum := s.acc.1
          , lvalue := UInt8.ofNat lvalue
          , qratios := (q1r &&& (0x0f : UInt8)) ||| ((q2r &&& (0x0f : UInt8)) <<< (4 : UInt8))
          , body := agg buckets q.1 q.2.1 q.2.2 }

/-- The length handed to the validity check: `processed_len().unwrap_or(u32::MAX)`. -/
def finLen (s : GenState) : Nat := (processedLen s).getD (2 ^ 32 - 1)

/-- `FuzzyHashLengthEncoding::new(len).unwrap()` followed by the rest of the function. -/
def encodeThen (r : Outcome Unit (Option Nat)) (k : Nat → Outcome GenError Hash) : Outcome GenError Hash :=
  match r with
  | .panic w => .panic w
  | .ub w => .ub w
  | .err _ => .panic "unreachable"
  | .ok none => .panic "generate.rs: FuzzyHashLengthEncoding::new(len).unwrap() on None"
  | .ok (some lvalue) => k lvalue

/-- `finalize_with_options`, with the aggregation back end as a parameter. -/
def genFinalizeWith (agg : List UInt32 → UInt32 → UInt32 → UInt32 → List UInt8)
    (P : GenParams) (cfg : Cfg) (v : Variant) (s : GenState) (o : Options) :
    Outcome GenError Hash :=
  match lengthGate (validity P (vparams P v) (finLen s)) o with
  | some e => .err e
  | none => encodeThen (encodeLength P cfg (finLen s)) (finalizeCore agg P cfg v s o)

def genFinalize (P : GenParams) (cfg : Cfg) (v : Variant) (s : GenState) (o : Options) :
    Outcome GenError Hash :=
  genFinalizeWith aggregateNaive P cfg v s o

/-- One-shot: `new(); update(data); finalize_with_options(o)`. -/
def generate (P : GenParams) (cfg : Cfg) (v : Variant) (o : Options) (data : List UInt8) :
    Outcome GenError Hash :=
  genFinalize P cfg v (genUpdate P cfg v (genInit cfg v) data) o

end TlshVerif.Model
