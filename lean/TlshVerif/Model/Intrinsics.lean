/-
Hand-written lane semantics of the x86 intrinsics used by fast-tlsh
(trusted; validated against the CPU by the correspondence harness, which calls
every compiled back end through the hooks).

A `__m128i` is four 32-bit lanes (`l0` = bits 0–31), a `__m256i` two `__m128i`
halves (`lo` = bits 0–127).  16-bit and 8-bit operations are written on the
32-bit lanes with explicit masks so that word-level reasoning (bv_decide) sees
plain fixed-width arithmetic.
-/
namespace TlshVerif.Model

structure M128 where
  l0 : UInt32
  l1 : UInt32
  l2 : UInt32
  l3 : UInt32
deriving DecidableEq, Repr, Inhabited

structure M256 where
  lo : M128
  hi : M128
deriving DecidableEq, Repr, Inhabited

namespace M128
@[inline] def map (f : UInt32 → UInt32) (a : M128) : M128 := ⟨f a.l0, f a.l1, f a.l2, f a.l3⟩
@[inline] def map2 (f : UInt32 → UInt32 → UInt32) (a b : M128) : M128 :=
  ⟨f a.l0 b.l0, f a.l1 b.l1, f a.l2 b.l2, f a.l3 b.l3⟩
def lane (a : M128) (i : Nat) : UInt32 :=
  match i % 4 with
  | 0 => a.l0 | 1 => a.l1 | 2 => a.l2 | _ => a.l3
def splat (x : UInt32) : M128 := ⟨x, x, x, x⟩
end M128

namespace M256
@[inline] def map (f : UInt32 → UInt32) (a : M256) : M256 := ⟨a.lo.map f, a.hi.map f⟩
@[inline] def map2 (f : UInt32 → UInt32 → UInt32) (a b : M256) : M256 :=
  ⟨M128.map2 f a.lo b.lo, M128.map2 f a.hi b.hi⟩
def splat (x : UInt32) : M256 := ⟨M128.splat x, M128.splat x⟩
def lane (a : M256) (i : Nat) : UInt32 := if i % 8 < 4 then a.lo.lane i else a.hi.lane i
end M256

/-! ### scalar helpers on one 32-bit lane -/

/-- per-16-bit-half logical left shift -/
def slli16 (k : UInt32) (x : UInt32) : UInt32 :=
  let m : UInt32 := 0xffff
  let s : UInt32 := 16
  (((x &&& m) <<< k) &&& m) ||| ((((x >>> s) <<< k) &&& m) <<< s)
/-- per-16-bit-half logical right shift -/
def srli16 (k : UInt32) (x : UInt32) : UInt32 :=
  let m : UInt32 := 0xffff
  let s : UInt32 := 16
  ((x &&& m) >>> k) ||| (((x >>> s) >>> k) <<< s)
/-- per-16-bit-half wrapping addition -/
def add16 (x y : UInt32) : UInt32 :=
  let m : UInt32 := 0xffff
  let s : UInt32 := 16
  (((x &&& m) + (y &&& m)) &&& m) ||| ((((x >>> s) + (y >>> s)) &&& m) <<< s)
/-- signed `>` on 32-bit lanes: all ones or zero -/
def cmpgt32 (x y : UInt32) : UInt32 :=
  if (x ^^^ 0x80000000) > (y ^^^ 0x80000000) then 0xffffffff else 0
/-- byte `i` (0 = least significant) of a lane -/
def byteOf (x : UInt32) (i : Nat) : UInt8 := (x >>> (UInt32.ofNat (8 * (i % 4)))).toUInt8

/-! ### SSE2 / SSSE3 / SSE4.1 -/

def mm_set1_epi8 (v : UInt8) : M128 := M128.splat (v.toUInt32 * 0x01010101)
def mm_set1_epi16 (v : UInt16) : M128 := M128.splat (v.toUInt32 * 0x00010001)
def mm_set1_epi32 (v : UInt32) : M128 := M128.splat v
def mm_and_si128 (a b : M128) : M128 := M128.map2 (· &&& ·) a b
def mm_or_si128 (a b : M128) : M128 := M128.map2 (· ||| ·) a b
def mm_xor_si128 (a b : M128) : M128 := M128.map2 (· ^^^ ·) a b
def mm_add_epi32 (a b : M128) : M128 := M128.map2 (· + ·) a b
def mm_sub_epi32 (a b : M128) : M128 := M128.map2 (· - ·) a b
def mm_mullo_epi32 (a b : M128) : M128 := M128.map2 (· * ·) a b
def mm_slli_epi32 (k : UInt32) (a : M128) : M128 := a.map (fun x => if k < 32 then x <<< k else 0)
def mm_srli_epi32 (k : UInt32) (a : M128) : M128 := a.map (fun x => if k < 32 then x >>> k else 0)
def mm_slli_epi16 (k : UInt32) (a : M128) : M128 := a.map (fun x => if k < 16 then slli16 k x else 0)
def mm_srli_epi16 (k : UInt32) (a : M128) : M128 := a.map (fun x => if k < 16 then srli16 k x else 0)
def mm_add_epi16 (a b : M128) : M128 := M128.map2 add16 a b
def mm_cmpgt_epi32 (a b : M128) : M128 := M128.map2 cmpgt32 a b
/-- `_mm_shuffle_epi32::<imm>`: lane `i` of the result is lane `(imm >> 2i) & 3` of `a`. -/
def mm_shuffle_epi32 (imm : Nat) (a : M128) : M128 :=
  ⟨a.lane (imm % 4), a.lane (imm / 4 % 4), a.lane (imm / 16 % 4), a.lane (imm / 64 % 4)⟩
def mm_cvtsi128_si32 (a : M128) : UInt32 := a.l0

/-- bytes of a vector, least significant first -/
def M128.bytes (a : M128) : List UInt8 :=
  [byteOf a.l0 0, byteOf a.l0 1, byteOf a.l0 2, byteOf a.l0 3,
   byteOf a.l1 0, byteOf a.l1 1, byteOf a.l1 2, byteOf a.l1 3,
   byteOf a.l2 0, byteOf a.l2 1, byteOf a.l2 2, byteOf a.l2 3,
   byteOf a.l3 0, byteOf a.l3 1, byteOf a.l3 2, byteOf a.l3 3]

def u32OfBytes (b0 b1 b2 b3 : UInt8) : UInt32 :=
  b0.toUInt32 ||| (b1.toUInt32 <<< 8) ||| (b2.toUInt32 <<< 16) ||| (b3.toUInt32 <<< 24)

def M128.ofBytes (b : List UInt8) : M128 :=
  let g (i : Nat) : UInt8 := b.getD i 0
  ⟨u32OfBytes (g 0) (g 1) (g 2) (g 3), u32OfBytes (g 4) (g 5) (g 6) (g 7),
   u32OfBytes (g 8) (g 9) (g 10) (g 11), u32OfBytes (g 12) (g 13) (g 14) (g 15)⟩

/-- `_mm_set_epi8(e15, …, e0)`: arguments are given most significant first. -/
def mm_set_epi8 (args : List UInt8) : M128 := M128.ofBytes args.reverse

/-- `_mm_movemask_epi8`: bit `i` = top bit of byte `i`. -/
def mm_movemask_epi8 (a : M128) : UInt32 :=
  (a.bytes.zipIdx.foldl (fun acc (p : UInt8 × Nat) =>
    acc ||| (if p.1 ≥ 128 then ((1 : UInt32) <<< UInt32.ofNat p.2) else 0)) 0)

/-- `_mm_shuffle_epi8(a, m)`: byte `i` = 0 if `m[i]` has its top bit set, else `a[m[i] & 15]`. -/
def mm_shuffle_epi8 (a m : M128) : M128 :=
  let ab := a.bytes
  M128.ofBytes (m.bytes.map (fun k => if k ≥ 128 then 0 else ab.getD (k.toNat % 16) 0))

/-- signed saturation of a 16-bit lane (given as the low 16 bits of `x`) to a signed byte -/
def packs16 (x : UInt32) : UInt8 :=
  let v := x &&& 0xffff
  if v < 0x8000 then (if v > 127 then 127 else v.toUInt8)       -- non-negative
  else (if v < 0xff80 then 0x80 else v.toUInt8)                   -- negative: clamp at −128

/-- `_mm_packs_epi16(a, b)`: eight words of `a` then eight words of `b`, each saturated to i8. -/
def mm_packs_epi16 (a b : M128) : M128 :=
  let w (v : M128) : List UInt8 :=
    [packs16 v.l0, packs16 (v.l0 >>> 16), packs16 v.l1, packs16 (v.l1 >>> 16),
     packs16 v.l2, packs16 (v.l2 >>> 16), packs16 v.l3, packs16 (v.l3 >>> 16)]
  M128.ofBytes (w a ++ w b)

/-- `_mm_loadu_si128` of 16 bytes at byte offset `16 * idx` of a byte array. -/
def load128 (bytes : List UInt8) (idx : Nat) : M128 := M128.ofBytes (bytes.drop (16 * idx))
/-- `_mm_loadu_si128` of four consecutive `u32`. -/
def load128u32 (xs : List UInt32) : M128 := ⟨xs.getD 0 0, xs.getD 1 0, xs.getD 2 0, xs.getD 3 0⟩

/-! ### AVX2 (two independent 128-bit halves for every operation used here) -/

def mm256_set1_epi8 (v : UInt8) : M256 := ⟨mm_set1_epi8 v, mm_set1_epi8 v⟩
def mm256_set1_epi32 (v : UInt32) : M256 := ⟨mm_set1_epi32 v, mm_set1_epi32 v⟩
def mm256_and_si256 (a b : M256) : M256 := ⟨mm_and_si128 a.lo b.lo, mm_and_si128 a.hi b.hi⟩
def mm256_or_si256 (a b : M256) : M256 := ⟨mm_or_si128 a.lo b.lo, mm_or_si128 a.hi b.hi⟩
def mm256_xor_si256 (a b : M256) : M256 := ⟨mm_xor_si128 a.lo b.lo, mm_xor_si128 a.hi b.hi⟩
def mm256_add_epi32 (a b : M256) : M256 := ⟨mm_add_epi32 a.lo b.lo, mm_add_epi32 a.hi b.hi⟩
def mm256_sub_epi32 (a b : M256) : M256 := ⟨mm_sub_epi32 a.lo b.lo, mm_sub_epi32 a.hi b.hi⟩
def mm256_mullo_epi32 (a b : M256) : M256 := ⟨mm_mullo_epi32 a.lo b.lo, mm_mullo_epi32 a.hi b.hi⟩
def mm256_slli_epi32 (k : UInt32) (a : M256) : M256 := ⟨mm_slli_epi32 k a.lo, mm_slli_epi32 k a.hi⟩
def mm256_srli_epi32 (k : UInt32) (a : M256) : M256 := ⟨mm_srli_epi32 k a.lo, mm_srli_epi32 k a.hi⟩
def mm256_cmpgt_epi32 (a b : M256) : M256 := ⟨mm_cmpgt_epi32 a.lo b.lo, mm_cmpgt_epi32 a.hi b.hi⟩
/-- in-lane shuffle: the same immediate applied to both halves -/
def mm256_shuffle_epi32 (imm : Nat) (a : M256) : M256 := ⟨mm_shuffle_epi32 imm a.lo, mm_shuffle_epi32 imm a.hi⟩
/-- in-lane byte shuffle -/
def mm256_shuffle_epi8 (a m : M256) : M256 := ⟨mm_shuffle_epi8 a.lo m.lo, mm_shuffle_epi8 a.hi m.hi⟩
def mm256_movemask_epi8 (a : M256) : UInt32 := mm_movemask_epi8 a.lo ||| (mm_movemask_epi8 a.hi <<< 16)
def mm256_extract_epi32 (i : Nat) (a : M256) : UInt32 := a.lane i
/-- `_mm256_set_epi8(e31, …, e0)` -/
def mm256_set_epi8 (args : List UInt8) : M256 :=
  let r := args.reverse
  ⟨M128.ofBytes (r.take 16), M128.ofBytes (r.drop 16)⟩
def load256 (bytes : List UInt8) (idx : Nat) : M256 :=
  ⟨M128.ofBytes (bytes.drop (32 * idx)), M128.ofBytes (bytes.drop (32 * idx + 16))⟩
def load256u32 (xs : List UInt32) : M256 := ⟨load128u32 xs, load128u32 (xs.drop 4)⟩

end TlshVerif.Model
