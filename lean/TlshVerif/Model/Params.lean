/-
The two instances of `RawParams`: `Gen.rawParams` (regenerated from /repo on
every run) and `Ref.rawParams` (frozen reference).
-/
import TlshVerif.Model.Generator
import TlshVerif.Gen.Generator
import TlshVerif.Ref.Tables

namespace TlshVerif

def Gen.rawParams : Model.RawParams :=
  { pearson := Gen.substTable
  , pearsonInit := Gen.pearsonInitialState
  , fold48 := Gen.fold48
  , pairings := Gen.pairings
  , checksumArgs := Gen.checksumArgs
  , registerShift := Gen.registerShift
  , checksumSteps1 := Gen.checksumSteps1
  , checksumSteps3 := Gen.checksumSteps3
  , bucketMapping := Gen.bucketMapping
  , bucketInfo := Gen.bucketInfo
  , thresholds := Gen.lengthThresholds
  , topval := Gen.topValue
  , maxLength := Gen.maxLength
  , encodedValueSize := Gen.encodedValueSize
  , qratioConsts := Gen.qratioConsts
  , selectArgs := Gen.selectArgs
  , windowSize := Gen.windowSize
  , shortChecksumMax := Gen.shortChecksumMax
  , variants := Gen.variants
  , optionFlagBits := Gen.optionFlagBits }

def Ref.rawParams : Model.RawParams :=
  { pearson := Ref.pearsonTable
  , pearsonInit := 0
  , fold48 := Ref.fold48
  , pairings := Ref.triplets
  , checksumArgs := Ref.checksumArgs
  , registerShift := [1, 2, 3, 4]
  , checksumSteps1 := Ref.checksumSteps1
  , checksumSteps3 := Ref.checksumSteps3
  , bucketMapping := Ref.bucketMapping
  , bucketInfo := Ref.bucketInfo
  , thresholds := Ref.thresholds
  , topval := Ref.topval
  , maxLength := Ref.maxLength
  , encodedValueSize := 170
  , qratioConsts := Ref.qratioConsts
  , selectArgs := Ref.selectArgs
  , windowSize := 5
  , shortChecksumMax := 48
  , variants := Ref.variants
  , optionFlagBits := Ref.optionFlagBits }

/-- Parameters of the current source tree. -/
def Gen.params : Model.GenParams := Model.GenParams.mk' Gen.rawParams
/-- Reference parameters. -/
def Ref.params : Model.GenParams := Model.GenParams.mk' Ref.rawParams

end TlshVerif
