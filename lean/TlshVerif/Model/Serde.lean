/-
MODEL — serde `Serialize` / `Deserialize` impls of hash.rs.

A deserializer is modelled by the single `Visitor` event it delivers.  serde's
default `Visitor` methods (trusted contract): `visit_borrowed_str` and
`visit_string` forward to `visit_str`; `visit_borrowed_bytes` and
`visit_byte_buf` forward to `visit_bytes`; every other `visit_*` that the
visitor does not override returns `Err(invalid_type)`.
-/
import TlshVerif.Model.Codec

namespace TlshVerif.Model

inductive SerdeEv where
  /-- `visit_str` / `visit_borrowed_str` / `visit_string` with these UTF-8 bytes -/
  | str (s : List UInt8)
  /-- `visit_bytes` / `visit_borrowed_bytes` / `visit_byte_buf` -/
  | bytes (b : List UInt8)
  /-- any other event (bool, integers, floats, char, unit, none, some, newtype, seq, map, enum) -/
  | other
deriving Repr, DecidableEq

/-- What `serialize` hands to the serializer. -/
inductive SerOut where
  | str (s : List UInt8)
  | bytes (b : List UInt8)
deriving Repr, DecidableEq

/-- `Serialize::serialize`: the text form for human-readable formats, the binary form otherwise.
(The two `unwrap()`s are on `store_into_*` with a buffer of exactly the advertised size.) -/
def serialize (CP : CodecParams) (cc : CodecCfg) (h : Hash) (humanReadable : Bool) : SerOut :=
  if humanReadable then .str (toText CP cc h) else .bytes h.toBytes

/-- `Deserialize::deserialize` for one delivered event.  `unwraps` = the bytes
visitor ends in `try_from(v).unwrap()` (the pinned code) instead of mapping the
error. -/
def deserialize (CP : CodecParams) (S : StrictConsts) (cc : CodecCfg) (v : Variant) (unwraps : Bool)
    (humanReadable : Bool) (ev : SerdeEv) : Outcome Unit Hash :=
  if humanReadable then
    -- FuzzyHashStringVisitor: visit_str → visit_bytes → from_str_bytes(v, None)
    match ev with
    | .str s | .bytes s =>
      match fromStrBytes CP S cc v s none with
      | .ok h => .ok h
      | .err _ => .err ()
      | .panic w => .panic w
      | .ub w => .ub w
    | .other => .err ()
  else
    -- FuzzyHashBytesVisitor: only visit_bytes
    match ev with
    | .bytes b =>
      if b.length ≠ v.binLen then .err ()
      else
        match tryFromSlice S cc v b with
        | .ok h => .ok h
        | .err _ => if unwraps then .panic "hash.rs: try_from(v).unwrap() on Err" else .err ()
        | .panic w => .panic w
        | .ub w => .ub w
    | _ => .err ()

end TlshVerif.Model
