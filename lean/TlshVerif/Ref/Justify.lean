/-
Independent justification of the frozen reference tables (DESIGN §7): facts that
pin the tables down without looking at the Rust source.
-/
import TlshVerif.Ref.Tables

namespace TlshVerif.Ref

/-- Pearson's table is a permutation of 0…255: it has 256 entries and every
value occurs. -/
theorem pearson_length : pearsonTable.length = 256 := by decide +kernel
theorem pearson_surjective : ∀ i : Fin 256, i.val ∈ pearsonTable := by decide +kernel
theorem pearson_range : ∀ x ∈ pearsonTable, x < 256 := by decide +kernel

/-- Strictly increasing, as a decidable check on adjacent pairs. -/
def strictlyIncreasing : List Nat → Bool
  | a :: b :: rest => decide (a < b) && strictlyIncreasing (b :: rest)
  | _ => true

theorem topval_length : topval.length = 170 := by decide +kernel
theorem topval_increasing : strictlyIncreasing topval = true := by decide +kernel
theorem topval_last : topval.getLast? = some maxLength := by decide +kernel
theorem topval_lt_2_32 : ∀ x ∈ topval, x < 2 ^ 32 := by decide +kernel

/-- The documented growth law: entries 0–15 are ⌊1.5^(i+1)⌋, entries 16–21 are
⌊657·1.3^(i−15)⌋ (exact rational arithmetic). -/
theorem topval_growth_15 :
    ∀ i : Fin 16, topval.getD i.val 0 = 3 ^ (i.val + 1) / 2 ^ (i.val + 1) := by decide +kernel
theorem topval_growth_13 :
    ∀ i : Fin 6, topval.getD (16 + i.val) 0 = 657 * 13 ^ (i.val + 1) / 10 ^ (i.val + 1) := by
  decide +kernel
/-- Every later step multiplies by a factor in [1.0958, 1.1002]. -/
theorem topval_growth_11 :
    ∀ i : Fin 148, 10958 * topval.getD (21 + i.val) 0 ≤ 10000 * topval.getD (22 + i.val) 0 ∧
      10000 * topval.getD (22 + i.val) 0 ≤ 11002 * topval.getD (21 + i.val) 0 := by decide +kernel

/-- Every bit length 1…32 is represented (what the CLZ-narrowed search needs). -/
theorem topval_bit_lengths :
    ∀ k : Fin 32, ∃ x ∈ topval, 2 ^ k.val ≤ x ∧ x < 2 ^ (k.val + 1) := by decide +kernel

end TlshVerif.Ref
