/-
Frozen reference constants of the TLSH algorithm (hand-pinned; NOT regenerated).

Provenance (DESIGN §7): `pearsonTable` is Pearson's 1990 permutation as used by
TLSH's `v_table`; `topval` is TLSH's 170-entry length table (`topval[]` in
tlsh_util.cpp).  They were pinned from the commit under study and are justified
independently of the Rust source by the theorems in `Ref/Justify.lean`
(permutation, growth law, bit-length coverage) and by the known-answer digests
reproduced by `Spec.tlsh` over these tables only.
-/
namespace TlshVerif.Ref

def pearsonTable : List Nat := [
  1, 87, 49, 12, 176, 178, 102, 166, 121, 193, 6, 84, 249, 230, 44, 163,
  14, 197, 213, 181, 161, 85, 218, 80, 64, 239, 24, 226, 236, 142, 38, 200,
  110, 177, 104, 103, 141, 253, 255, 50, 77, 101, 81, 18, 45, 96, 31, 222,
  25, 107, 190, 70, 86, 237, 240, 34, 72, 242, 20, 214, 244, 227, 149, 235,
  97, 234, 57, 22, 60, 250, 82, 175, 208, 5, 127, 199, 111, 62, 135, 248,
  174, 169, 211, 58, 66, 154, 106, 195, 245, 171, 17, 187, 182, 179, 0, 243,
  132, 56, 148, 75, 128, 133, 158, 100, 130, 126, 91, 13, 153, 246, 216, 219,
  119, 68, 223, 78, 83, 88, 201, 99, 122, 11, 92, 32, 136, 114, 52, 10,
  138, 30, 48, 183, 156, 35, 61, 26, 143, 74, 251, 94, 129, 162, 63, 152,
  170, 7, 115, 167, 241, 206, 3, 150, 55, 59, 151, 220, 90, 53, 23, 131,
  125, 173, 15, 238, 79, 95, 89, 16, 105, 137, 225, 224, 217, 160, 37, 123,
  118, 73, 2, 157, 46, 116, 9, 145, 134, 228, 207, 212, 202, 215, 69, 229,
  27, 188, 67, 124, 168, 252, 42, 4, 29, 108, 21, 247, 19, 205, 39, 203,
  233, 40, 186, 147, 198, 192, 155, 33, 164, 191, 98, 204, 165, 180, 117, 76,
  140, 36, 210, 172, 41, 54, 159, 8, 185, 232, 113, 196, 231, 47, 146, 120,
  51, 65, 28, 144, 254, 221, 93, 189, 194, 139, 112, 43, 71, 109, 184, 209]

def topval : List Nat := [
  1, 2, 3, 5, 7, 11, 17, 25,
  38, 57, 86, 129, 194, 291, 437, 656,
  854, 1110, 1443, 1876, 2439, 3171, 3475, 3823,
  4205, 4626, 5088, 5597, 6157, 6772, 7450, 8195,
  9014, 9916, 10907, 11998, 13198, 14518, 15970, 17567,
  19323, 21256, 23382, 25720, 28292, 31121, 34233, 37656,
  41422, 45564, 50121, 55133, 60646, 66711, 73382, 80721,
  88793, 97672, 107439, 118183, 130002, 143002, 157302, 173032,
  190335, 209369, 230306, 253337, 278670, 306538, 337191, 370911,
  408002, 448802, 493682, 543050, 597356, 657091, 722800, 795081,
  874589, 962048, 1058252, 1164078, 1280486, 1408534, 1549388, 1704327,
  1874759, 2062236, 2268459, 2495305, 2744836, 3019320, 3321252, 3653374,
  4018711, 4420582, 4862641, 5348905, 5883796, 6472176, 7119394, 7831333,
  8614467, 9475909, 10423501, 11465851, 12612437, 13873681, 15261050, 16787154,
  18465870, 20312458, 22343706, 24578077, 27035886, 29739474, 32713425, 35984770,
  39583245, 43541573, 47895730, 52685306, 57953837, 63749221, 70124148, 77136564,
  84850228, 93335252, 102668779, 112935659, 124229227, 136652151, 150317384, 165349128,
  181884040, 200072456, 220079703, 242087671, 266296456, 292926096, 322218735, 354440623,
  389884688, 428873168, 471760495, 518936559, 570830240, 627913311, 690704607, 759775136,
  835752671, 919327967, 1011260767, 1112386880, 1223623232, 1345985727, 1480584256, 1628642751,
  1791507135, 1970657856, 2167723648, 2384496256, 2622945920, 2885240448, 3173764736, 3491141248,
  3840255616, 4224281216]

/-- Maximum hashable length: the last entry of `topval`. -/
def maxLength : Nat := 4224281216

/-- The six (salt, i, j, k) bucket triplets over the window `(b0,…,b4)`, `b4` newest. -/
def triplets : List (Nat × Nat × Nat × Nat) :=
  [(2, 4, 3, 2), (3, 4, 3, 1), (5, 4, 2, 1), (7, 4, 2, 0), (11, 4, 3, 0), (13, 4, 1, 0)]

/-- Checksum update reads (current, previous) = (b4, b3). -/
def checksumArgs : Nat × Nat := (4, 3)

/-- (buckets, minimum length, conservative minimum length). -/
def thresholds : List (Nat × Nat × Nat) := [(48, 10, 10), (128, 50, 128), (256, 50, 128)]

/-- (buckets, minimum number of non-zero buckets, mapping constrained within buckets). -/
def bucketInfo : List (Nat × Nat × Nat) := [(48, 18, 0), (128, 65, 0), (256, 129, 1)]

/-- (buckets, Pearson finaliser: 48-folded or plain 256). -/
def bucketMapping : List (Nat × Nat) := [(48, 48), (128, 256), (256, 256)]

/-- 48-bucket fold: `if x ≥ 240 then 48 else x % 48`. -/
def fold48 : Nat × Nat × Nat := (240, 48, 48)

/-- The five shipped variants (name, checksum bytes, buckets). -/
def variants : List (String × Nat × Nat) :=
  [("Short", 1, 48), ("Normal", 1, 128), ("NormalWithLongChecksum", 3, 128),
   ("Long", 1, 256), ("LongWithLongChecksum", 3, 256)]

def checksumSteps1 : List (Nat × Nat × Nat) := [(0, 0, 0)]
def checksumSteps3 : List (Nat × Nat × Nat) := [(0, 0, 0), (1, 256, 1000), (2, 256, 1001)]

/-- Q-ratio formula constants: `(q * 100 / q3) % 16` in both modes. -/
def qratioConsts : Nat × Nat × Nat × Nat := (100, 16, 100, 16)

/-- Quartile positions: q2 = sorted[n/2-1]; q1 = sorted-lower-half[n/4-1]; q3 = sorted-upper-half[n/4-1]. -/
def selectArgs : List (String × Nat × Nat) := [("copy_buckets", 2, 1), ("l0", 4, 1), ("l1", 4, 1)]

def optionFlagBits : List (String × Nat) :=
  [("PURE_INTEGER_QRATIO_COMPUTATION", 1), ("ALLOW_SMALL_SIZE_FILES", 1),
   ("ALLOW_STATISTICALLY_WEAK_BUCKETS_HALF", 2), ("ALLOW_STATISTICALLY_WEAK_BUCKETS_QUARTER", 4)]

end TlshVerif.Ref
