/-
SPEC — the stream / file helpers and the string comparison helpers.
-/
import TlshVerif.Model.Easy
import TlshVerif.Spec.Tlsh
import TlshVerif.Spec.Text
import TlshVerif.Spec.Distance

namespace TlshVerif.Spec

open TlshVerif.Model (ReadEv StreamErr Side)

/-- What a well-behaved consumer of `Read` sees: the bytes delivered up to the
end of stream (first `Ok(0)` or end of script), transient interruptions
skipped — or the first hard error.  (`lie` is outside the `Read` contract.) -/
def consume : List ReadEv → Except String (List UInt8)
  | [] => .ok []
  | .deliver bs :: rest =>
    if bs.isEmpty then .ok []
    else match consume rest with
      | .ok more => .ok (bs ++ more)
      | .error k => .error k
  | .interrupted :: rest => consume rest
  | .error k :: _ => .error k
  | .lie _ :: _ => .ok []

/-- Hashing a stream = hashing the concatenation of all delivered bytes with
the default options; any hard I/O error wins and no hash is produced. -/
def hashStream (v : Variant) (script : List ReadEv) : Except StreamErr Hash :=
  match consume script with
  | .error k => .error (.io k)
  | .ok data =>
    match tlsh v Model.defaultOptions data with
    | .ok h => .ok h
    | .error e => .error (.gen e)

/-- Parse a text under the lenient parser, auto-detecting the prefix. -/
def parseText (v : Variant) (s : List UInt8) : Option Hash :=
  if wellFormed v s none then
    match resolvePrefix v s none with
    | some p => decodeDigits v (stripPrefix s p)
    | none => none
  else none

end TlshVerif.Spec
