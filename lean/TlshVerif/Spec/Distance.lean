/-
SPEC — the TLSH reference distance between two hashes of the same variant.

  Σ over body dibit pairs of |x−y| with 3 replaced by 6
  + 1 per differing checksum byte
  + for each of the two Q ratios: ring-16 distance d ↦ (d if d ≤ 1 else (d−1)·12)
  + unless "no length": ring-256 distance of the length codes d ↦ (d if d ≤ 1 else d·12)
-/
import TlshVerif.Basic

namespace TlshVerif.Spec

/-- Distance between two dibits. -/
def dibitDist (x y : Nat) : Nat :=
  let d := if x ≥ y then x - y else y - x
  if d = 3 then 6 else d

/-- Dibit `j` (0…3) of a byte. -/
def dibitOf (b : UInt8) (j : Nat) : Nat := (b.toNat / 4 ^ j) % 4

def byteDist (a b : UInt8) : Nat :=
  dibitDist (dibitOf a 0) (dibitOf b 0) + dibitDist (dibitOf a 1) (dibitOf b 1) +
    dibitDist (dibitOf a 2) (dibitOf b 2) + dibitDist (dibitOf a 3) (dibitOf b 3)

def bodyDist : List UInt8 → List UInt8 → Nat
  | a :: as, b :: bs => byteDist a b + bodyDist as bs
  | _, _ => 0

def checksumDist : List UInt8 → List UInt8 → Nat
  | a :: as, b :: bs => (if a ≠ b then 1 else 0) + checksumDist as bs
  | _, _ => 0

/-- Distance on the ring ℤ/n. -/
def ring (n x y : Nat) : Nat := min ((x + n - y) % n) ((y + n - x) % n)

def qratioDist1 (x y : Nat) : Nat :=
  let d := ring 16 x y
  if d ≤ 1 then d else (d - 1) * 12

def qratioDist (a b : UInt8) : Nat :=
  qratioDist1 (a.toNat % 16) (b.toNat % 16) + qratioDist1 (a.toNat / 16) (b.toNat / 16)

def lengthDist (a b : UInt8) : Nat :=
  let d := ring 256 a.toNat b.toNat
  if d ≤ 1 then d else d * 12

/-- The reference distance. -/
def distance (a b : Hash) (noLength : Bool) : Nat :=
  bodyDist a.body b.body + checksumDist a.checksum b.checksum + qratioDist a.qratios b.qratios +
    (if noLength then 0 else lengthDist a.lvalue b.lvalue)

/-- Largest possible distance. -/
def maxDistance (v : Variant) (noLength : Bool) : Nat :=
  v.bodyLen * 4 * 6 + v.cksum + 2 * (7 * 12) + (if noLength then 0 else 128 * 12)

end TlshVerif.Spec
