/-
SPEC — the text (hexadecimal) and binary forms of a hash.

Binary form: checksum ++ [length code] ++ [Q-ratio byte] ++ body.
Text form:   optional "T1", then the header bytes (checksum, length code,
Q-ratio byte) each written *low nibble first*, then the body bytes written high
nibble first; upper-case digits.
-/
import TlshVerif.Basic

namespace TlshVerif.Spec

/-- Value of an ASCII hexadecimal digit of either case. -/
def hexVal (d : UInt8) : Option UInt8 :=
  if 48 ≤ d ∧ d ≤ 57 then some (d - 48)          -- '0'..'9'
  else if 65 ≤ d ∧ d ≤ 70 then some (d - 55)     -- 'A'..'F'
  else if 97 ≤ d ∧ d ≤ 102 then some (d - 87)    -- 'a'..'f'
  else none

def isHexDigit (d : UInt8) : Bool := (hexVal d).isSome

/-- Upper-case digit of a nibble. -/
def upperDigit (n : UInt8) : UInt8 := if n < 10 then 48 + n else 55 + n

/-- A byte as two digits, high nibble first. -/
def fmtFwd (b : UInt8) : List UInt8 := [upperDigit (b >>> 4), upperDigit (b &&& 15)]
/-- A byte as two digits, low nibble first (header bytes). -/
def fmtRev (b : UInt8) : List UInt8 := [upperDigit (b &&& 15), upperDigit (b >>> 4)]

inductive Prefix | empty | withVersion
deriving DecidableEq, Repr, Inhabited

def prefixBytes : Prefix → List UInt8
  | .empty => []
  | .withVersion => [84, 49]   -- "T1"

/-- The digits of a hash, without prefix. -/
def digits (h : Hash) : List UInt8 :=
  h.checksum.flatMap fmtRev ++ fmtRev h.lvalue ++ fmtRev h.qratios ++ h.body.flatMap fmtFwd

/-- Canonical text form. -/
def format (h : Hash) (p : Prefix) : List UInt8 := prefixBytes p ++ digits h

/-- ASCII upper-casing of hex letters. -/
def upper (d : UInt8) : UInt8 := if 97 ≤ d ∧ d ≤ 122 then d - 32 else d

/-- Pair up digits. -/
def pairs {α} : List α → List (α × α)
  | a :: b :: rest => (a, b) :: pairs rest
  | _ => []

def byteFwd (p : UInt8 × UInt8) : Option UInt8 := do
  let h ← hexVal p.1
  let l ← hexVal p.2
  pure (h * 16 + l)
def byteRev (p : UInt8 × UInt8) : Option UInt8 := byteFwd (p.2, p.1)

/-- The prefix mode a string is read under: the requested one, or by length. -/
def resolvePrefix (v : Variant) (s : List UInt8) : Option Prefix → Option Prefix
  | some p => some p
  | none =>
    if s.length = v.strLen - 2 then some .empty
    else if s.length = v.strLen then some .withVersion
    else none

/-- The length is right for the (requested or detected) prefix mode. -/
def lengthOk (v : Variant) (s : List UInt8) (m : Option Prefix) : Bool :=
  match resolvePrefix v s m with
  | some .empty => s.length = v.strLen - 2
  | some .withVersion => s.length = v.strLen
  | none => false

/-- The digits part of a string under a resolved prefix mode. -/
def stripPrefix (s : List UInt8) : Prefix → List UInt8
  | .empty => s
  | .withVersion => s.drop 2

/-- Well-formed: right length, exact case-sensitive "T1" if a prefix is
present, and only hexadecimal digits afterwards. -/
def wellFormed (v : Variant) (s : List UInt8) (m : Option Prefix) : Bool :=
  lengthOk v s m &&
    match resolvePrefix v s m with
    | some p => (p = .empty || s.take 2 = [84, 49]) && (stripPrefix s p).all isHexDigit
    | none => false

/-- The hash denoted by a string of `2 * v.binLen` hex digits. -/
def decodeDigits (v : Variant) (d : List UInt8) : Option Hash := do
  let ck ← (pairs (d.take (2 * v.cksum))).mapM byteRev
  let lv ← byteRev ((d.getD (2 * v.cksum) 0), (d.getD (2 * v.cksum + 1) 0))
  let qr ← byteRev ((d.getD (2 * v.cksum + 2) 0), (d.getD (2 * v.cksum + 3) 0))
  let body ← (pairs (d.drop (2 * v.cksum + 4))).mapM byteFwd
  pure { checksum := ck, lvalue := lv, qratios := qr, body := body }

/-- Strict-parser validity of a hash value. -/
def checksumValid (v : Variant) (h : Hash) : Bool :=
  if v.buckets = 48 then decide ((h.checksum.headD 0).toNat ≤ 48) else true
def lengthValid (h : Hash) : Bool := decide (h.lvalue.toNat < 170)

/-- The hash of a byte array in binary form. -/
def ofBytes (v : Variant) (b : List UInt8) : Hash :=
  { checksum := b.take v.cksum, lvalue := b.getD v.cksum 0, qratios := b.getD (v.cksum + 1) 0
  , body := b.drop (v.cksum + 2) }

/-- Dibit `i` (bucket `i`) of the body: bits `2(i mod 4)` of byte `len−1−i/4`. -/
def quartile (h : Hash) (i : Nat) : UInt8 :=
  (h.body.getD (h.body.length - 1 - i / 4) 0 >>> UInt8.ofNat (2 * (i % 4))) &&& 3

end TlshVerif.Spec
