/-
SPEC — what "the TLSH reference algorithm" means for hash generation.

Whole-input and non-incremental; no configuration; uses only the frozen
reference tables in `Ref/`.  Written to be read in minutes, not to be fast:
bucket `i` is literally "how many (window, triplet) pairs map to `i`, modulo
2³²".
-/
import TlshVerif.Basic
import TlshVerif.F32
import TlshVerif.Ref.Tables

namespace TlshVerif.Spec

/-- Pearson's substitution table as bytes. -/
def pearsonTable : Array UInt8 := (Ref.pearsonTable.map UInt8.ofNat).toArray

/-- One Pearson step. -/
def pearson (s x : UInt8) : UInt8 := pearsonTable[(s ^^^ x).toNat]!

/-- TLSH's bucket mapping: Pearson hash of four bytes starting from state 0. -/
def bmap256 (salt x y z : UInt8) : UInt8 :=
  pearson (pearson (pearson (pearson 0 salt) x) y) z

/-- The 48-bucket fold of a Pearson output: values ≥ 240 go to the extra bucket 48. -/
def fold48 (x : UInt8) : UInt8 := if x ≥ 240 then 48 else x % 48

/-- Bucket mapping of variant `v`: folded for 48 buckets, plain otherwise. -/
def bmap (v : Variant) (salt x y z : UInt8) : UInt8 :=
  if v.buckets = 48 then fold48 (bmap256 salt x y z) else bmap256 salt x y z

/-- All contiguous 5-byte windows of the input, oldest first. -/
def windows : List UInt8 → List (List UInt8)
  | [] => []
  | b :: rest => if rest.length ≥ 4 then (b :: rest.take 4) :: windows rest else []

/-- The six bucket keys of one window `(b0,…,b4)` (`b4` newest). -/
def windowKeys (v : Variant) : List UInt8 → List UInt8
  | [b0, b1, b2, b3, b4] =>
    [bmap v 2 b4 b3 b2, bmap v 3 b4 b3 b1, bmap v 5 b4 b2 b1,
     bmap v 7 b4 b2 b0, bmap v 11 b4 b3 b0, bmap v 13 b4 b1 b0]
  | _ => []

/-- Every bucket key produced by the input, in order. -/
def keys (v : Variant) (data : List UInt8) : List UInt8 :=
  (windows data).flatMap (windowKeys v)

/-- Bucket `i`: number of keys equal to `i`, as a wrapping 32-bit counter. -/
def bucket (v : Variant) (data : List UInt8) (i : Nat) : Nat :=
  ((keys v data).countP (fun k => k.toNat = i)) % 2 ^ 32

/-- The `v.buckets` buckets that take part in the hash. -/
def buckets (v : Variant) (data : List UInt8) : List Nat :=
  (List.range v.buckets).map (bucket v data)

/-- Checksum update for one window: reads the newest two bytes `(b4, b3)`. -/
def checksumStep (v : Variant) (ck : List UInt8) : List UInt8 → List UInt8
  | [_, _, _, b3, b4] =>
    match ck with
    | [c0] => [bmap v 0 b4 b3 c0]
    | [c0, c1, c2] =>
      let c0' := bmap v 0 b4 b3 c0
      let c1' := bmap256 c0' b4 b3 c1
      let c2' := bmap256 c1' b4 b3 c2
      [c0', c1', c2']
    | _ => ck
  | _ => ck

def checksum (v : Variant) (data : List UInt8) : List UInt8 :=
  (windows data).foldl (checksumStep v) (List.replicate v.cksum 0)

/-- Length code: least index `i` with `n ≤ topval[i]` (0 for `n = 0`). -/
def lengthCode (n : Nat) : Nat := Ref.topval.findIdx (fun t => decide (n ≤ t))

def minLength (v : Variant) : Nat := if v.buckets = 48 then 10 else 50
def minLengthConservative (v : Variant) : Nat := if v.buckets = 48 then 10 else 128
def minNonzero (v : Variant) : Nat := if v.buckets = 48 then 18 else v.buckets / 2 + 1

/-- Insert into an ascending list. -/
def insertAsc (x : Nat) : List Nat → List Nat
  | [] => [x]
  | y :: ys => if x ≤ y then x :: y :: ys else y :: insertAsc x ys

/-- The ascending rearrangement of a list (insertion sort — chosen for
obviousness, and because it reduces inside the kernel). -/
def sortAsc : List Nat → List Nat
  | [] => []
  | x :: xs => insertAsc x (sortAsc xs)

/-- Quartile thresholds: the values at positions n/4−1, n/2−1, 3n/4−1 of the sorted buckets. -/
def quartiles (b : List Nat) : Nat × Nat × Nat :=
  let s := sortAsc b
  let n := b.length
  (s.getD (n / 4 - 1) 0, s.getD (n / 2 - 1) 0, s.getD (3 * n / 4 - 1) 0)

/-- One Q ratio, in the integer mode or the legacy binary32 mode. -/
def ratio (o : Options) (q q3 : Nat) : Nat :=
  if o.pureInt then (q * 100 / q3) % 16 else F32.ratio 100 16 q q3

def dibit (q1 q2 q3 x : Nat) : Nat :=
  if x > q3 then 3 else if x > q2 then 2 else if x > q1 then 1 else 0

/-- Body byte for buckets `4k … 4k+3`: bucket `4k+j` occupies bits `2j, 2j+1`. -/
def bodyByte (b : List Nat) (q1 q2 q3 k : Nat) : UInt8 :=
  UInt8.ofNat
    (dibit q1 q2 q3 (b.getD (4 * k) 0) + 4 * dibit q1 q2 q3 (b.getD (4 * k + 1) 0)
      + 16 * dibit q1 q2 q3 (b.getD (4 * k + 2) 0) + 64 * dibit q1 q2 q3 (b.getD (4 * k + 3) 0))

/-- Body: the *last* byte holds the *first* four buckets. -/
def body (v : Variant) (b : List Nat) (q1 q2 q3 : Nat) : List UInt8 :=
  (List.range v.bodyLen).map (fun p => bodyByte b q1 q2 q3 (v.bodyLen - 1 - p))

/-- The reference TLSH of `data` for variant `v` under options `o`. -/
def tlsh (v : Variant) (o : Options) (data : List UInt8) : Except GenError Hash :=
  let n := data.length
  if n > Ref.maxLength then .error .tooLarge
  else if (n < minLength v ∨ (o.conservative ∧ n < minLengthConservative v)) ∧ ¬ o.allowSmall then
    .error .tooSmall
  else
    let b := buckets v data
    let (q1, q2, q3) := quartiles b
    if q3 = 0 ∧ ¬ o.allowQuarter then .error .threeQuarterEmpty
    else
      let (q1, q2, q3) := if q3 = 0 then (1, 1, 1) else (q1, q2, q3)
      if b.countP (· ≠ 0) < minNonzero v ∧ ¬ (o.allowHalf ∨ o.allowQuarter) then .error .halfEmpty
      else
        .ok { checksum := checksum v data
            , lvalue := UInt8.ofNat (lengthCode n)
            , qratios := UInt8.ofNat (ratio o q2 q3 * 16 + ratio o q1 q3)
            , body := body v b q1 q2 q3 }

end TlshVerif.Spec
