/-
C01 — Generated hashes equal the TLSH reference algorithm for every input.

Property theorems only.
-/
import TlshVerif.Model.Params
import TlshVerif.Spec.Tlsh
import TlshVerif.Ref.Justify
import TlshVerif.Lemmas.Update
import TlshVerif.Lemmas.Generate
import TlshVerif.Lemmas.Pairings

namespace TlshVerif.Theorems.C01

open TlshVerif Model

/-- Every constant, table, salt, byte pairing, threshold and flag bit the
translator extracted from the current source equals the frozen reference. -/
theorem tables : Gen.rawParams = Ref.rawParams := by decide +kernel

/-- Hence the model instantiated with the current source's constants *is* the
model instantiated with the reference constants. -/
theorem params_eq : Gen.params = Ref.params := by
  unfold Gen.params Ref.params; rw [tables]

/-- The six bucket-increment statements of `update` commute, so the order in which the source
writes them (`Gen.pairingsSrc`) is irrelevant: the model at the canonical order (`Gen.pairings`, the
one compared with the reference by `tables`) is the model of the source order. -/
theorem pairings_order_irrelevant (cfg : Cfg) (v : Variant) :
    genUpdate (withPairings Gen.params Gen.pairingsSrc) cfg v = genUpdate Gen.params cfg v :=
  genUpdate_perm Gen.params Gen.pairingsSrc (by decide +kernel) cfg v

/-- **Main theorem.**  For every valid variant, every build configuration, every
option setting and every byte string (of any length, including ≥ 4 GiB), the
model of `new(); update(data); finalize_with_options(o)` returns exactly what
the reference algorithm `Spec.tlsh` returns: the same hash, or the same
rejection. -/
theorem generate_eq_spec (cfg : Cfg) (v : Variant) (hv : v.Valid) (o : Options) (data : List UInt8) :
    generate Ref.params cfg v o data = specOutcome (Spec.tlsh v o data) :=
  generate_ref_eq_spec cfg v hv o data

/-- The same for the model at the current source's constants, fed in any chunking. -/
theorem generate_chunked_eq_spec (cfg : Cfg) (v : Variant) (hv : v.Valid) (o : Options)
    (ps : List (List UInt8)) :
    genFinalize Gen.params cfg v (ps.foldl (genUpdate Gen.params cfg v) (genInit cfg v)) o
      = specOutcome (Spec.tlsh v o ps.flatten) := by
  rw [params_eq]
  have h : ps.foldl (genUpdate Ref.params cfg v) (genInit cfg v)
      = genUpdate Ref.params cfg v (genInit cfg v) ps.flatten := by
    show ps.foldl (update _) (init _) = update _ (init _) _
    rw [← ideal_nil, foldl_update_ideal, update_ideal]
  rw [h]
  exact generate_eq_spec cfg v hv o ps.flatten

/-- Known answer inside the kernel: the reference algorithm over the frozen
tables reproduces an official digest (doc example of `GeneratorOptions`,
"T14A90024954691E1144…8173"). -/
def lovak : List UInt8 :=
  [76, 111, 118, 97, 107, 32, 119, 111, 110, 32, 116, 104, 101, 32, 115, 113, 117, 97, 100, 32, 112,
   114, 105, 122, 101, 32, 99, 117, 112, 32, 102, 111, 114, 32, 115, 105, 120, 116, 121, 32, 98,
   105, 103, 32, 106, 117, 109, 112, 115, 46]
def lovakHash : Hash :=
  ⟨[164], 9, 32, [73, 84, 105, 30, 17, 68, 4, 18, 65, 128, 217, 66, 193, 69, 15, 132, 35, 119, 90,
    222, 21, 16, 33, 20, 32, 69, 101, 147, 98, 26, 129, 115]⟩
theorem kat_lovak :
    (Spec.tlsh Variant.normal ⟨false, false, false, false, false⟩ lovak).toOption = some lovakHash := by
  decide +kernel

end TlshVerif.Theorems.C01
