/-
C02 — The distance computed by every comparison back end and every table
configuration equals the TLSH reference distance, for all inputs.

Property theorems only.  The body kernels are the *generated* definitions of
`Gen/Kernels.lean`; their word-level correctness (`Lemmas/DistKernels.lean`) is
the only place where `bv_decide` is used.
-/
import TlshVerif.Lemmas.DistSse2
import TlshVerif.Lemmas.DistScalar

namespace TlshVerif.Theorems.C02

open TlshVerif Model Lemmas.Dist

/-- Every comparison constant the translator extracted from the current source
(outlier value 6, multipliers 12, ring moduli, thresholds, `MAX_DISTANCE`s)
equals the frozen reference. -/
theorem tables : Gen.compareRaw = Ref.compareRaw := by decide +kernel

/-! ### body -/

/-- All back ends agree as `u32` values: on a body of the variant's length each
of them returns exactly what `pseudo_simd_32` returns. -/
theorem body_backends_agree (be : DistBackend) (v : Variant) (hv : v.Valid) (a b : List UInt8)
    (ha : a.length = v.bodyLen) (hb : b.length = v.bodyLen) :
    distBodyWith be v a b = pseudo32Distance a b := by
  simp only [Variant.Valid, Variant.all, List.mem_cons, List.not_mem_nil, or_false] at hv
  rcases hv with rfl | rfl | rfl | rfl | rfl
  · -- 48 buckets, 12 bytes
    have ha' : a.length = 12 := ha
    have hb' : b.length = 12 := hb
    cases be <;> first | rfl | exact pseudo64Distance12_eq a b ha' hb'
  · -- 128 buckets, 32 bytes
    have ha' : a.length = 32 := ha
    have hb' : b.length = 32 := hb
    cases be
    · rfl
    · exact pseudo64Distance_eq 4 a b ha' hb'
    · exact sse2Distance32_eq a b ha' hb'
    · exact sse41Distance32_eq a b ha' hb'
    · exact avx2Distance32_eq a b ha' hb'
  · have ha' : a.length = 32 := ha
    have hb' : b.length = 32 := hb
    cases be
    · rfl
    · exact pseudo64Distance_eq 4 a b ha' hb'
    · exact sse2Distance32_eq a b ha' hb'
    · exact sse41Distance32_eq a b ha' hb'
    · exact avx2Distance32_eq a b ha' hb'
  · -- 256 buckets, 64 bytes
    have ha' : a.length = 64 := ha
    have hb' : b.length = 64 := hb
    cases be
    · rfl
    · exact pseudo64Distance_eq 8 a b ha' hb'
    · exact sse2Distance64_eq a b ha' hb'
    · exact sse41Distance64_eq a b ha' hb'
    · exact avx2Distance64_eq a b ha' hb'
  · have ha' : a.length = 64 := ha
    have hb' : b.length = 64 := hb
    cases be
    · rfl
    · exact pseudo64Distance_eq 8 a b ha' hb'
    · exact sse2Distance64_eq a b ha' hb'
    · exact sse41Distance64_eq a b ha' hb'
    · exact avx2Distance64_eq a b ha' hb'

/-- For every back end (pseudo-SIMD 32/64, SSE2, SSE4.1, AVX2), every shipped
variant and *all* bodies of that variant's length, the body distance is the
reference sum of dibit distances (no `u32` or 16-bit lane overflow). -/
theorem body_distance_eq_spec (be : DistBackend) (v : Variant) (hv : v.Valid) (a b : List UInt8)
    (ha : a.length = v.bodyLen) (hb : b.length = v.bodyLen) :
    (distBodyWith be v a b).toNat = Spec.bodyDist a b := by
  rw [body_backends_agree be v hv a b ha hb]
  have h4 : v.bodyLen = 4 * (v.bodyLen / 4) ∧ v.bodyLen / 4 ≤ 1000000 := by
    simp only [Variant.Valid, Variant.all, List.mem_cons, List.not_mem_nil, or_false] at hv
    rcases hv with rfl | rfl | rfl | rfl | rfl <;> decide
  exact pseudo32Distance_spec (v.bodyLen / 4) a b (by omega) (by omega) h4.2

/-- The 32-bit kernel on two words is the reference distance of their bytes. -/
theorem word_kernel_eq_spec (a0 a1 a2 a3 b0 b1 b2 b3 : UInt8) :
    (Gen.pseudo32SubDistance (u32OfBytes a0 a1 a2 a3) (u32OfBytes b0 b1 b2 b3)).toNat
      = Spec.byteDist a0 b0 + Spec.byteDist a1 b1 + Spec.byteDist a2 b2 + Spec.byteDist a3 b3 :=
  pseudo32_word_toNat a0 a1 a2 a3 b0 b1 b2 b3

/-- `pseudo_simd_32` is correct at every length that is a multiple of four. -/
theorem pseudo32_distance_eq_spec (n : Nat) (a b : List UInt8) (ha : a.length = 4 * n)
    (hb : b.length = 4 * n) (hn : n ≤ 1000000) :
    (pseudo32Distance a b).toNat = Spec.bodyDist a b :=
  pseudo32Distance_spec n a b ha hb hn

/-! ### ring distance, length, Q ratios, checksum -/

/-- `distance_on_ring_mod` in wrapping `u8` arithmetic is the distance on ℤ/256
(modulus argument 0) and, for operands below 16, on ℤ/16. -/
theorem ring_spec (x y : UInt8) :
    (ringDist x y 0).toNat = Spec.ring 256 x.toNat y.toNat ∧
      (x.toNat < 16 → y.toNat < 16 → (ringDist x y 16).toNat = Spec.ring 16 x.toNat y.toNat) :=
  ⟨ringDist_zero x y, ringDist_16 x y⟩

/-- Length distance: the naive code and the 256-entry `u16` table (indexed by
the wrapping difference of the codes) both give the reference value. -/
theorem length_distance_eq_spec (c : CompareCfg) (l1 l2 : UInt8) :
    distLength Ref.compareRaw c l1 l2 = Spec.lengthDist l1 l2 :=
  distLength_eq c l1 l2

/-- Q-ratio distance: the naive code, the 256-entry nibble table and the
65 536-entry byte-pair table (`u8` entries, swapped index roles) all give the
reference value. -/
theorem qratio_distance_eq_spec (c : CompareCfg) (a b : UInt8) :
    distQ Ref.compareRaw c a b = Spec.qratioDist a b :=
  distQ_eq c a b

/-- Checksum distance: one per differing byte. -/
theorem checksum_distance_eq_spec (a b : List UInt8) :
    distChecksum a b = Spec.checksumDist a b :=
  distChecksum_eq a b

/-! ### the whole comparison -/

/-- `compare_with_config` equals the reference distance for every build
configuration, every shipped variant, all well-formed hashes and both
comparison modes. -/
theorem compare_eq_spec (c : CompareCfg) (v : Variant) (hv : v.Valid) (a b : Hash)
    (ha : a.WF v) (hb : b.WF v) (noLength : Bool) :
    compareHashes Ref.compareRaw c v a b noLength = Spec.distance a b noLength := by
  unfold compareHashes Spec.distance
  rw [body_distance_eq_spec c.body v hv a.body b.body ha.2 hb.2, distChecksum_eq, distQ_eq,
    distLength_eq]

/-- The same for the constants extracted from the current source. -/
theorem compare_eq_spec_gen (c : CompareCfg) (v : Variant) (hv : v.Valid) (a b : Hash)
    (ha : a.WF v) (hb : b.WF v) (noLength : Bool) :
    compareHashes Gen.compareRaw c v a b noLength = Spec.distance a b noLength := by
  rw [tables]; exact compare_eq_spec c v hv a b ha hb noLength

/-- `max_distance(config)` is the reference maximum. -/
theorem max_distance_eq_spec (v : Variant) (hv : v.Valid) (nl : Bool) :
    Model.maxDistance Ref.compareRaw v nl = Spec.maxDistance v nl := by
  simp only [Variant.Valid, Variant.all, List.mem_cons, List.not_mem_nil, or_false] at hv
  rcases hv with rfl | rfl | rfl | rfl | rfl <;> cases nl <;> decide

/-- The same for the constants extracted from the current source. -/
theorem max_distance_eq_spec_gen (v : Variant) (hv : v.Valid) (nl : Bool) :
    Model.maxDistance Gen.compareRaw v nl = Spec.maxDistance v nl := by
  rw [tables]; exact max_distance_eq_spec v hv nl

/-! ### non-vacuity -/

/-- A concrete pair of well-formed `short` hashes: the hypotheses of
`compare_eq_spec` are satisfiable and the common value is not trivial. -/
example :
    let a : Hash := ⟨[7], 3, 0x21, [0, 1, 2, 3, 4, 5, 6, 7, 8, 9, 10, 11]⟩
    let b : Hash := ⟨[9], 250, 0x8f, [255, 1, 27, 3, 4, 5, 6, 7, 8, 9, 10, 228]⟩
    a.WF Variant.short ∧ b.WF Variant.short ∧ Variant.short.Valid ∧
      compareHashes Ref.compareRaw { body := .pseudo32, lengthTable := true, qratioTable := .double }
        Variant.short a b false = Spec.distance a b false ∧
      Spec.distance a b false = 224 := by
  intro a b
  refine ⟨⟨rfl, rfl⟩, ⟨rfl, rfl⟩, by decide, ?_, by decide⟩
  exact compare_eq_spec _ _ (by decide) a b ⟨rfl, rfl⟩ ⟨rfl, rfl⟩ false

/-- All five back ends evaluated inside the kernel on one 64-byte body pair give
the reference value (so the generated kernels are not degenerate). -/
example :
    [DistBackend.pseudo32, .pseudo64, .sse2, .sse41, .avx2].map
        (fun be => (distBodyWith be Variant.long
          ((List.range 64).map (fun i => UInt8.ofNat (i * 37 + 11)))
          ((List.range 64).map (fun i => UInt8.ofNat (i * 91 + 200)))).toNat)
      = [446, 446, 446, 446, 446] ∧
    Spec.bodyDist ((List.range 64).map (fun i => UInt8.ofNat (i * 37 + 11)))
      ((List.range 64).map (fun i => UInt8.ofNat (i * 91 + 200))) = 446 := by
  decide +kernel

end TlshVerif.Theorems.C02
