/-
C03 — Hash is independent of how the input is chunked, finalized or cloned.

Property theorems only.  The model of `update` is `Model.update f` for an
arbitrary accumulator step `f`, so every statement here holds whatever the
bucket / checksum step is.
-/
import TlshVerif.Lemmas.Update
import TlshVerif.Lemmas.History
import TlshVerif.Model.Params

namespace TlshVerif.Theorems.C03

open TlshVerif Model

/-- Any way of splitting the input into successive `update` calls (including
empty and 1–3 byte pieces, across the 4 GiB boundary) ends in the *same state*
as one `update` with the whole input — hence the same `processed_len()` and the
same `finalize_with_options(o)` for every `o`, since both are functions of the
state. -/
theorem chunking {α : Type} (f : α → List UInt8 → α) (a0 : α) (ps : List (List UInt8)) :
    ps.foldl (update f) (init a0) = update f (init a0) ps.flatten := by
  rw [← ideal_nil f a0, foldl_update_ideal, update_ideal]

/-- The same, for the concrete generator of every variant, parameter set and
build configuration. -/
theorem chunking_generator (P : GenParams) (cfg : Cfg) (v : Variant) (ps : List (List UInt8)) :
    ps.foldl (genUpdate P cfg v) (genInit cfg v) = genUpdate P cfg v (genInit cfg v) ps.flatten :=
  chunking _ _ ps

/-- Observables agree: reported length and every finalisation. -/
theorem chunking_observable (P : GenParams) (cfg : Cfg) (v : Variant) (ps : List (List UInt8))
    (o : Options) :
    processedLen (ps.foldl (genUpdate P cfg v) (genInit cfg v))
        = processedLen (genUpdate P cfg v (genInit cfg v) ps.flatten) ∧
      genFinalize P cfg v (ps.foldl (genUpdate P cfg v) (genInit cfg v)) o
        = genFinalize P cfg v (genUpdate P cfg v (genInit cfg v) ps.flatten) o := by
  rw [chunking_generator]
  exact ⟨rfl, rfl⟩

/-- Histories over `update(piece)`, `finalize(o)`, `clone` and switching between
handles: every handle is, at every point, in the state of a fresh generator fed
exactly the bytes that handle has seen, and every `finalize` returns what that
fresh generator would return.  (`finalize` takes `&self`: in the model it is a
function of the state and returns no new state.) -/
theorem history {α β : Type} (f : α → List UInt8 → α) (a0 : α) (fin : St α → Options → β)
    (h : List HistOp) :
    let r := runHist f fin (initSys a0) h
    let a := runAbs h
    r.1.gens = a.1.seen.map (ideal f a0) ∧ r.1.cur = a.1.cur ∧
      r.2 = a.2.map (fun e => fin (ideal f a0 e.1) e.2) :=
  runHist_spec f a0 fin h

/-- Non-vacuity: a concrete three-piece chunking with an empty piece. -/
example : [[1, 2], [], [3, 4, 5, 6, 7]].foldl (update (fun (a : Nat) w => a + w.length)) (init 0)
    = update (fun (a : Nat) w => a + w.length) (init 0) [1, 2, 3, 4, 5, 6, 7] := chunking _ _ _

end TlshVerif.Theorems.C03
