/-
C04 — Hexadecimal text form: canonical shape and round trip.

Property theorems only.  The model (`Model.hexDigits`, `Model.toText`,
`Model.fromStrBytes`) is instantiated at the reference tables `Ref.codec`;
`tables` shows that these are the tables extracted from the Rust source.  The
statements hold for every build configuration `c` (4 decoders × 3 encoders ×
hex-simd parse × hex-simd convert).  `Codec.toModel` / `Codec.toSpec` translate
between the spec's and the model's prefix mode (constructor to same-named
constructor).
-/
import TlshVerif.Lemmas.CodecParse

namespace TlshVerif.Theorems.C04

open TlshVerif Codec

/-- The codec constants extracted from the Rust source are the reference ones. -/
theorem tables : Gen.codecRaw = Ref.codecRaw := by decide +kernel

/-- Every encoder variant (table, half table, nibble table, and the `hex_simd`
contract) writes exactly the spec's digits. -/
theorem encode_eq_spec (c : Model.CodecCfg) (h : Hash) :
    Model.hexDigits Ref.codec c h = Spec.digits h := by
  unfold Model.hexDigits Spec.digits
  have h1 : Model.encodeRev1 Ref.codec c = Spec.fmtRev := funext (encodeRev1_ref c)
  have h2 : Model.encode1 Ref.codec c = Spec.fmtFwd := funext (encode1_ref c)
  rw [h1, h2, hexSimdEncodeUpper_eq]; simp

/-- `to_string()` is the spec's canonical text with the `T1` prefix. -/
theorem toText_eq_spec (c : Model.CodecCfg) (h : Hash) :
    Model.toText Ref.codec c h = Spec.format h .withVersion := by
  unfold Model.toText Spec.format
  rw [encode_eq_spec]; rfl

/-- The canonical text has the advertised length, with and without prefix. -/
theorem format_length (v : Variant) (h : Hash) (hw : h.WF v) :
    (Spec.format h .withVersion).length = v.strLen ∧
    (Spec.format h .empty).length = v.strLen - 2 := by
  unfold Spec.format Spec.prefixBytes
  simp only [List.length_append, digits_length v h hw, strLen_eq, List.length_cons,
    List.length_nil]
  omega

/-- The digits are upper-case hexadecimal; the prefixed form starts with `T1`. -/
theorem format_charset (h : Hash) :
    (∀ d ∈ Spec.digits h, (48 ≤ d ∧ d ≤ 57) ∨ (65 ≤ d ∧ d ≤ 70)) ∧
    (Spec.format h .withVersion).take 2 = [84, 49] ∧
    Spec.format h .empty = Spec.digits h := by
  refine ⟨?_, rfl, rfl⟩
  intro d hd
  unfold Spec.digits at hd
  simp only [List.mem_append, List.mem_flatMap] at hd
  rcases hd with ((⟨b, _, hb⟩ | hb) | hb) | ⟨b, _, hb⟩
  · exact fmtRev_charset b d hb
  · exact fmtRev_charset _ d hb
  · exact fmtRev_charset _ d hb
  · exact fmtFwd_charset b d hb

/-- Parsing the canonical text of a hash gives the hash back — with the prefix
mode stated explicitly and with auto-detection (lenient parser, any decoder). -/
theorem parse_format (c : Model.CodecCfg) (hc : c.strict = false) (v : Variant) (h : Hash)
    (hw : h.WF v) (p : Spec.Prefix) :
    Model.fromStrBytes Ref.codec Ref.strict c v (Spec.format h p) (some (toModel p)) = .ok h ∧
    Model.fromStrBytes Ref.codec Ref.strict c v (Spec.format h p) none = .ok h := by
  have hlen := format_length v h hw
  have hd := (parseDigits_lenient_ok v _ h).mpr (decodeDigits_digits v h hw)
  have hne : v.strLen ≠ v.strLen - 2 := by rw [strLen_eq]; omega
  rw [fromStr_eq, fromStr_eq, hc]
  unfold parseRef Spec.resolvePrefix
  cases p
  · simp only [Option.map_some, Option.map_none, toModel, toSpec, hlen.2, if_true, ne_eq,
      not_true_eq_false, if_false]
    exact ⟨hd, hd⟩
  · have h2 : (Spec.format h .withVersion).drop 2 = Spec.digits h := rfl
    have h3 : (Spec.format h .withVersion).take 2 = [84, 49] := rfl
    simp only [Option.map_some, Option.map_none, toModel, toSpec, hlen.1, hne, if_true, if_false,
      ne_eq, not_true_eq_false, h2, h3]
    exact ⟨hd, hd⟩

/-- Whatever the parser accepts, formatting the result gives the input's digits
upper-cased, behind `T1` (any cfg, strict or lenient). -/
theorem format_parse (c : Model.CodecCfg) (v : Variant) (s : List UInt8) (m : Option Model.Prefix)
    (h : Hash) (hok : Model.fromStrBytes Ref.codec Ref.strict c v s m = .ok h) :
    ∃ p, Spec.resolvePrefix v s (m.map toSpec) = some p ∧
      Spec.format h .withVersion = [84, 49] ++ (Spec.stripPrefix s p).map Spec.upper := by
  rw [fromStr_eq, parseRef_ok_iff] at hok
  obtain ⟨p, hr, hl, _, hd⟩ := hok
  refine ⟨p, hr, ?_⟩
  have hlen := stripPrefix_length v s _ p hr hl
  have hd' := parseDigits_ok_lenient _ _ _ _ hd
  rw [parseDigits_lenient_ok] at hd'
  unfold Spec.format Spec.prefixBytes
  rw [digits_of_decodeDigits v _ h hlen hd']

/-- The parser output has the shape of the variant. -/
theorem parse_wf (c : Model.CodecCfg) (v : Variant) (s : List UInt8) (m : Option Model.Prefix)
    (h : Hash) (hok : Model.fromStrBytes Ref.codec Ref.strict c v s m = .ok h) : h.WF v := by
  rw [fromStr_eq, parseRef_ok_iff] at hok
  obtain ⟨p, hr, hl, _, hd⟩ := hok
  have hd' := (parseDigits_lenient_ok _ _ _).mp (parseDigits_ok_lenient _ _ _ _ hd)
  exact decodeDigits_wf v _ h (stripPrefix_length v s _ p hr hl) hd'

/-- Two accepted strings denote the same hash exactly when their digits parts
agree up to letter case (prefix presence and mode are irrelevant). -/
theorem parse_injective_up_to_case_and_prefix (c₁ c₂ : Model.CodecCfg) (v : Variant)
    (s₁ s₂ : List UInt8) (m₁ m₂ : Option Model.Prefix) (h₁ h₂ : Hash) (p₁ p₂ : Spec.Prefix)
    (ok₁ : Model.fromStrBytes Ref.codec Ref.strict c₁ v s₁ m₁ = .ok h₁)
    (ok₂ : Model.fromStrBytes Ref.codec Ref.strict c₂ v s₂ m₂ = .ok h₂)
    (r₁ : Spec.resolvePrefix v s₁ (m₁.map toSpec) = some p₁)
    (r₂ : Spec.resolvePrefix v s₂ (m₂.map toSpec) = some p₂) :
    h₁ = h₂ ↔ (Spec.stripPrefix s₁ p₁).map Spec.upper = (Spec.stripPrefix s₂ p₂).map Spec.upper := by
  obtain ⟨q₁, e₁, f₁⟩ := format_parse c₁ v s₁ m₁ h₁ ok₁
  obtain ⟨q₂, e₂, f₂⟩ := format_parse c₂ v s₂ m₂ h₂ ok₂
  rw [r₁] at e₁; cases e₁
  rw [r₂] at e₂; cases e₂
  constructor
  · rintro rfl
    rw [f₁] at f₂
    exact List.append_cancel_left f₂
  · intro heq
    rw [← heq, ← f₁] at f₂
    have w₁ := parse_wf c₁ v s₁ m₁ h₁ ok₁
    have w₂ := parse_wf c₂ v s₂ m₂ h₂ ok₂
    have a₁ := (parse_format {} rfl v h₁ w₁ .withVersion).1
    have a₂ := (parse_format {} rfl v h₂ w₂ .withVersion).1
    rw [f₂, a₁] at a₂
    cases a₂; rfl

/-- Non-vacuity: the all-zero `normal` hash is well formed, its text is
`T1` followed by seventy `0`, and that text parses back. -/
example :
    let h : Hash := ⟨[0], 0, 0, List.replicate 32 0⟩
    h.WF Variant.normal ∧ Spec.format h .withVersion = [84, 49] ++ List.replicate 70 48 ∧
      Model.fromStrBytes Ref.codec Ref.strict {} Variant.normal (Spec.format h .withVersion) none
        = .ok h := by
  intro h
  have hw : h.WF Variant.normal := ⟨rfl, by decide⟩
  exact ⟨hw, by decide +kernel, (parse_format {} rfl _ h hw .withVersion).2⟩

end TlshVerif.Theorems.C04
