/-
C05 — The text parser accepts exactly the well-formed strings and never panics.

Property theorems only.  `Model.fromStrBytes` is the model of
`FuzzyHashType::from_str_bytes` with every `cfg_if!` decoder ladder; it is
instantiated at the reference tables `Ref.codec` (equal to the tables extracted
from the Rust source by `C04.tables`) and `Ref.strict`.  `Codec.toSpec` maps the
model's prefix mode to the spec's (`empty ↦ empty`, `withVersion ↦ withVersion`).
-/
import TlshVerif.Lemmas.CodecParse

namespace TlshVerif.Theorems.C05

open TlshVerif Codec

/-- The parser terminates normally (`Ok` or `Err`, never a panic or UB) on every
byte string, for every prefix mode, variant and build configuration (strict or
lenient). -/
theorem parse_total (c : Model.CodecCfg) (v : Variant) (s : List UInt8) (m : Option Model.Prefix) :
    (Model.fromStrBytes Ref.codec Ref.strict c v s m).Defined := by
  rw [fromStr_eq]
  rcases parseRef_defined c.strict v s (m.map toSpec) with ⟨h, e⟩ | ⟨e', e⟩ <;> rw [e] <;> trivial

/-- Lenient parser: success exactly on the well-formed strings. -/
theorem parse_ok_iff (c : Model.CodecCfg) (hc : c.strict = false) (v : Variant) (s : List UInt8)
    (m : Option Model.Prefix) :
    (∃ h, Model.fromStrBytes Ref.codec Ref.strict c v s m = .ok h) ↔
      Spec.wellFormed v s (m.map toSpec) = true := by
  rw [fromStr_eq, hc]
  simp only [parseRef_ok_iff, parseDigits_lenient_ok]
  unfold Spec.wellFormed
  constructor
  · rintro ⟨h, p, hr, hl, hp, hd⟩
    have hlen := stripPrefix_length v s _ p hr hl
    have := decodeDigits_isSome v _ hlen
    rw [hd] at this
    have hall : (Spec.stripPrefix s p).all Spec.isHexDigit = true := by rw [← this]; rfl
    rw [hl, hr]
    simp only [hall, Bool.true_and, Bool.and_true, Bool.or_eq_true, decide_eq_true_eq]
    exact hp
  · intro hw
    rw [Bool.and_eq_true] at hw
    obtain ⟨hl, hw⟩ := hw
    cases hr : Spec.resolvePrefix v s (m.map toSpec) with
    | none => rw [hr] at hw; simp at hw
    | some p =>
      rw [hr] at hw
      simp only [Bool.and_eq_true, Bool.or_eq_true, decide_eq_true_eq] at hw
      have hlen := stripPrefix_length v s _ p hr hl
      have := decodeDigits_isSome v _ hlen
      rw [hw.2, Option.isSome_iff_exists] at this
      obtain ⟨h, hh⟩ := this
      exact ⟨h, p, rfl, hl, hw.1, hh⟩

/-- Lenient parser: the value returned is the one the digits denote. -/
theorem parse_value (c : Model.CodecCfg) (hc : c.strict = false) (v : Variant) (s : List UInt8)
    (m : Option Model.Prefix) (h : Hash)
    (hok : Model.fromStrBytes Ref.codec Ref.strict c v s m = .ok h) :
    ∃ p, Spec.resolvePrefix v s (m.map toSpec) = some p ∧
      Spec.decodeDigits v (Spec.stripPrefix s p) = some h := by
  rw [fromStr_eq, hc, parseRef_ok_iff] at hok
  obtain ⟨p, hr, _, _, hd⟩ := hok
  exact ⟨p, hr, (parseDigits_lenient_ok _ _ _).mp hd⟩

/-- `InvalidStringLength` is returned exactly when the length is wrong for the
requested / detected prefix mode — strict or lenient. -/
theorem parse_err_length (c : Model.CodecCfg) (v : Variant) (s : List UInt8) (m : Option Model.Prefix) :
    Model.fromStrBytes Ref.codec Ref.strict c v s m = .err .invalidStringLength ↔
      Spec.lengthOk v s (m.map toSpec) = false := by
  rw [fromStr_eq, parseRef_err_iff]
  constructor
  · rintro (⟨h, _⟩ | ⟨_, _, _, h⟩ | ⟨p, _, _, _, h⟩)
    · exact h
    · cases h
    · rcases parseDigits_cases c.strict v (Spec.stripPrefix s p) with ⟨_, h'⟩ | h' | ⟨_, h' | h'⟩ <;>
        rw [h'] at h <;> cases h
  · intro h; exact .inl ⟨h, rfl⟩

/-- Lenient parser: which errors occur and when.  `InvalidPrefix` only for a
"T1"-mode string of the right length that does not start with `T1`;
`InvalidCharacter` only for a string of the right length (and right prefix)
with a non-hexadecimal byte in the digits part; nothing else apart from
`InvalidStringLength` (see `parse_err_length`). -/
theorem parse_err_applicable (c : Model.CodecCfg) (hc : c.strict = false) (v : Variant)
    (s : List UInt8) (m : Option Model.Prefix) (e : ParseError)
    (herr : Model.fromStrBytes Ref.codec Ref.strict c v s m = .err e) :
    (e = .invalidStringLength ∧ Spec.lengthOk v s (m.map toSpec) = false) ∨
    (e = .invalidPrefix ∧ Spec.lengthOk v s (m.map toSpec) = true ∧
      Spec.resolvePrefix v s (m.map toSpec) = some .withVersion ∧ s.take 2 ≠ [84, 49]) ∨
    (e = .invalidCharacter ∧ Spec.lengthOk v s (m.map toSpec) = true ∧
      ∃ p, Spec.resolvePrefix v s (m.map toSpec) = some p ∧ (p = .empty ∨ s.take 2 = [84, 49]) ∧
        ∃ b ∈ Spec.stripPrefix s p, Spec.isHexDigit b = false) := by
  rw [fromStr_eq, hc, parseRef_err_iff] at herr
  rcases herr with ⟨h, rfl⟩ | ⟨h1, h2, h3, rfl⟩ | ⟨p, hr, hl, hp, hd⟩
  · exact .inl ⟨rfl, h⟩
  · exact .inr (.inl ⟨rfl, h1, h2, h3⟩)
  · rw [parseDigits_lenient_err] at hd
    obtain ⟨hd, rfl⟩ := hd
    refine .inr (.inr ⟨rfl, hl, p, hr, hp, ?_⟩)
    have := decodeDigits_isSome v _ (stripPrefix_length v s _ p hr hl)
    rw [hd] at this
    have := this.symm
    simpa using this

/-- Non-vacuity: a well-formed 72-character string (plus `T1`) parses under
auto-detection, a 71-character one is a length error, and a bad digit is an
`InvalidCharacter`. -/
example :
    (∃ h, Model.fromStrBytes Ref.codec Ref.strict {} Variant.normal
      ([84, 49] ++ List.replicate 70 97) none = .ok h) ∧
    Model.fromStrBytes Ref.codec Ref.strict {} Variant.normal (List.replicate 71 65) none
      = .err .invalidStringLength ∧
    Model.fromStrBytes Ref.codec Ref.strict {} Variant.normal (List.replicate 70 71) none
      = .err .invalidCharacter := by
  refine ⟨?_, ?_, ?_⟩
  · rw [parse_ok_iff _ rfl]; decide +kernel
  · rw [parse_err_length]; decide +kernel
  · decide +kernel

end TlshVerif.Theorems.C05
