/-
C06 — Binary form and accessors.

Property theorems only.  `Model.tryFromSlice` / `Model.tryFromArray` model
`TryFrom<&[u8]>` / `TryFrom<&[u8; N]>`, `Model.storeIntoBytes` models
`store_into_bytes`, `Model.quartile` models `FuzzyHashBody::quartile`,
`Model.clearChecksum` models `clear_checksum`.  These operations do not use the
codec tables; the statements hold for arbitrary strict-parser constants `S`
unless stated otherwise and for every build configuration `c`.
-/
import TlshVerif.Lemmas.CodecBin

namespace TlshVerif.Theorems.C06

open TlshVerif Codec

/-- Lenient `try_from(&[u8])` on a slice of the right size returns the hash whose
fields are the slices of the input — and its binary form is the input. -/
theorem tryFrom_bytes (S : Model.StrictConsts) (c : Model.CodecCfg) (hc : c.strict = false)
    (v : Variant) (b : List UInt8) (hb : b.length = v.binLen) :
    Model.tryFromSlice S c v b = .ok (Spec.ofBytes v b) ∧ (Spec.ofBytes v b).toBytes = b ∧
      (Spec.ofBytes v b).WF v := by
  refine ⟨?_, ofBytes_toBytes v b hb, ofBytes_wf v b hb⟩
  unfold Model.tryFromSlice
  rw [if_neg (by simpa using hb), tryFromArray_eq S c v b hb, hc]
  simp

/-- Lenient `try_from` of the binary form of a hash returns the hash. -/
theorem tryFrom_store (S : Model.StrictConsts) (c : Model.CodecCfg) (hc : c.strict = false)
    (v : Variant) (h : Hash) (hw : h.WF v) :
    Model.tryFromSlice S c v h.toBytes = .ok h := by
  have := (tryFrom_bytes S c hc v h.toBytes (toBytes_length v h hw)).1
  rwa [ofBytes_of_toBytes v h hw] at this

/-- `store_into_bytes` into a large enough buffer followed by lenient `try_from`
of the written part is the identity; the written part is `h.toBytes`. -/
theorem store_tryFrom (S : Model.StrictConsts) (c : Model.CodecCfg) (hc : c.strict = false)
    (v : Variant) (h : Hash) (hw : h.WF v) (buf : List UInt8) (hbuf : v.binLen ≤ buf.length) :
    (Model.storeIntoBytes v h buf).1 = .ok v.binLen ∧
    (Model.storeIntoBytes v h buf).2.take v.binLen = h.toBytes ∧
    Model.tryFromSlice S c v ((Model.storeIntoBytes v h buf).2.take v.binLen) = .ok h := by
  have hl := toBytes_length v h hw
  have h1 : Model.storeIntoBytes v h buf = (.ok v.binLen, Model.overwrite buf h.toBytes) := by
    unfold Model.storeIntoBytes
    rw [if_neg (by omega)]; rfl
  have h2 : (Model.overwrite buf h.toBytes).take v.binLen = h.toBytes := by
    rw [← hl]; exact overwrite_take _ _
  rw [h1]
  exact ⟨rfl, h2, by simp only [h2]; exact tryFrom_store S c hc v h hw⟩

/-- A slice of the wrong size is rejected with `InvalidStringLength` (any cfg). -/
theorem tryFrom_slice_len (S : Model.StrictConsts) (c : Model.CodecCfg) (v : Variant)
    (b : List UInt8) (hb : b.length ≠ v.binLen) :
    Model.tryFromSlice S c v b = .err .invalidStringLength := by
  unfold Model.tryFromSlice
  rw [if_pos hb]

/-- `try_from(&[u8])` never panics (any cfg, including strict and `unsafe`). -/
theorem tryFrom_total (S : Model.StrictConsts) (c : Model.CodecCfg) (v : Variant) (b : List UInt8) :
    (Model.tryFromSlice S c v b).Defined := by
  unfold Model.tryFromSlice
  split
  · trivial
  · rename_i hb
    rw [tryFromArray_eq S c v b (Decidable.not_not.mp hb)]
    repeat' split
    all_goals trivial

/-- `quartile(i)` is dibit `i` of the body for `i < NUM_BUCKETS`, and panics
(assertion) otherwise. -/
theorem quartile_spec (v : Variant) (hv : v.Valid) (h : Hash) (hw : h.WF v) (i : Nat) :
    (i < v.buckets → Model.quartile v h i = .ok (Spec.quartile h i)) ∧
    (¬ i < v.buckets → ∃ w, Model.quartile v h i = .panic w) := by
  obtain ⟨_, w2⟩ := hw
  unfold Variant.bodyLen at w2
  have h4 : v.buckets % 4 = 0 := by
    simp [Variant.Valid, Variant.all] at hv
    rcases hv with rfl | rfl | rfl | rfl | rfl <;> rfl
  unfold Model.quartile Spec.quartile
  constructor
  · intro hi
    rw [if_neg (by simpa using hi)]
    have hlt : h.body.length - 1 - i / 4 < h.body.length := by omega
    rw [List.getD_eq_getElem?_getD, List.getElem?_eq_getElem hlt]
    rfl
  · intro hi
    rw [if_pos hi]
    exact ⟨_, rfl⟩

/-- The text form is the binary form with the nibbles of the header bytes
(checksum, length code, Q-ratio byte) swapped, written high nibble first. -/
theorem hex_eq_swapped_header (h : Hash) :
    let swap : UInt8 → UInt8 := fun b => (b <<< 4) ||| (b >>> 4)
    (∀ b, Spec.fmtRev b = Spec.fmtFwd (swap b)) ∧
    Spec.format h .withVersion =
      [84, 49] ++ ((h.checksum ++ [h.lvalue, h.qratios]).map swap ++ h.body).flatMap Spec.fmtFwd := by
  intro swap
  have hs : ∀ b, Spec.fmtRev b = Spec.fmtFwd (swap b) := fmtRev_eq_fmtFwd_swap
  refine ⟨hs, ?_⟩
  unfold Spec.format Spec.prefixBytes Spec.digits
  simp only [List.flatMap_append, List.flatMap_map, ← hs, List.flatMap_cons, List.flatMap_nil,
    List.append_nil, List.append_assoc, List.map_append, List.map_cons, List.map_nil]

/-- `clear_checksum` zeroes the checksum bytes and nothing else. -/
theorem clear_checksum_spec (h : Hash) :
    (Model.clearChecksum h).toBytes =
      List.replicate h.checksum.length 0 ++ h.toBytes.drop h.checksum.length := by
  unfold Model.clearChecksum Hash.toBytes
  simp [List.map_const']

/-- Non-vacuity: a concrete 35-byte array, its hash, dibit 1, and the panic at 128. -/
example :
    let b : List UInt8 := 0xAB :: 0x12 :: 0x34 :: (List.replicate 31 0 ++ [0xE4])
    Model.tryFromSlice Ref.strict {} Variant.normal b = .ok (Spec.ofBytes Variant.normal b) ∧
    Model.quartile Variant.normal (Spec.ofBytes Variant.normal b) 1 = .ok 1 ∧
    (∃ w, Model.quartile Variant.normal (Spec.ofBytes Variant.normal b) 128 = .panic w) := by
  intro b
  have hb : b.length = Variant.normal.binLen := by decide
  refine ⟨(tryFrom_bytes _ _ rfl _ b hb).1, by decide +kernel, ?_⟩
  exact (quartile_spec _ (by decide) _ (ofBytes_wf _ b hb) 128).2 (by decide)

end TlshVerif.Theorems.C06
