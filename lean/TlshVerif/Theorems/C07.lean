/-
C07 — Results do not depend on feature configuration or SIMD back end.

Property theorems only.  Each `cfg_if!` ladder of the Rust is a field of a model
configuration record (`Cfg`, `CodecCfg`, `CompareCfg`); the specs have no
configuration at all, so "every configuration equals the spec" gives
independence.  `strict-parser` and `serde` are not optimisation-only features and
are held fixed.  Thread scheduling around `OnceLock` is not modelled: the
theorem is that *every candidate* the dispatcher can install computes the same
function, so the result is the same whichever initialiser wins
(`OnceLock::get_or_init` returns the value of one of the racing initialisers —
trusted contract).
-/
import TlshVerif.Lemmas.GenerateCfg
import TlshVerif.Theorems.C01
import TlshVerif.Theorems.C02
import TlshVerif.Theorems.C04
import TlshVerif.Theorems.C14

namespace TlshVerif.Theorems.C07

open TlshVerif Model

/-- Generation with *any* configuration (low-memory buckets, any aggregation back
end — naive, SSE2, SSSE3, AVX2 — with any content of the `undefined` registers,
debug assertions, `unsafe`) equals the reference algorithm, for every input and
chunking. -/
theorem generate_any_cfg_eq_spec (u0 u1 : M128) (cfg : Cfg) (v : Variant) (hv : v.Valid) (o : Options)
    (ps : List (List UInt8)) :
    genFinalizeCfg u0 u1 Gen.params cfg v (ps.foldl (genUpdate Gen.params cfg v) (genInit cfg v)) o
      = specOutcome (Spec.tlsh v o ps.flatten) := by
  have hst : ps.foldl (genUpdate Gen.params cfg v) (genInit cfg v)
      = ideal (refStep cfg v) (initAcc cfg v) ps.flatten := by
    rw [C01.params_eq]
    show ps.foldl (update _) (init _) = _
    rw [← ideal_nil, foldl_update_ideal]; simp
  rw [genFinalizeCfg_eq u0 u1 Gen.params cfg v hv _ o
    (by rw [hst]; exact bucketData_length_any cfg v hv ps.flatten)]
  exact C01.generate_chunked_eq_spec cfg v hv o ps

/-- Hence two optimisation-only configurations always agree on generation. -/
theorem generate_cfg_irrelevant (u0 u1 u0' u1' : M128) (cfg cfg' : Cfg) (v : Variant) (hv : v.Valid)
    (o : Options) (ps : List (List UInt8)) :
    genFinalizeCfg u0 u1 Gen.params cfg v (ps.foldl (genUpdate Gen.params cfg v) (genInit cfg v)) o
      = genFinalizeCfg u0' u1' Gen.params cfg' v (ps.foldl (genUpdate Gen.params cfg' v) (genInit cfg' v)) o := by
  rw [generate_any_cfg_eq_spec u0 u1 cfg v hv, generate_any_cfg_eq_spec u0' u1' cfg' v hv]

/-- Every aggregation candidate the dispatcher can install equals the naive function. -/
theorem aggregation_dispatch_any (be : AggBackend) (u0 u1 : M128) (v : Variant) (hv : v.Valid)
    (b : List UInt32) (hb : b.length = v.buckets) (q1 q2 q3 : UInt32) (h12 : q1 ≤ q2) (h23 : q2 ≤ q3) :
    aggregateWith be u0 u1 b q1 q2 q3 = aggregateNaive b q1 q2 q3 := by
  apply aggregateWith_eq_naive be u0 u1 (v.buckets / 8) b _ q1 q2 q3 h12 h23
  rw [hb]
  rcases valid_cases hv with h | h | h | h | h <;> subst h <;> decide

/-- Every body-distance candidate the dispatcher can install equals the pseudo-SIMD function. -/
theorem distance_dispatch_any (be : DistBackend) (v : Variant) (hv : v.Valid) (a b : List UInt8)
    (ha : a.length = v.bodyLen) (hb : b.length = v.bodyLen) :
    distBodyWith be v a b = distBodyWith .pseudo32 v a b := by
  rw [C02.body_backends_agree be v hv a b ha hb, C02.body_backends_agree .pseudo32 v hv a b ha hb]

/-- Comparison: all 5 × 2 × 3 comparison configurations agree. -/
theorem compare_cfg_irrelevant (c c' : CompareCfg) (v : Variant) (hv : v.Valid) (a b : Hash)
    (ha : a.WF v) (hb : b.WF v) (nl : Bool) :
    compareHashes Gen.compareRaw c v a b nl = compareHashes Gen.compareRaw c' v a b nl := by
  rw [C02.compare_eq_spec_gen c v hv a b ha hb nl, C02.compare_eq_spec_gen c' v hv a b ha hb nl]

/-- Parsing: the four table decoders and the hex-simd contract agree (same `strict-parser` setting). -/
theorem parse_cfg_irrelevant (c c' : CodecCfg) (hs : c.strict = c'.strict) (v : Variant) (s : List UInt8)
    (m : Option Prefix) :
    fromStrBytes Ref.codec Ref.strict c v s m = fromStrBytes Ref.codec Ref.strict c' v s m := by
  rw [Codec.fromStr_eq, Codec.fromStr_eq, hs]

/-- Formatting: the three table encoders and the hex-simd contract agree. -/
theorem format_cfg_irrelevant (c c' : CodecCfg) (h : Hash) :
    hexDigits Ref.codec c h = hexDigits Ref.codec c' h := by
  rw [C04.encode_eq_spec, C04.encode_eq_spec]

/-- The double Pearson table is *defined* as two single steps; the compiled
table is compared with this formula entry by entry (stream `tables`). -/
theorem pearson_double (P : GenParams) (s b1 b2 : UInt8) :
    updateDouble P s b1 b2 = pearsonUpdate P (pearsonUpdate P s b1) b2 := rfl

/-- Non-vacuity: two genuinely different configurations. -/
example : ({ lowMemBuckets := true, aggBackend := .sse2 } : Cfg) ≠ { aggBackend := .avx2, unsafe_ := true } := by
  decide

end TlshVerif.Theorems.C07
