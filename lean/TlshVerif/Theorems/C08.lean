/-
C08 — The distance is a well-behaved dissimilarity measure: zero on identical
hashes (and only there in default mode), symmetric, bounded by a maximum that is
attained, and its two modes and `clear_checksum` relate as documented.

Property theorems only.  Everything is first proved about the reference
distance `Spec.distance`; the `…_model` corollaries transfer it through
`C02.compare_eq_spec` to `compare_with_config` of every back end and every
table configuration.
-/
import TlshVerif.Theorems.C02
import TlshVerif.Model.Codec

namespace TlshVerif.Theorems.C08

open TlshVerif Model Lemmas.Dist

/-! ### the reference distance -/

/-- A hash is at distance zero from itself, in both modes. -/
theorem dist_self (a : Hash) (nl : Bool) : Spec.distance a a nl = 0 := by
  unfold Spec.distance
  rw [bodyDist_self, checksumDist_self, qratioDist_self, lengthDist_self]
  cases nl <;> rfl

/-- The distance is symmetric, in both modes (no shape assumption needed). -/
theorem dist_comm (a b : Hash) (nl : Bool) : Spec.distance a b nl = Spec.distance b a nl := by
  unfold Spec.distance
  rw [bodyDist_comm a.body, checksumDist_comm a.checksum, qratioDist_comm a.qratios,
    lengthDist_comm a.lvalue]

/-- Default mode separates points: two hashes of the same variant at distance
zero are equal — body, checksum, both Q-ratio nibbles and the length code. -/
theorem dist_eq_zero (v : Variant) (a b : Hash) (ha : a.WF v) (hb : b.WF v)
    (h : Spec.distance a b false = 0) : a = b := by
  unfold Spec.distance at h
  simp only [Bool.false_eq_true, if_false] at h
  have hbody := bodyDist_eq_zero a.body b.body (ha.2.trans hb.2.symm) (by omega)
  have hck := checksumDist_eq_zero a.checksum b.checksum (ha.1.trans hb.1.symm) (by omega)
  have hq := qratioDist_eq_zero a.qratios b.qratios (by omega)
  have hl := lengthDist_eq_zero a.lvalue b.lvalue (by omega)
  cases a; cases b
  simp_all

/-- In no-length mode the distance ignores exactly the length code: hashes at
distance zero agree on body, checksum and Q ratios. -/
theorem dist_eq_zero_nolength (v : Variant) (a b : Hash) (ha : a.WF v) (hb : b.WF v)
    (h : Spec.distance a b true = 0) : { a with lvalue := b.lvalue } = b := by
  unfold Spec.distance at h
  simp only [if_true] at h
  have hbody := bodyDist_eq_zero a.body b.body (ha.2.trans hb.2.symm) (by omega)
  have hck := checksumDist_eq_zero a.checksum b.checksum (ha.1.trans hb.1.symm) (by omega)
  have hq := qratioDist_eq_zero a.qratios b.qratios (by omega)
  cases a; cases b
  simp_all

/-- The distance never exceeds `max_distance` of the variant and mode. -/
theorem dist_le_max (v : Variant) (a b : Hash) (ha : a.WF v) (_hb : b.WF v) (nl : Bool) :
    Spec.distance a b nl ≤ Spec.maxDistance v nl := by
  unfold Spec.distance Spec.maxDistance
  have h1 := bodyDist_le a.body b.body
  have h2 := checksumDist_le a.checksum b.checksum
  have h3 := qratioDist_le a.qratios b.qratios
  have h4 := lengthDist_le a.lvalue b.lvalue
  rw [ha.2] at h1
  rw [ha.1] at h2
  cases nl
  · simp only [Bool.false_eq_true, if_false]; omega
  · simp only [if_true]; omega

/-- The maximum is attained (for every variant shape, in both modes): all-`00`
against all-`ff` bodies, differing checksum bytes, Q ratios `00` / `88`, length
codes 0 / 128. -/
theorem max_attained (v : Variant) (nl : Bool) :
    ∃ a b : Hash, a.WF v ∧ b.WF v ∧ Spec.distance a b nl = Spec.maxDistance v nl := by
  refine ⟨⟨List.replicate v.cksum 0, 0, 0x00, List.replicate v.bodyLen 0x00⟩,
    ⟨List.replicate v.cksum 1, 128, 0x88, List.replicate v.bodyLen 0xff⟩,
    ⟨List.length_replicate, List.length_replicate⟩,
    ⟨List.length_replicate, List.length_replicate⟩, ?_⟩
  unfold Spec.distance Spec.maxDistance
  have hb : Spec.byteDist 0x00 0xff = 24 := by decide
  have hq : Spec.qratioDist 0x00 0x88 = 168 := by decide
  have hl : Spec.lengthDist 0 128 = 1536 := by decide
  simp only [bodyDist_replicate, checksumDist_replicate 0 1 (by decide), hb, hq, hl]
  cases nl
  · simp only [Bool.false_eq_true, if_false]; omega
  · simp only [if_true]; omega

/-- Default mode = no-length mode + the length-code distance. -/
theorem default_eq_nolength_add_length (a b : Hash) :
    Spec.distance a b false = Spec.distance a b true + Spec.lengthDist a.lvalue b.lvalue := by
  unfold Spec.distance
  simp

/-- `clear_checksum` on both sides removes exactly the checksum term. -/
theorem clear_checksum_law (a b : Hash) (nl : Bool)
    (_hlen : a.checksum.length = b.checksum.length) :
    Spec.distance (clearChecksum a) (clearChecksum b) nl + Spec.checksumDist a.checksum b.checksum
      = Spec.distance a b nl := by
  unfold Spec.distance clearChecksum
  simp only [checksumDist_map_const]
  omega

/-- `clear_checksum` keeps a hash well formed. -/
theorem clear_checksum_wf (v : Variant) (a : Hash) (ha : a.WF v) : (clearChecksum a).WF v := by
  obtain ⟨h1, h2⟩ := ha
  exact ⟨by simpa [clearChecksum] using h1, h2⟩

/-! ### transferred to `compare_with_config` (every back end / table configuration) -/

/-- `compare_with_config(a, a)` is 0 for every back end, table configuration and mode. -/
theorem dist_self_model (c : CompareCfg) (v : Variant) (hv : v.Valid) (a : Hash) (ha : a.WF v)
    (nl : Bool) : compareHashes Ref.compareRaw c v a a nl = 0 := by
  rw [C02.compare_eq_spec c v hv a a ha ha nl, dist_self]

/-- `compare_with_config` is symmetric (also with the swapped-index Q-ratio tables). -/
theorem dist_comm_model (c : CompareCfg) (v : Variant) (hv : v.Valid) (a b : Hash) (ha : a.WF v)
    (hb : b.WF v) (nl : Bool) :
    compareHashes Ref.compareRaw c v a b nl = compareHashes Ref.compareRaw c v b a nl := by
  rw [C02.compare_eq_spec c v hv a b ha hb nl, C02.compare_eq_spec c v hv b a hb ha nl, dist_comm]

/-- In default mode `compare_with_config` returns 0 only on equal hashes. -/
theorem dist_eq_zero_model (c : CompareCfg) (v : Variant) (hv : v.Valid) (a b : Hash) (ha : a.WF v)
    (hb : b.WF v) (h : compareHashes Ref.compareRaw c v a b false = 0) : a = b := by
  rw [C02.compare_eq_spec c v hv a b ha hb false] at h
  exact dist_eq_zero v a b ha hb h

/-- `compare_with_config` never exceeds `max_distance(config)`. -/
theorem dist_le_max_model (c : CompareCfg) (v : Variant) (hv : v.Valid) (a b : Hash) (ha : a.WF v)
    (hb : b.WF v) (nl : Bool) :
    compareHashes Ref.compareRaw c v a b nl ≤ Model.maxDistance Ref.compareRaw v nl := by
  rw [C02.compare_eq_spec c v hv a b ha hb nl, C02.max_distance_eq_spec v hv nl]
  exact dist_le_max v a b ha hb nl

/-- `max_distance(config)` is returned for some pair of hashes, by every back end. -/
theorem max_attained_model (c : CompareCfg) (v : Variant) (hv : v.Valid) (nl : Bool) :
    ∃ a b : Hash, a.WF v ∧ b.WF v ∧
      compareHashes Ref.compareRaw c v a b nl = Model.maxDistance Ref.compareRaw v nl := by
  obtain ⟨a, b, ha, hb, h⟩ := max_attained v nl
  refine ⟨a, b, ha, hb, ?_⟩
  rw [C02.compare_eq_spec c v hv a b ha hb nl, C02.max_distance_eq_spec v hv nl, h]

/-- Default result = no-length result + `dist_length::distance` of the two length codes. -/
theorem default_eq_nolength_add_length_model (c : CompareCfg) (v : Variant) (hv : v.Valid)
    (a b : Hash) (ha : a.WF v) (hb : b.WF v) :
    compareHashes Ref.compareRaw c v a b false
      = compareHashes Ref.compareRaw c v a b true + distLength Ref.compareRaw c a.lvalue b.lvalue := by
  rw [C02.compare_eq_spec c v hv a b ha hb, C02.compare_eq_spec c v hv a b ha hb,
    C02.length_distance_eq_spec, default_eq_nolength_add_length]

/-- Clearing both checksums lowers the result by exactly the checksum distance. -/
theorem clear_checksum_law_model (c : CompareCfg) (v : Variant) (hv : v.Valid) (a b : Hash)
    (ha : a.WF v) (hb : b.WF v) (nl : Bool) :
    compareHashes Ref.compareRaw c v (clearChecksum a) (clearChecksum b) nl
        + distChecksum a.checksum b.checksum
      = compareHashes Ref.compareRaw c v a b nl := by
  rw [C02.compare_eq_spec c v hv _ _ (clear_checksum_wf v a ha) (clear_checksum_wf v b hb) nl,
    C02.compare_eq_spec c v hv a b ha hb nl, C02.checksum_distance_eq_spec]
  exact clear_checksum_law a b nl (ha.1.trans hb.1.symm)

/-! ### non-vacuity -/

/-- Well-formed hashes of a shipped variant exist, distinct ones are at positive
distance, and the bound of `dist_le_max` is not trivially loose. -/
example :
    let a : Hash := ⟨[7], 3, 0x21, [0, 1, 2, 3, 4, 5, 6, 7, 8, 9, 10, 11]⟩
    let b : Hash := ⟨[9], 250, 0x8f, [255, 1, 27, 3, 4, 5, 6, 7, 8, 9, 10, 228]⟩
    a.WF Variant.short ∧ b.WF Variant.short ∧ Spec.distance a b false = 224 ∧
      Spec.distance b a false = 224 ∧ Spec.distance a b true = 116 ∧
      Spec.maxDistance Variant.short false = 1993 ∧ Spec.maxDistance Variant.short true = 457 := by
  intro a b
  exact ⟨⟨rfl, rfl⟩, ⟨rfl, rfl⟩, by decide, by decide, by decide, by decide, by decide⟩

end TlshVerif.Theorems.C08
