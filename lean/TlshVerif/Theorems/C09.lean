/-
C09 — Length code: the CLZ-narrowed binary search of `FuzzyHashLengthEncoding::new`
returns, for every `u32` length, the least index of a `topval` entry `≥ n`
(`None` above 4 224 281 216); the code is monotone in the length; the ranges
reported by `range()` tile `[0, 4 224 281 216]` and invert the encoder.

Property theorems only.  Everything is proved for all `n : Nat` (no enumeration
of lengths); the only table checks are 33 + 32 rows on the CLZ index table and
the `Ref/Justify.lean` facts about `topval`.
-/
import TlshVerif.Lemmas.Length

namespace TlshVerif.Theorems.C09

open TlshVerif Model Lemmas.Length

/-- `FuzzyHashLengthEncoding::new(n)` on the reference parameters, for every build
configuration and every `u32` value `n`: a normal return (never a panic and, with
feature `unsafe`, never a false `invariant!` — `bottom ≤ 170`, `top ≤ 170`,
`bottom ≤ top` hold for every leading-zero class), `None` exactly above the
maximum, and otherwise the least index `i` with `n ≤ topval[i]`. -/
theorem encode_eq_least (cfg : Cfg) (n : Nat) (h : n < 2 ^ 32) :
    encodeLength Ref.params cfg n =
      .ok (if n ≤ 4224281216 then some (Spec.lengthCode n) else none) :=
  encodeLength_ref cfg n h

/-- The encoder never panics and never reaches undefined behaviour. -/
theorem encode_defined (cfg : Cfg) (n : Nat) (h : n < 2 ^ 32) :
    (encodeLength Ref.params cfg n).Defined := by
  rw [encode_eq_least cfg n h]; trivial

/-- A code exists exactly for lengths up to 4 224 281 216. -/
theorem encode_some_iff (cfg : Cfg) (n : Nat) (h : n < 2 ^ 32) :
    (∃ c, encodeLength Ref.params cfg n = .ok (some c)) ↔ n ≤ 4224281216 := by
  rw [encode_eq_least cfg n h]
  by_cases hn : n ≤ 4224281216
  · simp [hn]
  · simp [hn]

/-- The length code is monotone in the length. -/
theorem lengthCode_mono {n₁ n₂ : Nat} (h : n₁ ≤ n₂) :
    Spec.lengthCode n₁ ≤ Spec.lengthCode n₂ := by
  unfold Spec.lengthCode
  apply findIdx_le_of_imp
  intro x hx
  simp only [decide_eq_true_eq] at hx ⊢
  omega

/-- Monotonicity at the level of the encoder's results. -/
theorem encode_mono (cfg : Cfg) {n₁ n₂ c₁ c₂ : Nat} (h2 : n₂ < 2 ^ 32) (h : n₁ ≤ n₂)
    (e₁ : encodeLength Ref.params cfg n₁ = .ok (some c₁))
    (e₂ : encodeLength Ref.params cfg n₂ = .ok (some c₂)) : c₁ ≤ c₂ := by
  rw [encode_eq_least cfg n₁ (by omega)] at e₁
  rw [encode_eq_least cfg n₂ h2] at e₂
  have h₂ : n₂ ≤ 4224281216 := by
    false_or_by_contra; rename_i hc; rw [if_neg hc] at e₂; cases e₂
  rw [if_pos h₂] at e₂
  rw [if_pos (by omega)] at e₁
  cases e₁; cases e₂
  exact lengthCode_mono h

/-- Every hashable length has a code below 170 (so it fits the `u8` field and
the 170-entry table). -/
theorem lengthCode_lt_170 {n : Nat} (h : n ≤ 4224281216) : Spec.lengthCode n < 170 := by
  unfold Spec.lengthCode
  rw [← Ref.topval_length]
  apply List.findIdx_lt_length.2
  refine ⟨4224281216, ?_, by simpa using h⟩
  have := Ref.topval_last
  exact List.mem_of_getLast? this

/-- Model of Rust `FuzzyHashLengthEncoding::range()`: the inclusive interval of
lengths that encode to `c`. -/
def range (c : Nat) : Option (Nat × Nat) :=
  if c = 0 then some (0, Ref.topval.getD 0 0)
  else if c ≥ 170 then none
  else some (Ref.topval.getD (c - 1) 0 + 1, Ref.topval.getD c 0)

/-- Closed form of `range 0`: `[0, topval[0]]`. -/
theorem range_zero : range 0 = some (0, Ref.topval[0]'(by rw [Ref.topval_length]; omega)) := by
  unfold range
  rw [if_pos rfl, getD_topval]

/-- Closed form of `range c` for `0 < c < 170`: `[topval[c-1] + 1, topval[c]]`. -/
theorem range_pos {c : Nat} (h0 : c ≠ 0) (hc : c < 170) :
    range c = some (Ref.topval[c - 1]'(by rw [Ref.topval_length]; omega) + 1,
      Ref.topval[c]'(by rw [Ref.topval_length]; omega)) := by
  unfold range
  rw [if_neg h0, if_neg (show ¬ c ≥ 170 by omega), getD_topval, getD_topval]

/-- `range` inverts the encoder: a hashable length `n` encodes to `c` exactly
when it lies in `range c`. -/
theorem range_spec {n c : Nat} (hc : c < 170) :
    Spec.lengthCode n = c ↔ ∃ lo hi, range c = some (lo, hi) ∧ lo ≤ n ∧ n ≤ hi := by
  have hlen := Ref.topval_length
  have hc' : c < Ref.topval.length := by omega
  unfold Spec.lengthCode
  rw [List.findIdx_eq hc']
  simp only [decide_eq_true_eq, decide_eq_false_iff_not, Nat.not_le]
  by_cases h0 : c = 0
  · subst h0
    rw [range_zero]
    constructor
    · intro ⟨h, _⟩; exact ⟨_, _, rfl, Nat.zero_le _, h⟩
    · rintro ⟨lo, hi, heq, _, h⟩
      cases heq
      exact ⟨h, fun j hj => absurd hj (Nat.not_lt_zero _)⟩
  · rw [range_pos h0 hc]
    have hc1 : c - 1 < Ref.topval.length := by omega
    constructor
    · intro ⟨h, hj⟩
      exact ⟨_, _, rfl, hj (c - 1) (by omega), h⟩
    · rintro ⟨lo, hi, heq, hlo, h⟩
      cases heq
      refine ⟨h, fun j hj => ?_⟩
      have : Ref.topval[j]'(by omega) ≤ Ref.topval[c - 1] := topval_mono (by omega) hc1
      omega

/-- `range c` is undefined exactly for codes outside the table. -/
theorem range_none_iff (c : Nat) : range c = none ↔ c ≥ 170 := by
  unfold range
  by_cases h0 : c = 0
  · subst h0; simp
  · by_cases h : c ≥ 170
    · simp [h0, h]
    · simp [h0, h]

/-- The ranges tile `[0, 4 224 281 216]`: `range 0` starts at 0, each range ends
one below the start of the next, and `range 169` ends at the maximum. -/
theorem ranges_tile :
    (∃ hi, range 0 = some (0, hi)) ∧
    (∀ c, c < 169 → ∃ lo hi lo' hi', range c = some (lo, hi) ∧ range (c + 1) = some (lo', hi') ∧
      hi + 1 = lo') ∧
    (∃ lo, range 169 = some (lo, 4224281216)) := by
  refine ⟨⟨_, rfl⟩, ?_, ?_⟩
  · intro c hc
    have e2 : range (c + 1) = some (Ref.topval.getD c 0 + 1, Ref.topval.getD (c + 1) 0) := by
      unfold range
      rw [if_neg (by omega), if_neg (by omega), Nat.add_sub_cancel]
    by_cases h0 : c = 0
    · subst h0
      exact ⟨_, _, _, _, rfl, e2, rfl⟩
    · have e1 : range c = some (Ref.topval.getD (c - 1) 0 + 1, Ref.topval.getD c 0) := by
        unfold range
        rw [if_neg h0, if_neg (by omega)]
      exact ⟨_, _, _, _, e1, e2, rfl⟩
  · refine ⟨Ref.topval.getD 168 0 + 1, ?_⟩
    have h : Ref.topval.getD 169 0 = 4224281216 := by decide +kernel
    unfold range
    rw [if_neg (by omega), if_neg (by omega), h]

/-- Every range is non-empty (`lo ≤ hi`), so every code `0…169` is attained. -/
theorem range_nonempty {c lo hi : Nat} (h : range c = some (lo, hi)) : lo ≤ hi := by
  have hlen := Ref.topval_length
  by_cases hc : c ≥ 170
  · rw [(range_none_iff c).2 hc] at h; cases h
  by_cases h0 : c = 0
  · subst h0; rw [range_zero] at h; cases h; exact Nat.zero_le _
  · rw [range_pos h0 (by omega)] at h
    cases h
    have : Ref.topval[c - 1]'(by omega) < Ref.topval[c]'(by omega) :=
      topval_strictMono (by omega) (by omega)
    omega

/-- Non-vacuity: concrete values of the encoder, its boundary and a range. -/
example :
    encodeLength Ref.params {} 50 = .ok (some 9) ∧
    encodeLength Ref.params {} 4224281216 = .ok (some 169) ∧
    encodeLength Ref.params {} 4224281217 = .ok none ∧
    encodeLength Ref.params { unsafe_ := true } 1 = .ok (some 0) ∧
    range 11 = some (87, 129) ∧ Spec.lengthCode 87 = 11 ∧ Spec.lengthCode 86 = 10 := by
  decide +kernel

end TlshVerif.Theorems.C09
