/-
C10 — Published length limits are enforced; permissive options only widen acceptance.

Property theorems only.  All statements hold for *every* generator state
(reachable or injected), every parameter set, configuration and variant.
-/
import TlshVerif.Lemmas.Finalize
import TlshVerif.Lemmas.Options

namespace TlshVerif.Theorems.C10

open TlshVerif Model

/-- `o ≤ o'` in the permissiveness order: same Q-ratio mode; optimistic is more
permissive than conservative; each allow-flag may only be added. -/
def Options.le (o o' : Options) : Prop :=
  o.pureInt = o'.pureInt ∧ (o'.conservative = true → o.conservative = true) ∧
    (o.allowSmall = true → o'.allowSmall = true) ∧ (o.allowHalf = true → o'.allowHalf = true) ∧
    (o.allowQuarter = true → o'.allowQuarter = true)

/-- Finalisation reports a data-length error exactly when the published validity
classification of the fed length is an error for the selected mode and small
inputs are not explicitly allowed; too large is never waivable. -/
theorem length_error_iff (P : GenParams) (cfg : Cfg) (v : Variant) (s : GenState) (o : Options) :
    (genFinalize P cfg v s o = .err .tooLarge ∨ genFinalize P cfg v s o = .err .tooSmall) ↔
      ((validity P (vparams P v) (finLen s)).isErrOn o.conservative = true ∧
        ¬ (o.allowSmall = true ∧ validity P (vparams P v) (finLen s) ≠ .tooLarge)) :=
  genFinalizeWith_lengthError_iff _ P cfg v s o

/-- Making options more permissive never turns a success into a failure and
never changes the hash of an input that was already accepted. -/
theorem finalize_mono (P : GenParams) (cfg : Cfg) (v : Variant) (s : GenState) (o o' : Options)
    (hle : Options.le o o') (h : Hash) (hok : genFinalize P cfg v s o = .ok h) :
    genFinalize P cfg v s o' = .ok h :=
  genFinalizeWith_mono _ P cfg v s o o' hle.1 hle.2.1 hle.2.2.1 hle.2.2.2.1 hle.2.2.2.2 h hok

/-- Allowing three-quarter-empty buckets implies allowing half-empty ones. -/
theorem quarter_implies_half (P : GenParams) (cfg : Cfg) (v : Variant) (s : GenState) (o : Options)
    (hq : o.allowQuarter = true) : genFinalize P cfg v s o ≠ .err .halfEmpty ∧
      genFinalize P cfg v s o ≠ .err .threeQuarterEmpty :=
  genFinalizeWith_quarter _ P cfg v s o hq

/-- Non-vacuity: the order relates two different option settings. -/
example : Options.le ⟨true, false, false, false, false⟩ ⟨false, false, true, true, false⟩ := by
  simp [Options.le]

end TlshVerif.Theorems.C10
