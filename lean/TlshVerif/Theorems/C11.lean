/-
C11 — Oversized and > 4 GiB inputs are rejected cleanly; fed length reported exactly.

Property theorems only.  `Model.update` counts in unbounded `Nat` with every
clamp / saturation of the Rust written out (`min … (2^32-1)`, `MAX_LEN - len`),
so "no counter wraps" is the statement that every `u32` value the code computes
stays below 2³².
-/
import TlshVerif.Lemmas.Update
import TlshVerif.Lemmas.Finalize

namespace TlshVerif.Theorems.C11

open TlshVerif Model

/-- After *any* sequence of `update` calls of total size `n`, `processed_len()`
is `Some(n)` while `n < 2³²` and `None` from 2³² bytes on. -/
theorem processed_len_spec {α : Type} (f : α → List UInt8 → α) (a0 : α) (ps : List (List UInt8)) :
    processedLen (ps.foldl (update f) (init a0)) =
      if ps.flatten.length < 2 ^ 32 then some ps.flatten.length else none := by
  rw [← ideal_nil f a0, foldl_update_ideal, processedLen_ideal]
  simp

/-- The two `u32` counters never wrap: in every reachable state `len ≤ MAX_LEN`,
`tail_len ≤ 4`, and `len + tail_len ≤ 2³²` with equality only in the saturated
state (where `checked_add` returns `None`). -/
theorem counters_bounded {α : Type} (f : α → List UInt8 → α) (a0 : α) (ps : List (List UInt8)) :
    let s := ps.foldl (update f) (init a0)
    s.len ≤ maxLen ∧ s.tail.length ≤ 4 ∧ s.len + s.tail.length ≤ 2 ^ 32 ∧ s.len < 2 ^ 32 := by
  intro s
  have hs : s = ideal f a0 ps.flatten := by
    show ps.foldl (update f) (init a0) = _
    rw [← ideal_nil f a0, foldl_update_ideal]; simp
  rw [hs]
  simp only [ideal, tailSize_eq, maxLen_eq, List.length_drop, List.length_take]
  omega

/-- Each `self.len += data_len` stays within `u32`: the amount added by one
`update` never takes `len` past `MAX_LEN`, whatever the piece size (including
pieces longer than `u32::MAX`). -/
theorem update_len_no_overflow {α : Type} (f : α → List UInt8 → α) (a0 : α)
    (bs d : List UInt8) : (update f (ideal f a0 bs) d).len ≤ maxLen := by
  rw [update_ideal]
  simp only [ideal, tailSize_eq, maxLen_eq, List.length_take]
  omega

/-- Finalisation returns `TooLargeInput` exactly when more than 4 224 281 216
bytes were fed — for every variant, option setting, build configuration and
chunking, and whatever the bucket contents are. -/
theorem too_large_iff (cfg : Cfg) (v : Variant) (hv : v.Valid) (ps : List (List UInt8)) (o : Options) :
    genFinalize Ref.params cfg v (ps.foldl (genUpdate Ref.params cfg v) (genInit cfg v)) o
        = .err .tooLarge ↔ ps.flatten.length > 4224281216 := by
  unfold genFinalize
  rw [genFinalizeWith_tooLarge_iff, validity_ref_tooLarge_iff v hv]
  have hp := processed_len_spec (accStep Ref.params cfg (vparams Ref.params v)) (initAcc cfg v) ps
  unfold finLen
  show (processedLen (ps.foldl (update _) (init _))).getD _ > _ ↔ _
  rw [hp]
  generalize ps.flatten.length = n
  split <;> simp <;> omega

/-- Non-vacuity: a history that crosses nothing, and the arithmetic facts used. -/
example : processedLen ([[1, 2, 3], [], [4, 5]].foldl (update (fun (a : Nat) _ => a)) (init 0)) = some 5 := by
  rw [processed_len_spec]; rfl
example : (4224281216 : Nat) < 2 ^ 32 ∧ maxLen + 4 = 2 ^ 32 := by decide

end TlshVerif.Theorems.C11
