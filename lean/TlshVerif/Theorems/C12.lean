/-
C12 — Stream and file helpers hash exactly the bytes the reader delivered.

Property theorems only.  A reader is a script of `Read::read` results
(`Model.ReadEv`); `Spec.consume` is what a well-behaved consumer sees: the
delivered bytes up to the end of stream with transient interruptions skipped,
or the first hard error.
-/
import TlshVerif.Lemmas.Stream
import TlshVerif.Gen.Easy

namespace TlshVerif.Theorems.C12

open TlshVerif Model

/-- The reference result of a stream as a model outcome. -/
def specStream : Except StreamErr Hash → Outcome StreamErr Hash
  | .ok h => .ok h
  | .error e => .err e

/-- **With `Interrupted` retried** (the code after the fix), for every script
within the `Read` contract (any partial-read sizes 1…1 MiB, any number of
interruptions, total size unbounded — in particular larger than the internal
1 MiB buffer), every valid variant and configuration: hashing the stream gives
exactly the reference hash (or generator error) of the concatenation of the
delivered bytes; the first hard error is returned as an I/O error and no hash is
produced. -/
theorem stream_eq_spec (cfg : Cfg) (v : Variant) (hv : v.Valid) (script : List ReadEv)
    (hw : WellBehaved script) :
    hashStream true Ref.params cfg v script = specStream (Spec.hashStream v script) := by
  unfold hashStream Spec.hashStream
  have := hashStreamLoop_ideal (refStep cfg v) (initAcc cfg v) cfg.unsafe_ [] script hw
  rw [ideal_nil] at this
  show (match hashStreamLoop true (update (refStep cfg v)) cfg.unsafe_ (init (initAcc cfg v)) script with
    | .ok g => _ | .err e => _ | .panic w => _ | .ub w => _) = _
  rw [this]
  cases hc : Spec.consume script with
  | error k => rfl
  | ok d =>
    simp only [List.nil_append]
    rw [genFinalize_ideal_ref cfg v hv]
    cases Spec.tlsh v defaultOptions d <;> rfl

/-- No partial hash: if the script contains a hard error before the end of the
stream, the result is that I/O error. -/
theorem hard_error_wins (cfg : Cfg) (v : Variant) (hv : v.Valid) (script : List ReadEv)
    (hw : WellBehaved script) (k : String) (hk : Spec.consume script = .error k) :
    hashStream true Ref.params cfg v script = .err (.io k) := by
  rw [stream_eq_spec cfg v hv script hw]
  unfold Spec.hashStream
  rw [hk]; rfl

/-- **Partial (the pinned code, `Interrupted` propagated by `?`)**: the same
equation for scripts that contain no `Interrupted` event. -/
theorem stream_eq_spec_partial (cfg : Cfg) (v : Variant) (hv : v.Valid) (script : List ReadEv)
    (hw : WellBehaved script) (hn : NoInterrupt script) :
    hashStream false Ref.params cfg v script = specStream (Spec.hashStream v script) := by
  rw [← stream_eq_spec cfg v hv script hw]
  unfold hashStream
  rw [hashStreamLoop_noInterrupt _ _ _ _ hn]

/-- The property FAILS for the pinned code: a single transient interruption
before any data aborts hashing, while the reference is the generator error of
the empty input. -/
theorem interrupted_counterexample :
    hashStream false Ref.params {} Variant.normal [.interrupted] = .err (.io "Interrupted") ∧
      specStream (Spec.hashStream Variant.normal [.interrupted]) = .err (.gen .tooSmall) := by
  constructor <;> rfl

/-- The current source retries interrupted reads (extracted by the translator);
with this the model of the current code is `hashStream true`. -/
theorem source_retries_interrupted : Gen.retryInterrupted = true := by decide

/-- Non-vacuity: a well-behaved script with two partial reads and an interruption. -/
example : WellBehaved [.deliver [1, 2, 3], .interrupted, .deliver [4], .deliver []] := by
  intro ev hev
  simp at hev
  rcases hev with rfl | rfl | rfl | rfl <;> simp [bufferSize]

end TlshVerif.Theorems.C12
