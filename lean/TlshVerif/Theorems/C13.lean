/-
C13 — String comparison helpers equal parse-then-compare and blame the right side.

Property theorems only.
-/
import TlshVerif.Model.Easy
import TlshVerif.Theorems.C02
import TlshVerif.Theorems.C04
import TlshVerif.Theorems.C05
import TlshVerif.Theorems.C08

namespace TlshVerif.Theorems.C13

open TlshVerif Model

/-- `compare_with(l, r)` is, verbatim, the `match` of the property: parse the
left string, then the right one, then compare; the error names the first side
that fails to parse and carries the parser's own error.  Holds for every
parameter set and configuration (by unfolding — there is nothing else in the
function). -/
theorem compare_with_match (CP : CodecParams) (S : StrictConsts) (cc : CodecCfg) (DP : CompareRaw)
    (dc : CompareCfg) (v : Variant) (l r : List UInt8) :
    compareWith CP S cc DP dc v l r =
      match fromStrBytes CP S cc v l none, fromStrBytes CP S cc v r none with
      | .ok a, .ok b => .ok (compareHashes DP dc v a b false)
      | .ok _, .err e => .err (.right, e)
      | .ok _, .panic w => .panic w
      | .ok _, .ub w => .ub w
      | .err e, _ => .err (.left, e)
      | .panic w, _ => .panic w
      | .ub w, _ => .ub w := by
  unfold compareWith
  cases fromStrBytes CP S cc v l none <;> cases fromStrBytes CP S cc v r none <;> rfl

/-- At the reference constants, for every codec / comparison configuration and
valid variant: the helper never panics, and when both strings parse the result
is the *reference distance* of the two parsed hashes in the default mode. -/
theorem compare_with_spec (cc : CodecCfg) (dc : CompareCfg) (v : Variant) (hv : v.Valid)
    (l r : List UInt8) :
    (compareWith Ref.codec Ref.strict cc Ref.compareRaw dc v l r).Defined ∧
    (∀ a b, fromStrBytes Ref.codec Ref.strict cc v l none = .ok a →
      fromStrBytes Ref.codec Ref.strict cc v r none = .ok b →
      compareWith Ref.codec Ref.strict cc Ref.compareRaw dc v l r = .ok (Spec.distance a b false)) ∧
    (∀ e, fromStrBytes Ref.codec Ref.strict cc v l none = .err e →
      compareWith Ref.codec Ref.strict cc Ref.compareRaw dc v l r = .err (.left, e)) ∧
    (∀ a e, fromStrBytes Ref.codec Ref.strict cc v l none = .ok a →
      fromStrBytes Ref.codec Ref.strict cc v r none = .err e →
      compareWith Ref.codec Ref.strict cc Ref.compareRaw dc v l r = .err (.right, e)) := by
  have tl := C05.parse_total cc v l none
  have tr := C05.parse_total cc v r none
  rw [compare_with_match]
  refine ⟨?_, ?_, ?_, ?_⟩
  · cases hl : fromStrBytes Ref.codec Ref.strict cc v l none <;>
      cases hr : fromStrBytes Ref.codec Ref.strict cc v r none <;>
      simp_all [Outcome.Defined]
  · intro a b ha hb
    rw [ha, hb]
    simp only []
    rw [C02.compare_eq_spec dc v hv a b (C04.parse_wf cc v l none a ha) (C04.parse_wf cc v r none b hb)]
  · intro e he; rw [he]
  · intro a e ha he; rw [ha, he]

/-- Insensitive to hex letter case and to the presence of the `T1` prefix on
either side: two accepted left strings with the same upper-cased digits (and
likewise on the right) give the same distance. -/
theorem compare_case_prefix_insensitive (cc : CodecCfg) (dc : CompareCfg) (v : Variant)
    (l l' r : List UInt8) (a a' : Hash) (p p' : Spec.Prefix)
    (hl : fromStrBytes Ref.codec Ref.strict cc v l none = .ok a)
    (hl' : fromStrBytes Ref.codec Ref.strict cc v l' none = .ok a')
    (rp : Spec.resolvePrefix v l none = some p) (rp' : Spec.resolvePrefix v l' none = some p')
    (hd : (Spec.stripPrefix l p).map Spec.upper = (Spec.stripPrefix l' p').map Spec.upper) :
    compareWith Ref.codec Ref.strict cc Ref.compareRaw dc v l r
      = compareWith Ref.codec Ref.strict cc Ref.compareRaw dc v l' r := by
  have : a = a' :=
    (C04.parse_injective_up_to_case_and_prefix cc cc v l l' none none a a' p p' hl hl' rp rp').mpr hd
  subst this
  rw [compare_with_match, compare_with_match, hl, hl']

/-- End to end over the text form: for well-formed hashes `a`, `b`, the helper
applied to their canonical texts — with or without the `T1` prefix, chosen
independently per side, for every encoder that produced the texts
(`Model.toText` / `store_into_str_bytes` write `Spec.format`, C04/C14) —
returns exactly the reference distance of `a` and `b`.  Composes C04
(`parse_format`), C02 (`compare_eq_spec`) and `compare_with_match`. -/
theorem compare_formatted (cc : CodecCfg) (hc : cc.strict = false) (dc : CompareCfg) (v : Variant)
    (hv : v.Valid) (a b : Hash) (ha : a.WF v) (hb : b.WF v) (p q : Spec.Prefix) :
    compareWith Ref.codec Ref.strict cc Ref.compareRaw dc v (Spec.format a p) (Spec.format b q)
      = .ok (Spec.distance a b false) :=
  (compare_with_spec cc dc v hv _ _).2.1 a b (C04.parse_format cc hc v a ha p).2
    (C04.parse_format cc hc v b hb q).2

/-- … and therefore the helper on canonical texts is reflexive (distance 0 of a
hash's text with its own text, prefixed or not) and symmetric. -/
theorem compare_formatted_symm (cc : CodecCfg) (hc : cc.strict = false) (dc : CompareCfg)
    (v : Variant) (hv : v.Valid) (a b : Hash) (ha : a.WF v) (hb : b.WF v) (p q : Spec.Prefix) :
    compareWith Ref.codec Ref.strict cc Ref.compareRaw dc v (Spec.format a p) (Spec.format b q)
      = compareWith Ref.codec Ref.strict cc Ref.compareRaw dc v (Spec.format b q) (Spec.format a p) := by
  rw [compare_formatted cc hc dc v hv a b ha hb p q, compare_formatted cc hc dc v hv b a hb ha q p,
    C08.dist_comm]

/-- Non-vacuity: both premises of `compare_with_spec` are met by concrete strings
(an accepted upper-case text with prefix and an accepted lower-case text
without), and a one-byte left operand is a left-side length error. -/
example :
    (∃ a, fromStrBytes Ref.codec Ref.strict {} Variant.short ([84, 49] ++ List.replicate 30 48) none = .ok a) ∧
    (∃ b, fromStrBytes Ref.codec Ref.strict {} Variant.short (List.replicate 30 102) none = .ok b) ∧
    compareWith Ref.codec Ref.strict {} Ref.compareRaw {} Variant.short [84] (List.replicate 30 70)
      = .err (.left, .invalidStringLength) := by
  refine ⟨?_, ?_, ?_⟩
  · rw [C05.parse_ok_iff _ rfl]; decide +kernel
  · rw [C05.parse_ok_iff _ rfl]; decide +kernel
  · have h : fromStrBytes Ref.codec Ref.strict {} Variant.short [84] none = .err .invalidStringLength := by
      rw [C05.parse_err_length]; decide +kernel
    exact (compare_with_spec {} {} Variant.short (by decide) [84] (List.replicate 30 70)).2.2.1 _ h

end TlshVerif.Theorems.C13
