/-
C14 — Buffer-writing operations: size check, what is written, what is left alone.

Property theorems only.  `Model.storeIntoBytes` / `Model.storeIntoStrBytes`
return the `Result<usize, OperationError>` together with the buffer afterwards.
Each theorem states, for the advertised size `N` and the representation `repr`:
`BufferIsTooSmall` iff the buffer is shorter than `N`, and then the buffer is
untouched; otherwise `Ok(N)`, the first `N` bytes are `repr`, the rest of the
buffer and its length are unchanged; the call never panics.
-/
import TlshVerif.Lemmas.CodecBin
import TlshVerif.Theorems.C04

namespace TlshVerif.Theorems.C14

open TlshVerif Codec

/-- `store_into_bytes` writes exactly the `SIZE_IN_BYTES` bytes of the binary form. -/
theorem store_into_bytes_spec (v : Variant) (h : Hash) (hw : h.WF v) (buf : List UInt8) :
    let r := Model.storeIntoBytes v h buf
    let N := v.binLen
    (r.1 = .err .bufferIsTooSmall ↔ buf.length < N) ∧
    (buf.length < N → r.2 = buf) ∧
    (¬ buf.length < N → r.1 = .ok N ∧ r.2.take N = h.toBytes ∧ r.2.drop N = buf.drop N ∧
      r.2.length = buf.length) ∧
    r.1.Defined :=
  overwrite_contract buf h.toBytes v.binLen (toBytes_length v h hw)

/-- `store_into_str_bytes` writes exactly the canonical text for the requested
prefix mode: `LEN_IN_STR` bytes with `T1`, two fewer without — for every encoder
configuration. -/
theorem store_into_str_bytes_spec (c : Model.CodecCfg) (v : Variant) (h : Hash) (hw : h.WF v)
    (buf : List UInt8) (p : Spec.Prefix) :
    let r := Model.storeIntoStrBytes Ref.codec c v h buf (toModel p)
    let N := match p with | .empty => v.strLen - 2 | .withVersion => v.strLen
    (r.1 = .err .bufferIsTooSmall ↔ buf.length < N) ∧
    (buf.length < N → r.2 = buf) ∧
    (¬ buf.length < N → r.1 = .ok N ∧ r.2.take N = Spec.format h p ∧ r.2.drop N = buf.drop N ∧
      r.2.length = buf.length) ∧
    r.1.Defined := by
  have hlen := C04.format_length v h hw
  cases p
  · have := overwrite_contract buf (Spec.format h .empty) (v.strLen - 2) hlen.2
    unfold Model.storeIntoStrBytes
    rw [C04.encode_eq_spec]
    exact this
  · have := overwrite_contract buf (Spec.format h .withVersion) v.strLen hlen.1
    unfold Model.storeIntoStrBytes
    rw [C04.encode_eq_spec]
    exact this

/-- Non-vacuity: a 34-byte buffer is too small for a `normal` hash and is left
alone; a 40-byte buffer receives the 35 bytes and keeps its last 5. -/
example :
    let h : Hash := ⟨[7], 1, 2, List.replicate 32 9⟩
    Model.storeIntoBytes Variant.normal h (List.replicate 34 0xFF)
      = (.err .bufferIsTooSmall, List.replicate 34 0xFF) ∧
    Model.storeIntoBytes Variant.normal h (List.replicate 40 0xFF)
      = (.ok 35, h.toBytes ++ List.replicate 5 0xFF) := by
  decide +kernel

end TlshVerif.Theorems.C14
