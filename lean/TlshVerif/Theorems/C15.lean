/-
C15 — The strict parser is the lenient parser followed by the two value checks
(parser half), and every generated hash passes them (generator half).

Property theorems only.  For a build configuration `c`, `cs` is `c` with the
`strict-parser` feature on and `cl` is `c` with it off; everything else
(decoder, hex-simd, …) is the same.  `Spec.checksumValid` / `Spec.lengthValid`
are the spec's validity of the checksum (48-bucket variant: first byte ≤ 48) and
of the length code (< 170).
-/
import TlshVerif.Lemmas.CodecBin
import TlshVerif.Lemmas.Strict
import TlshVerif.Theorems.C01
import TlshVerif.Theorems.C04

namespace TlshVerif.Theorems.C15

open TlshVerif Codec

/-- Text parser: strict = lenient, then checksum check, then length-code check.
* strict succeeds with `h` iff lenient succeeds with `h` and both checks pass;
* lenient `h` with an invalid checksum gives `InvalidChecksum`;
* lenient `h` with valid checksum but invalid length code gives `LengthIsTooLarge`;
* a lenient error is a strict error (possibly a different one: the strict checks
  run before the remaining digits are decoded). -/
theorem strict_eq_lenient_then_checks_text (c : Model.CodecCfg) (v : Variant) (hv : v.Valid)
    (s : List UInt8) (m : Option Model.Prefix) :
    let strictR := Model.fromStrBytes Ref.codec Ref.strict { c with strict := true } v s m
    let lenientR := Model.fromStrBytes Ref.codec Ref.strict { c with strict := false } v s m
    (∀ h, strictR = .ok h ↔
      lenientR = .ok h ∧ Spec.checksumValid v h = true ∧ Spec.lengthValid h = true) ∧
    (∀ h, lenientR = .ok h → Spec.checksumValid v h = false → strictR = .err .invalidChecksum) ∧
    (∀ h, lenientR = .ok h → Spec.checksumValid v h = true → Spec.lengthValid h = false →
      strictR = .err .lengthIsTooLarge) ∧
    (∀ e, lenientR = .err e → ∃ e', strictR = .err e') := by
  intro strictR lenientR
  have hs : strictR = parseRef true v s (m.map toSpec) := fromStr_eq _ v s m
  have hl : lenientR = parseRef false v s (m.map toSpec) := fromStr_eq _ v s m
  rw [hs, hl]
  have hck : ∀ h : Hash, Model.ckValid v 48 h.checksum = Spec.checksumValid v h := ckValid_ref v hv
  have hlv : ∀ h : Hash, Model.lvalueValid 170 h.lvalue = Spec.lengthValid h := lvalueValid_ref
  rcases parseRef_split v s (m.map toSpec) with ⟨p, _, hp⟩ | ⟨e, he⟩
  · rw [hp true, hp false]
    refine ⟨fun h => ?_, fun h hok hc => ?_, fun h hok hc hlen => ?_, fun e he => ?_⟩
    · rw [parseDigits_strict_ok, hck, hlv]
    · rw [parseDigits_strict_of_lenient_ok v _ h hok, hck, hc]; rfl
    · rw [parseDigits_strict_of_lenient_ok v _ h hok, hck, hlv, hc, hlen]; rfl
    · exact parseDigits_strict_of_lenient_err v _ e he
  · rw [he true, he false]
    refine ⟨fun h => ?_, fun h hok => ?_, fun h hok => ?_, fun _ _ => ⟨e, rfl⟩⟩
    · constructor
      · intro h'; cases h'
      · rintro ⟨h', _⟩; cases h'
    · cases hok
    · cases hok

/-- Binary parser (`TryFrom<&[u8]>`): the same relation. -/
theorem strict_eq_lenient_then_checks_bytes (c : Model.CodecCfg) (v : Variant) (hv : v.Valid)
    (b : List UInt8) :
    let strictR := Model.tryFromSlice Ref.strict { c with strict := true } v b
    let lenientR := Model.tryFromSlice Ref.strict { c with strict := false } v b
    (∀ h, strictR = .ok h ↔
      lenientR = .ok h ∧ Spec.checksumValid v h = true ∧ Spec.lengthValid h = true) ∧
    (∀ h, lenientR = .ok h → Spec.checksumValid v h = false → strictR = .err .invalidChecksum) ∧
    (∀ h, lenientR = .ok h → Spec.checksumValid v h = true → Spec.lengthValid h = false →
      strictR = .err .lengthIsTooLarge) ∧
    (∀ e, lenientR = .err e → strictR = .err e) := by
  intro strictR lenientR
  by_cases hb : b.length = v.binLen
  · have hs : strictR =
        if ¬ Spec.checksumValid v (Spec.ofBytes v b) then .err .invalidChecksum
        else if ¬ Spec.lengthValid (Spec.ofBytes v b) then .err .lengthIsTooLarge
        else .ok (Spec.ofBytes v b) := by
      show Model.tryFromSlice _ _ _ _ = _
      unfold Model.tryFromSlice
      rw [if_neg (by simpa using hb), tryFromArray_eq _ _ v b hb, ckValid_ref v hv, lvalueValid_ref]
      simp
    have hl : lenientR = .ok (Spec.ofBytes v b) := by
      show Model.tryFromSlice _ _ _ _ = _
      unfold Model.tryFromSlice
      rw [if_neg (by simpa using hb), tryFromArray_eq _ _ v b hb]
      simp
    rw [hs, hl]
    refine ⟨fun h => ?_, fun h hok hc => ?_, fun h hok hc hlen => ?_, fun e he => by cases he⟩
    · constructor
      · intro h'
        split at h'
        · cases h'
        · split at h'
          · cases h'
          · cases h'; simp_all
      · rintro ⟨h', h1, h2⟩
        cases h'; simp [h1, h2]
    · cases hok; simp [hc]
    · cases hok; simp [hc, hlen]
  · have hs : strictR = .err .invalidStringLength := if_pos hb
    have hl : lenientR = .err .invalidStringLength := if_pos hb
    rw [hs, hl]
    refine ⟨fun h => ?_, fun h hok => ?_, fun h hok => ?_, fun _ h => h⟩
    · constructor
      · intro h'; cases h'
      · rintro ⟨h', _⟩; cases h'
    · cases hok
    · cases hok

/-- Non-vacuity: a `short` hash text with checksum byte `0x31 = 49 > 48` is
accepted by the lenient parser and rejected with `InvalidChecksum` by the strict
one; with length code `0xAA = 170` the strict parser says `LengthIsTooLarge`. -/
example :
    Model.fromStrBytes Ref.codec Ref.strict {} Variant.short
      ([49, 51] ++ List.replicate 28 48) none = .ok ⟨[0x31], 0, 0, List.replicate 12 0⟩ ∧
    Model.fromStrBytes Ref.codec Ref.strict { strict := true } Variant.short
      ([49, 51] ++ List.replicate 28 48) none = .err .invalidChecksum ∧
    Model.fromStrBytes Ref.codec Ref.strict { strict := true } Variant.short
      ([48, 48, 65, 65] ++ List.replicate 26 48) none = .err .lengthIsTooLarge := by
  refine ⟨by decide +kernel, by decide +kernel, by decide +kernel⟩

/-- **Generator half.**  Every hash the generator can produce — any input, any
chunking, any of the 32 option settings, any configuration — has a valid length
code (< 170) and, on the 48-bucket variant, a checksum byte ≤ 48; it is well
formed; and its length code is the code of the number of bytes fed. -/
theorem generated_strict_valid (cfg : Model.Cfg) (v : Variant) (hv : v.Valid) (o : Options)
    (ps : List (List UInt8)) (h : Hash)
    (hok : Model.genFinalize Gen.params cfg v
      (ps.foldl (Model.genUpdate Gen.params cfg v) (Model.genInit cfg v)) o = .ok h) :
    h.WF v ∧ Spec.checksumValid v h = true ∧ Spec.lengthValid h = true ∧
      h.lvalue.toNat = Spec.lengthCode ps.flatten.length := by
  rw [C01.generate_chunked_eq_spec cfg v hv o ps] at hok
  cases hs : Spec.tlsh v o ps.flatten with
  | error e => rw [hs] at hok; cases hok
  | ok h' =>
    rw [hs] at hok
    cases hok
    exact Model.spec_tlsh_valid v hv o ps.flatten h hs

/-- Hence generated hashes always survive a strict round trip: formatting and
parsing back with the strict parser (any decoder configuration, with or
without the prefix, auto-detected or explicit) yields the identical hash. -/
theorem strict_roundtrip_generated (c : Model.CodecCfg) (cfg : Model.Cfg) (v : Variant) (hv : v.Valid)
    (o : Options) (ps : List (List UInt8)) (h : Hash)
    (hok : Model.genFinalize Gen.params cfg v
      (ps.foldl (Model.genUpdate Gen.params cfg v) (Model.genInit cfg v)) o = .ok h) :
    Model.fromStrBytes Ref.codec Ref.strict { c with strict := true } v (Spec.format h .withVersion) none
      = .ok h := by
  obtain ⟨hwf, hck, hlv, _⟩ := generated_strict_valid cfg v hv o ps h hok
  have hl := (C04.parse_format { c with strict := false } rfl v h hwf .withVersion).2
  exact ((strict_eq_lenient_then_checks_text c v hv _ none).1 h).mpr ⟨hl, hck, hlv⟩

end TlshVerif.Theorems.C15
