/-
C16 — serde: canonical encodings, lossless round trip, malformed input is an error.

Property theorems only.  The format crates (serde_json, ciborium, postcard) are
exercised by the harness, not modelled: a deserializer is the one `Visitor`
event it delivers (`Model.SerdeEv`), a serializer records what it is handed.
-/
import TlshVerif.Model.Serde
import TlshVerif.Gen.Codec
import TlshVerif.Theorems.C04
import TlshVerif.Theorems.C05
import TlshVerif.Theorems.C06

namespace TlshVerif.Theorems.C16

open TlshVerif Model

/-- A hash serializes to exactly its "T1…" text in human-readable formats and to
exactly its binary form (as a byte string) otherwise — every encoder configuration. -/
theorem ser_spec (cc : CodecCfg) (h : Hash) :
    serialize Ref.codec cc h true = .str (Spec.format h .withVersion) ∧
      serialize Ref.codec cc h false = .bytes h.toBytes := by
  constructor
  · unfold serialize; rw [if_pos rfl, C04.toText_eq_spec]
  · rfl

/-- The event a format delivers back for what `serialize` produced. -/
def eventOf : SerOut → SerdeEv
  | .str s => .str s
  | .bytes b => .bytes b

/-- Lossless round trip (lenient parser, both kinds of format, with or without
the `unwrap`): deserializing what was serialized gives the identical hash. -/
theorem de_ser (cc : CodecCfg) (hc : cc.strict = false) (v : Variant) (h : Hash) (hw : h.WF v)
    (unwraps hr : Bool) :
    deserialize Ref.codec Ref.strict cc v unwraps hr (eventOf (serialize Ref.codec cc h hr)) = .ok h := by
  cases hr
  · -- binary
    have hlen : h.toBytes.length = v.binLen := by
      obtain ⟨h1, h2⟩ := hw
      simp [Hash.toBytes, Variant.binLen, h1, h2]; omega
    unfold deserialize serialize eventOf
    simp only [Bool.false_eq_true, if_false, hlen, ne_eq, not_true_eq_false]
    rw [C06.tryFrom_store Ref.strict cc hc v h hw]
  · unfold deserialize
    rw [(ser_spec cc h).1]
    simp only [eventOf, if_true]
    rw [(C04.parse_format cc hc v h hw .withVersion).2]

/-- Deserialization accepts exactly what the corresponding parser accepts and
returns the parser's value: text events through the text parser (auto-detected
prefix) in human-readable formats, byte events through the binary parser
otherwise; everything else is an error. -/
theorem de_ok_iff_parser_ok (cc : CodecCfg) (v : Variant) (unwraps : Bool) (h : Hash) :
    (∀ s, deserialize Ref.codec Ref.strict cc v unwraps true (.str s) = .ok h ↔
        fromStrBytes Ref.codec Ref.strict cc v s none = .ok h) ∧
    (∀ s, deserialize Ref.codec Ref.strict cc v unwraps true (.bytes s) = .ok h ↔
        fromStrBytes Ref.codec Ref.strict cc v s none = .ok h) ∧
    (∀ b, deserialize Ref.codec Ref.strict cc v unwraps false (.bytes b) = .ok h ↔
        tryFromSlice Ref.strict cc v b = .ok h) ∧
    (∀ hr, deserialize Ref.codec Ref.strict cc v unwraps hr .other ≠ .ok h) ∧
    (∀ s, deserialize Ref.codec Ref.strict cc v unwraps false (.str s) ≠ .ok h) := by
  refine ⟨fun s => ?_, fun s => ?_, fun b => ?_, fun hr => ?_, fun s => ?_⟩
  · unfold deserialize; simp only [if_true]
    cases fromStrBytes Ref.codec Ref.strict cc v s none <;> simp
  · unfold deserialize; simp only [if_true]
    cases fromStrBytes Ref.codec Ref.strict cc v s none <;> simp
  · unfold deserialize; simp only [Bool.false_eq_true, if_false]
    by_cases hb : b.length = v.binLen
    · simp only [hb, ne_eq, not_true_eq_false, if_false]
      cases tryFromSlice Ref.strict cc v b <;> simp
      split <;> simp
    · have : tryFromSlice Ref.strict cc v b = .err .invalidStringLength := C06.tryFrom_slice_len _ cc v b hb
      simp [hb, this]
  · cases hr <;> simp [deserialize]
  · simp [deserialize]

/-- **Without the `unwrap`** (the code after the fix): deserialization never
panics — any event, human-readable or not, strict parser or lenient, any
configuration. -/
theorem de_total (cc : CodecCfg) (v : Variant) (hr : Bool) (ev : SerdeEv) :
    (deserialize Ref.codec Ref.strict cc v false hr ev).Defined := by
  unfold deserialize
  cases hr
  · simp only [Bool.false_eq_true, if_false]
    cases ev with
    | bytes b =>
      simp only []
      split
      · trivial
      · have ht := C06.tryFrom_total Ref.strict cc v b
        cases hb : tryFromSlice Ref.strict cc v b <;> simp_all [Outcome.Defined]
    | str s => trivial
    | other => trivial
  · simp only [if_true]
    cases ev with
    | str s =>
      have ht := C05.parse_total cc v s none
      cases hb : fromStrBytes Ref.codec Ref.strict cc v s none <;> simp_all [Outcome.Defined]
    | bytes s =>
      have ht := C05.parse_total cc v s none
      cases hb : fromStrBytes Ref.codec Ref.strict cc v s none <;> simp_all [Outcome.Defined]
    | other => trivial

/-- **Partial (the pinned code, with the `unwrap`)**: no panic as long as the
strict parser is off. -/
theorem de_total_partial (cc : CodecCfg) (hc : cc.strict = false) (v : Variant) (hr : Bool) (ev : SerdeEv) :
    (deserialize Ref.codec Ref.strict cc v true hr ev).Defined := by
  unfold deserialize
  cases hr
  · simp only [Bool.false_eq_true, if_false]
    cases ev with
    | bytes b =>
      simp only []
      split
      · trivial
      · rename_i hlen
        have hlen' : b.length = v.binLen := by simpa using hlen
        rw [(C06.tryFrom_bytes Ref.strict cc hc v b hlen').1]
        trivial
    | str s => trivial
    | other => trivial
  · have h := de_total cc v true ev
    unfold deserialize at h
    simp only [if_true] at h ⊢
    exact h

/-- The property FAILS for the pinned code with the strict parser: a byte
string of the right length with an invalid length code makes the bytes visitor
panic instead of returning an error. -/
theorem unwrap_counterexample :
    deserialize Ref.codec Ref.strict { strict := true } Variant.short true false
        (.bytes (0 :: 0xAA :: List.replicate 13 0)) = .panic "hash.rs: try_from(v).unwrap() on Err" := by
  decide +kernel

/-- The current source maps the conversion error instead of unwrapping it
(extracted by the translator). -/
theorem source_does_not_unwrap : Gen.serdeBytesVisitorUnwraps = false := by decide

end TlshVerif.Theorems.C16
