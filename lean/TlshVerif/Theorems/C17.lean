/-
C17 — The safe API is total and memory-safe in every configuration (logic part).

Property theorems only.  What a theorem about the model can say:
* every modelled operation returns `Ok`/`Err` (`Outcome.Defined`), or panics
  exactly in the two documented cases (bucket index out of range; a reader that
  misreports how much it read);
* every `invariant!()` expression that feature `unsafe` hands to the optimiser
  is true on every path that reaches it (the model returns `.ub` exactly when
  one is false — `Defined` excludes it), and the set of such sites in the
  source is exactly the set covered here;
* the vector loads of the translated kernels stay inside their arrays;
* the buffers handed to `from_utf8_unchecked` are ASCII;
* `unsafe` changes no result.
Undefined behaviour in compiled `unsafe` blocks and third-party crates is not
something the model can exhibit (DESIGN §8 C17, partial).
-/
import TlshVerif.Gen.Safety
import TlshVerif.Gen.Easy
import TlshVerif.Theorems.C01
import TlshVerif.Theorems.C05
import TlshVerif.Theorems.C06
import TlshVerif.Theorems.C09
import TlshVerif.Theorems.C12
import TlshVerif.Theorems.C13
import TlshVerif.Theorems.C14
import TlshVerif.Theorems.C16

namespace TlshVerif.Theorems.C17

open TlshVerif Model

/-! ### the `invariant!()` sites -/

/-- The `invariant!()` expressions present in the current source are exactly
these five; each is discharged below.  (On the pinned tree a sixth one,
`len <= buffer.len()` in `hash_stream_common`, was present and is *false* for a
misreporting reader — see `misreporting_reader_ub_counterexample`.) -/
theorem invariant_sites :
    Gen.invariantSites =
      [("generate.rs", "Self :: TAIL_SIZE > 0"),
       ("hash.rs", "value . len ( ) == SIZE_BODY"),
       ("length.rs", "bottom <= TOP_VALUE_BY_ENCODING . len ( )"),
       ("length.rs", "top <= TOP_VALUE_BY_ENCODING . len ( )"),
       ("length.rs", "bottom <= top")] := by decide

/-- generate.rs: `TAIL_SIZE > 0`. -/
theorem invariant_tail_size : tailSize > 0 := by decide

/-- length.rs (three sites): with feature `unsafe` on, the length encoder never
reaches a false invariant, for every 32-bit length. -/
theorem invariant_length (cfg : Cfg) (n : Nat) (h : n < 2 ^ 32) :
    (encodeLength Ref.params { cfg with unsafe_ := true } n).Defined :=
  C09.encode_defined _ n h

/-- hash.rs: `value.len() == SIZE_BODY` in `TryFrom<&[u8; N]>` — never false, any input, `unsafe` on. -/
theorem invariant_try_from (S : StrictConsts) (c : CodecCfg) (v : Variant) (b : List UInt8) :
    (tryFromSlice S { c with unsafe_ := true } v b).Defined :=
  C06.tryFrom_total S _ v b

/-- The stream helper hands no length invariant to the optimiser any more
(extracted from the source). -/
theorem stream_has_no_len_invariant : Gen.streamLenInvariant = false := by decide

/-- Hence a reader that misreports how much it read causes a clean panic (the
slice bounds check) in every configuration, including feature `unsafe`. -/
theorem misreporting_reader_panics (cfg : Cfg) (v : Variant) (n : Nat) (hn : n > bufferSize) :
    ∃ w, hashStream true Ref.params { cfg with unsafe_ := cfg.unsafe_ && Gen.streamLenInvariant } v [.lie n]
      = .panic w := by
  rw [stream_has_no_len_invariant]
  have h0 : ¬ n = 0 := by unfold bufferSize at hn; omega
  simp [hashStream, hashStreamLoop, h0, hn]

/-- With the invariant present (the pinned code) and feature `unsafe`, the same
reader reaches undefined behaviour. -/
theorem misreporting_reader_ub_counterexample :
    ∃ w, hashStream true Ref.params { unsafe_ := true } Variant.normal [.lie (bufferSize + 1)] = .ub w := by
  exact ⟨"generate_easy_std.rs: invariant!(len <= buffer.len()) is false", by
    simp [hashStream, hashStreamLoop, bufferSize]⟩

/-! ### unchecked operations and loads -/

/-- The only unchecked operations outside the x86 back ends are the two
`from_utf8_unchecked` calls on the freshly formatted text. -/
theorem unchecked_calls :
    Gen.uncheckedCalls = [("hash.rs", "from_utf8_unchecked"), ("hash.rs", "from_utf8_unchecked")] := by
  decide

/-- Census of `unsafe` in the crate's own non-test code: the only `unsafe { }` blocks are the calls into the
`#[target_feature]` kernels from the two dispatchers and the two `from_utf8_unchecked` calls; the only
`unsafe fn`s are those kernels; `optionally_unsafe!` wraps exactly the `invariant!()` sites proved above.
A new `unsafe` block anywhere (e.g. a `set_len` on a read buffer) breaks this obligation. -/
theorem unsafe_census :
    Gen.unsafeCensus =
      [("compare/dist_body.rs", 9, 0, 0), ("compare/dist_body/arm_neon.rs", 0, 3, 0),
       ("compare/dist_body/x86_avx2.rs", 0, 3, 0), ("compare/dist_body/x86_sse2.rs", 0, 3, 0),
       ("compare/dist_body/x86_sse4_1.rs", 0, 3, 0), ("generate.rs", 0, 0, 1),
       ("generate/bucket_aggregation.rs", 7, 0, 0), ("generate/bucket_aggregation/wasm32_simd128.rs", 0, 2, 0),
       ("generate/bucket_aggregation/x86_avx2.rs", 0, 2, 0), ("generate/bucket_aggregation/x86_sse2.rs", 0, 2, 0),
       ("generate/bucket_aggregation/x86_ssse3.rs", 0, 2, 0), ("hash.rs", 2, 0, 1), ("length.rs", 0, 0, 1)] := by
  decide

/-- The definitions of `invariant!` / `optionally_unsafe!` (macros.rs) are the reviewed ones: with feature
`unsafe` and outside `cfg(test)`, `invariant!(e)` is `if !(e) { unreachable_unchecked() }` (or
`intrinsics::assume(e)` with `unstable`), otherwise `debug_assert!(e)`.  The invariant theorems above are
about that reading of the macro. -/
theorem macros_reviewed : Gen.macrosFingerprint = "3c28e83d4db15bbec316d05b004b45e3" := by decide

/-- …and that text is pure ASCII (hence valid UTF-8). -/
theorem utf8_ok (h : Hash) (p : Spec.Prefix) : ∀ b ∈ Spec.format h p, b < 128 := by
  intro b hb
  have hc := (C04.format_charset h).1
  cases p with
  | empty =>
    rcases hc b (by simpa [Spec.format, Spec.prefixBytes] using hb) with ⟨_, h2⟩ | ⟨_, h2⟩ <;>
      exact Nat.lt_of_le_of_lt h2 (by decide)
  | withVersion =>
    simp only [Spec.format, Spec.prefixBytes, List.mem_append, List.mem_cons, List.not_mem_nil, or_false] at hb
    rcases hb with (rfl | rfl) | hd
    · decide
    · decide
    · rcases hc b hd with ⟨_, h2⟩ | ⟨_, h2⟩ <;> exact Nat.lt_of_le_of_lt h2 (by decide)

/-- Every unaligned vector load in the translated x86 kernels reads inside its
array: `bytes per load × (index + 1) ≤ bytes available`. -/
theorem loads_in_bounds : ∀ s ∈ Gen.loadSites, s.2.1 * (s.2.2.1 + 1) ≤ s.2.2.2 := by decide

/-- The aggregation kernels assert the chunk length they load (`assert!(len >= N)`
with the same `N` as `chunks_exact(N)`). -/
theorem aggregation_chunks : ∀ c ∈ Gen.aggregationChunks, c.2.1 = c.2.2 ∧ c.2.1 > 0 := by decide

/-! ### totality -/

/-- Generation: any input, chunking, options, configuration — `Ok` or `Err`. -/
theorem generate_total (cfg : Cfg) (v : Variant) (hv : v.Valid) (o : Options) (ps : List (List UInt8)) :
    (genFinalize Gen.params cfg v (ps.foldl (genUpdate Gen.params cfg v) (genInit cfg v)) o).Defined := by
  rw [C01.generate_chunked_eq_spec cfg v hv o ps]
  cases Spec.tlsh v o ps.flatten <;> trivial

/-- The documented panic: `quartile(i)` panics exactly for `i ≥ buckets`. -/
theorem quartile_panics_iff (v : Variant) (hv : v.Valid) (h : Hash) (hw : h.WF v) (i : Nat) :
    (∃ w, Model.quartile v h i = .panic w) ↔ ¬ i < v.buckets := by
  have hq := C06.quartile_spec v hv h hw i
  constructor
  · rintro ⟨w, hp⟩ hi
    rw [hq.1 hi] at hp; cases hp
  · exact hq.2

/-- The whole modelled API surface is total: text parser, binary parser, both
serializers, string comparison, deserialization, stream hashing within the
`Read` contract — in every configuration including `unsafe` and `strict`. -/
theorem api_total (cc : CodecCfg) (dc : CompareCfg) (cfg : Cfg) (v : Variant) (hv : v.Valid) :
    (∀ s m, (fromStrBytes Ref.codec Ref.strict cc v s m).Defined) ∧
    (∀ b, (tryFromSlice Ref.strict cc v b).Defined) ∧
    (∀ h buf, h.WF v → (storeIntoBytes v h buf).1.Defined) ∧
    (∀ h buf p, h.WF v → (storeIntoStrBytes Ref.codec cc v h buf p).1.Defined) ∧
    (∀ l r, (compareWith Ref.codec Ref.strict cc Ref.compareRaw dc v l r).Defined) ∧
    (∀ hr ev, (deserialize Ref.codec Ref.strict cc v false hr ev).Defined) ∧
    (∀ script, WellBehaved script → (hashStream true Ref.params cfg v script).Defined) := by
  refine ⟨fun s m => C05.parse_total cc v s m, fun b => C06.tryFrom_total _ cc v b,
    fun h buf hw => (C14.store_into_bytes_spec v h hw buf).2.2.2, fun h buf p hw => ?_,
    fun l r => (C13.compare_with_spec cc dc v hv l r).1, fun hr ev => C16.de_total cc v hr ev,
    fun script hw => ?_⟩
  · cases p with
    | empty => exact (C14.store_into_str_bytes_spec cc v h hw buf .empty).2.2.2
    | withVersion => exact (C14.store_into_str_bytes_spec cc v h hw buf .withVersion).2.2.2
  · rw [C12.stream_eq_spec cfg v hv script hw]
    cases Spec.hashStream v script <;> trivial

/-! ### `unsafe` changes no result -/

/-- Enabling feature `unsafe` changes no result of generation, length encoding,
binary parsing or stream hashing (the text parser, serializers and comparison do
not consult the flag at all). -/
theorem unsafe_same_result (cfg : Cfg) (c : CodecCfg) (v : Variant) (hv : v.Valid) :
    (∀ o data, generate Ref.params { cfg with unsafe_ := true } v o data
        = generate Ref.params { cfg with unsafe_ := false } v o data) ∧
    (∀ n, n < 2 ^ 32 → encodeLength Ref.params { cfg with unsafe_ := true } n
        = encodeLength Ref.params { cfg with unsafe_ := false } n) ∧
    (∀ b, b.length = v.binLen → c.strict = false →
        tryFromSlice Ref.strict { c with unsafe_ := true } v b
          = tryFromSlice Ref.strict { c with unsafe_ := false } v b) ∧
    (∀ script, WellBehaved script →
        hashStream true Ref.params { cfg with unsafe_ := true } v script
          = hashStream true Ref.params { cfg with unsafe_ := false } v script) := by
  refine ⟨fun o data => ?_, fun n hn => ?_, fun b hb hc => ?_, fun script hw => ?_⟩
  · rw [C01.generate_eq_spec _ v hv, C01.generate_eq_spec _ v hv]
  · rw [C09.encode_eq_least _ n hn, C09.encode_eq_least _ n hn]
  · rw [(C06.tryFrom_bytes Ref.strict { c with unsafe_ := true } hc v b hb).1,
      (C06.tryFrom_bytes Ref.strict { c with unsafe_ := false } hc v b hb).1]
  · rw [C12.stream_eq_spec _ v hv script hw, C12.stream_eq_spec _ v hv script hw]

end TlshVerif.Theorems.C17
