/-
C18 — Core operations never allocate; the crate builds without std and alloc.

Property theorems only, over the call / effect graph the translator extracts
from the current source (`Gen.effectGraph`, `Gen.effectNodes`): a function
*allocates* if its body mentions an allocating construct; call edges are
over-approximate (by identifier).  This is a theorem about a syntactic
over-approximation of the crate's own code; allocations inside
`core`/`std`/dependencies are covered only by the run-time allocation counter
of the harness (DESIGN §8 C18, partial).  The closure sets are *hints* computed
by the translator; the kernel checks that they contain the roots and are closed.
-/
import TlshVerif.Model.Effects
import TlshVerif.Gen.Effects

namespace TlshVerif.Theorems.C18

open TlshVerif Model

theorem core_closure_closed : closedSet Gen.effectGraph Gen.coreClosureHint = true := by decide +kernel
theorem core_closure_has_roots : Gen.coreRootIdx.all (fun r => Gen.coreClosureHint.contains r) = true := by
  decide +kernel
theorem core_closure_alloc_free :
    Gen.effectAllocIdx.all (fun a => !Gen.coreClosureHint.contains a) = true := by decide +kernel

/-- **No function reachable from a core operation** (generator, parsers,
serializers, comparison, accessors, Display, hash_buf, compare_with) **is an
allocating function**, in the extracted over-approximate call graph of the
current source. -/
theorem core_ops_alloc_free (r k : Nat) (hr : r ∈ Gen.coreRootIdx) (hk : Reaches Gen.effectGraph r k) :
    k ∉ Gen.effectAllocIdx := by
  have hroot : r ∈ Gen.coreClosureHint := by
    have := core_closure_has_roots
    rw [List.all_eq_true] at this
    simpa using this r hr
  have hin := closedSet_contains_reachable _ _ core_closure_closed r k hroot hk
  intro ha
  have := core_closure_alloc_free
  rw [List.all_eq_true] at this
  have := this k ha
  simp [hin] at this

/-- The numeric view used above is the graph of the named nodes: same call
lists, allocating indices = nodes with a non-empty list of allocating constructs,
core roots = the root functions of the core operations. -/
theorem numeric_view_consistent :
    Gen.effectGraph = Gen.effectNodes.map (fun n => n.2.2.2) ∧
    Gen.effectAllocIdx = (List.range Gen.effectNodes.length).filter
      (fun i => !((Gen.effectNodes.getD i ("", "", [], [])).2.2.1.isEmpty)) ∧
    Gen.coreRootIdx.all (fun r => (Gen.effectRoots.filter (fun e => Gen.coreOps.contains e.1)).any
      (fun e => e.2.contains r)) = true ∧
    (Gen.effectRoots.filter (fun e => Gen.coreOps.contains e.1)).all
      (fun e => e.2.all (fun r => Gen.coreRootIdx.contains r)) = true := by
  refine ⟨by decide +kernel, by decide +kernel, by decide +kernel, by decide +kernel⟩

/-- The only allocating construct in the crate's non-test code is the `vec!`
buffer of `hash_stream_common`. -/
theorem alloc_sites_exact :
    (Gen.effectNodes.filter (fun n => !n.2.2.1.isEmpty)).map (fun n => (n.1, n.2.1, n.2.2.1))
      = [("hash_stream_common", "generate_easy_std.rs", ["vec!"])] := by decide +kernel

/-- …and it lives in a file compiled only with `std` and `easy-functions`;
`extern crate alloc` is itself gated on the `alloc` feature, and the crate is
`no_std` unless `std` is enabled. -/
theorem alloc_gated :
    Gen.allocFileGates = [("generate_easy_std.rs", "all ( feature = \"std\" , feature = \"easy-functions\" )")] ∧
      Gen.externAllocGate = "cfg ( any ( feature = \"alloc\" , test , doc ) )" ∧ Gen.hasNoStdAttr = true := by
  decide

/-- The stream helpers do reach the allocating function (the graph is not
trivially disconnected). -/
theorem stream_helpers_allocate :
    closedSet Gen.effectGraph Gen.streamClosureHint = true ∧
      Gen.streamRootIdx.all (fun r => Gen.streamClosureHint.contains r) = true ∧
      Gen.effectAllocIdx.any (fun a => Gen.streamClosureHint.contains a) = true := by
  refine ⟨by decide +kernel, by decide +kernel, by decide +kernel⟩

/-- Non-vacuity: there are core roots and the closure is a proper non-empty subset. -/
example : Gen.coreRootIdx.length > 20 ∧ Gen.coreClosureHint.length > 50 ∧
    Gen.coreClosureHint.length < Gen.effectGraph.length := by decide +kernel

end TlshVerif.Theorems.C18
