/-
Per-concern slice of `C01.tables` in its own module, so that a property resting
on these constants only is not disturbed when an unrelated extracted item changes
(isolation, DESIGN §6).
-/
import TlshVerif.Model.Params

namespace TlshVerif.Theorems.Tables

open TlshVerif

/-- The length table, its maximum and the number of codes. -/
theorem length : Gen.rawParams.topval = Ref.rawParams.topval ∧
    Gen.rawParams.maxLength = Ref.rawParams.maxLength ∧
    Gen.rawParams.encodedValueSize = Ref.rawParams.encodedValueSize := by decide +kernel

end TlshVerif.Theorems.Tables
