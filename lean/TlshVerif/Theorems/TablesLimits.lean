/-
Per-concern slice of `C01.tables` in its own module, so that a property resting
on these constants only is not disturbed when an unrelated extracted item changes
(isolation, DESIGN §6).
-/
import TlshVerif.Model.Params

namespace TlshVerif.Theorems.Tables

open TlshVerif

/-- Length thresholds, maximum, option flag bits, per-variant bucket facts. -/
theorem limits : Gen.rawParams.thresholds = Ref.rawParams.thresholds ∧
    Gen.rawParams.maxLength = Ref.rawParams.maxLength ∧
    Gen.rawParams.optionFlagBits = Ref.rawParams.optionFlagBits ∧
    Gen.rawParams.bucketInfo = Ref.rawParams.bucketInfo := by decide +kernel

end TlshVerif.Theorems.Tables
