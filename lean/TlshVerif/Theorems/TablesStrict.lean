/-
Per-concern slice of `C01.tables` in its own module, so that a property resting
on these constants only is not disturbed when an unrelated extracted item changes
(isolation, DESIGN §6).
-/
import TlshVerif.Model.Params

namespace TlshVerif.Theorems.Tables

open TlshVerif

/-- What strict validity of generated hashes rests on. -/
theorem strict : Gen.rawParams.shortChecksumMax = Ref.rawParams.shortChecksumMax ∧
    Gen.rawParams.encodedValueSize = Ref.rawParams.encodedValueSize ∧
    Gen.rawParams.fold48 = Ref.rawParams.fold48 ∧
    Gen.rawParams.bucketMapping = Ref.rawParams.bucketMapping ∧
    Gen.rawParams.pearson = Ref.rawParams.pearson := by decide +kernel

end TlshVerif.Theorems.Tables
