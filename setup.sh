#!/bin/sh
set -e
cd "$(dirname "$0")"
python3 tools/extract.py
(cd lean && lake build)
