#!/bin/sh
# Build the framework from files on disk only (offline): translator output,
# Lean theorems + model driver, probe binaries for the quick-tier configurations.
set -e
cd "$(dirname "$0")"
export CARGO_NET_OFFLINE=true
python3 tools/setup.py
