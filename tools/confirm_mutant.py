#!/usr/bin/env python3
"""Confirm a seeded change in its scratch worktree:
   baseline suite passes WITH the change; the demo FAILS with it and PASSES without it.
   usage: confirm_mutant.py <worktree> <Cxx> [extra cargo args for the demo, e.g. --features strict-parser]
   Prints a JSON summary."""
import json, os, subprocess, sys, shutil

wt, pid = sys.argv[1], sys.argv[2]
extra = sys.argv[3:]
env = dict(os.environ, CARGO_TARGET_DIR=os.path.join(wt, "target"), CARGO_NET_OFFLINE="true")
demo = os.path.join(wt, "fast-tlsh", "tests", f"demo_{pid.lower()}.rs")
aside = demo + ".aside"

demo_env = dict(env)
if os.environ.get("DEMO_RUSTFLAGS"):
    demo_env["RUSTFLAGS"] = os.environ["DEMO_RUSTFLAGS"]

def sh(cmd, cwd=wt, e=None):
    p = subprocess.run(cmd, cwd=cwd, env=e or env, stdout=subprocess.PIPE, stderr=subprocess.STDOUT, text=True)
    return p.returncode, p.stdout

res = {}
patch = os.path.join(wt, "deliver", "patch.diff")
# make sure the change is applied (source differs from HEAD)
rc, out = sh(["git", "diff", "--stat", "--", "fast-tlsh/src"])
res["change_applied"] = bool(out.strip())
# 1. baseline with the change, demo moved aside
if os.path.exists(demo):
    shutil.move(demo, aside)
rc, out = sh(["cargo", "test", "--workspace", "--no-fail-fast", "--offline"])
res["baseline_with_change_rc"] = rc
res["baseline_with_change"] = [l for l in out.splitlines() if l.startswith("test result")]
if os.path.exists(aside):
    shutil.move(aside, demo)
# 2. demo with the change
cmd = ["cargo", "test", "--offline", "-p", "fast-tlsh", "--test", f"demo_{pid.lower()}"] + extra
rc, out = sh(cmd, e=demo_env)
res["demo_with_change_rc"] = rc
res["demo_with_change"] = [l for l in out.splitlines() if l.startswith("test result") or "error" in l.lower()][:5]
# 3. demo without the change
sh(["git", "stash", "push", "--", "fast-tlsh/src"])
try:
    rc, out = sh(cmd, e=demo_env)
    res["demo_without_change_rc"] = rc
    res["demo_without_change"] = [l for l in out.splitlines() if l.startswith("test result") or "error" in l.lower()][:5]
finally:
    sh(["git", "stash", "pop"])
res["confirmed"] = (res["baseline_with_change_rc"] == 0 and res["demo_with_change_rc"] != 0 and res["demo_without_change_rc"] == 0)
res["demo_cmd"] = (("RUSTFLAGS='" + os.environ["DEMO_RUSTFLAGS"] + "' ") if os.environ.get("DEMO_RUSTFLAGS") else "") + " ".join(cmd)
print(json.dumps(res, indent=1))
