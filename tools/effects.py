"""Translator, part 4 (DESIGN §4.4): allocation effect graph of the crate's own
non-test code, for C18.

Nodes = function definitions (including each instantiation of a function
defined inside a `macro_rules!` template); a node *allocates* if its body
mentions an allocating construct as a whole identifier; edges are
over-approximate: any identifier in the body that is the name of a crate
function is a call edge to every function of that name.
"""
import json
import os

from rustlex import match_close, find_seq, find_all_seq, split_top

ALLOC = {"vec!", "Vec", "String", "Box", "Rc", "Arc", "format!", "to_vec", "to_string", "to_owned", "collect",
         "into_boxed_slice", "into_boxed_str", "repeat", "concat", "join", "alloc", "Cow", "BTreeMap", "BTreeSet",
         "HashMap", "HashSet", "VecDeque", "BinaryHeap", "LinkedList", "into_vec", "from_utf8_lossy",
         "to_lowercase", "to_uppercase", "to_ascii_lowercase", "to_ascii_uppercase", "with_capacity",
         "read_to_end", "read_to_string", "write_fmt", "print!", "println!", "eprintln!", "eprint!", "dbg!",
         "panic_any", "ToString", "ToOwned",
         # stable sorts live in `alloc` (merge-sort scratch buffer); only the *_unstable family is core
         "sort", "sort_by", "sort_by_key", "sort_by_cached_key"}

# operation (as named in the `alloc` probe stream) -> root function names
ROOTS = {
    "generator": ["new", "default", "update", "processed_len", "finalize_with_options", "finalize"],
    "parse": ["from_str_bytes", "from_str_with", "from_str", "try_from"],
    "store": ["store_into_bytes", "store_into_str_bytes"],
    "compare": ["compare_with_config", "compare", "max_distance"],
    "accessors": ["checksum", "length", "qratios", "body", "quartile", "value", "data", "q1ratio", "q2ratio",
                  "range", "is_valid", "clear_checksum"],
    "display": ["fmt"],
    "hash_buf": ["hash_buf", "hash_buf_for"],
    "compare_easy": ["compare_with"],
    "hash_stream": ["hash_stream", "hash_stream_for", "hash_file", "hash_file_for"],
}
CORE_OPS = ["generator", "parse", "store", "compare", "accessors", "display", "hash_buf", "compare_easy"]


def non_test_files(E):
    out = []
    for base, dirs, fs in os.walk(E.SRC):
        dirs.sort()
        for f in sorted(fs):
            if not f.endswith(".rs"):
                continue
            rel = os.path.relpath(os.path.join(base, f), E.SRC)
            if rel.endswith("tests.rs") or "/tests/" in rel or rel.startswith("_docs") or rel.endswith("fuzzer.rs"):
                continue
            if rel == "verif.rs" or rel.endswith("/verif.rs"):
                continue
            out.append(rel)
    return sorted(out)


def strip_hook_module(t):
    cut = find_seq(t, ["pub", "mod", "verif", "{"])
    if cut >= 0:
        e = match_close(t, cut + 3)
        return t[:cut] + t[e + 1:]
    return t


def macro_instances(t, macro_name):
    """Names on the left of `=` in `macro_name! { a = …; b = …; }` invocations."""
    names = []
    for i in find_all_seq(t, [macro_name + "!", "{"]):
        e = match_close(t, i + 1)
        for item in split_top(t[i + 2:e], ";"):
            if len(item) >= 2 and item[1].text == "=" and item[0].kind == "ident":
                names.append(item[0].text)
    return names


def functions(E, rel):
    t = strip_hook_module(E.src_tokens(rel))
    res = []
    # enclosing macro_rules! regions
    macro_regions = []
    for i in find_all_seq(t, ["macro_rules!"]):
        name = t[i + 1].text
        j = i + 2
        if t[j].text in "{(":
            e = match_close(t, j)
            macro_regions.append((i, e, name))
    i = 0
    while i < len(t) - 1:
        if t[i].text == "fn" and (t[i + 1].kind == "ident" or t[i + 1].text == "$"):
            if t[i + 1].text == "$":
                fname = None
                k = i + 3
            else:
                fname = t[i + 1].text
                k = i + 2
            # find body or ';'
            depth = 0
            j = k
            body = None
            while j < len(t):
                if t[j].text == "(" or t[j].text == "[":
                    j = match_close(t, j) + 1
                    continue
                if t[j].text == ";":
                    break
                if t[j].text == "{":
                    e = match_close(t, j)
                    body = t[j:e + 1]
                    j = e
                    break
                j += 1
            if body is not None:
                if fname is None:
                    region = next((r for r in macro_regions if r[0] < i < r[1]), None)
                    names = macro_instances(t, region[2]) if region else []
                    for n in names or ["<macro-template>"]:
                        res.append((n, rel, body))
                else:
                    res.append((fname, rel, body))
            i = j + 1 if body is None else i + 2
            continue
        i += 1
    return res


def generate(E):
    out = [E.HEADER, "namespace TlshVerif.Gen\n"]
    fns = []
    try:
        for rel in non_test_files(E):
            fns += functions(E, rel)
    except Exception as ex:  # noqa
        E.fail("effect graph", f"{type(ex).__name__}: {ex}")
        fns = []
    by_name = {}
    for idx, (n, rel, body) in enumerate(fns):
        by_name.setdefault(n, []).append(idx)
    nodes = []
    for idx, (n, rel, body) in enumerate(fns):
        texts = [x.text for x in body]
        allocs = sorted({x for x in texts if x in ALLOC})
        # `alloc` also as path segment alloc::…
        calls = sorted({j for x in set(texts) if x in by_name for j in by_name[x] if j != idx})
        nodes.append((n, rel, allocs, calls))
    out.append("/-- (function name, file, allocating constructs mentioned, indices of functions possibly called) -/")
    out.append("def effectNodes : List (String × String × List String × List Nat) := [")
    lines = []
    for n, rel, allocs, calls in nodes:
        lines.append("  (%s, %s, [%s], [%s])" % (json.dumps(n), json.dumps(rel),
                                               ", ".join(json.dumps(a) for a in allocs),
                                               ", ".join(map(str, calls))))
    out.append(",\n".join(lines) + "]\n")
    out.append("/-- operation → indices of its root functions -/")
    roots = []
    for op, names in ROOTS.items():
        idxs = sorted({j for n in names for j in by_name.get(n, [])})
        roots.append((op, idxs))
    out.append("def effectRoots : List (String × List Nat) := [" +
               ", ".join("(%s, [%s])" % (json.dumps(op), ", ".join(map(str, ix))) for op, ix in roots) + "]\n")
    out.append("def coreOps : List String := [" + ", ".join(json.dumps(o) for o in CORE_OPS) + "]\n")
    # numeric view for kernel-checkable reachability, plus closure *hints* (checked in Lean, not trusted)
    graph = [calls for n, rel, allocs, calls in nodes]
    alloc_idx = [i for i, (n, rel, allocs, calls) in enumerate(nodes) if allocs]

    def closure(rs):
        seen = set(rs)
        todo = list(rs)
        while todo:
            j = todo.pop()
            for k in graph[j]:
                if k not in seen:
                    seen.add(k)
                    todo.append(k)
        return sorted(seen)
    core_roots = sorted({j for op, ix in roots if op in CORE_OPS for j in ix})
    stream_roots = sorted({j for op, ix in roots if op == "hash_stream" for j in ix})
    out.append("def effectGraph : List (List Nat) := [" + ", ".join("[" + ", ".join(map(str, c)) + "]" for c in graph) + "]\n")
    out.append("def effectAllocIdx : List Nat := [" + ", ".join(map(str, alloc_idx)) + "]")
    out.append("def coreRootIdx : List Nat := [" + ", ".join(map(str, core_roots)) + "]")
    out.append("def streamRootIdx : List Nat := [" + ", ".join(map(str, stream_roots)) + "]")
    out.append("/-- closure hints computed by the translator; Lean checks that they contain the roots and are closed -/")
    out.append("def coreClosureHint : List Nat := [" + ", ".join(map(str, closure(core_roots))) + "]")
    out.append("def streamClosureHint : List Nat := [" + ", ".join(map(str, closure(stream_roots))) + "]\n")
    # feature gates of the files that contain allocating functions: inner attribute `#![cfg(...)]`
    gates = []
    try:
        for rel in sorted({rel for n, rel, allocs, calls in nodes if allocs}):
            t = E.src_tokens(rel)
            i = find_seq(t, ["#", "!", "[", "cfg", "("])
            if i >= 0:
                e = match_close(t, i + 4)
                gates.append((rel, " ".join(x.text for x in t[i + 5:e])))
            else:
                gates.append((rel, ""))
    except Exception as ex:  # noqa
        E.fail("alloc gates", str(ex))
    out.append("/-- (file containing an allocating function, its `#![cfg(…)]` gate) -/")
    out.append("def allocFileGates : List (String × String) := [" +
               ", ".join(f"({json.dumps(a)}, {json.dumps(b)})" for a, b in gates) + "]\n")
    # extern crate alloc gate in lib.rs
    try:
        t = E.src_tokens("lib.rs")
        i = find_seq(t, ["extern", "crate", "alloc"])
        gate = ""
        if i >= 0:
            # preceding attribute
            j = i - 1
            while j >= 0 and t[j].text != "#":
                j -= 1
            e = match_close(t, j + 1)
            gate = " ".join(x.text for x in t[j + 2:e])
        nostd = find_seq(t, ["no_std"]) >= 0
    except Exception as ex:  # noqa
        E.fail("lib.rs gates", str(ex))
        gate, nostd = "", False
    out.append("def externAllocGate : String := " + json.dumps(gate))
    out.append(f"def hasNoStdAttr : Bool := {'true' if nostd else 'false'}\n")
    out.append("end TlshVerif.Gen\n")
    return {"Effects.lean": "\n".join(out)}
