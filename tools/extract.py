#!/usr/bin/env python3
"""Translator (tie 1): regenerate lean/TlshVerif/Gen/*.lean from /repo's
current working tree.

Literal extraction of constants / tables / call-site argument tuples
(DESIGN §4.1), straight-line kernels (§4.3, tools/kernels.py) and the
allocation effect graph (§4.4, tools/effects.py).

Files are rewritten only when their content changes, so an unchanged tree costs
no Lean rebuild.  Anything that cannot be extracted is emitted as an empty /
zero definition and listed in `Gen.Status.extractionFailures`; the theorems that
compare the definition with `Ref/` then fail, which the check reports.
"""
import os
import sys
import json
import re
import hashlib

HERE = os.path.dirname(os.path.abspath(__file__))
sys.path.insert(0, HERE)
from rustlex import (lex, parse_int, parse_bytechar, match_close, find_seq,
                     find_all_seq, split_top)

REPO = os.environ.get("VERIF_REPO", "/repo")
SRC = os.path.join(REPO, "fast-tlsh", "src")
GEN = os.path.join(os.path.dirname(HERE), "lean", "TlshVerif", "Gen")

failures = []


def src_tokens(rel):
    with open(os.path.join(SRC, rel)) as f:
        return lex(f.read())


def fail(what, why):
    failures.append(f"{what}: {why}")


# --------------------------------------------------------------------------
# constant expressions
# --------------------------------------------------------------------------

class ConstEval:
    """Evaluates integer constant expressions over + - * / % << >> | & ^,
    parentheses, `as T` casts (ignored), integer / byte-char literals and named
    constants found in `env`."""

    PREC = [["|"], ["^"], ["&"], ["<<", ">>"], ["+", "-"], ["*", "/", "%"]]

    def __init__(self, env):
        self.env = env

    def eval(self, toks):
        self.toks = toks
        self.i = 0
        v = self.level(0)
        if self.i != len(self.toks):
            raise ValueError(f"trailing tokens {self.toks[self.i:]}")
        return v

    def peek(self):
        return self.toks[self.i].text if self.i < len(self.toks) else None

    def level(self, k):
        if k == len(self.PREC):
            return self.unary()
        v = self.level(k + 1)
        while self.peek() in self.PREC[k]:
            op = self.peek()
            self.i += 1
            w = self.level(k + 1)
            v = {"|": lambda a, b: a | b, "^": lambda a, b: a ^ b,
                 "&": lambda a, b: a & b, "<<": lambda a, b: a << b,
                 ">>": lambda a, b: a >> b, "+": lambda a, b: a + b,
                 "-": lambda a, b: a - b, "*": lambda a, b: a * b,
                 "/": lambda a, b: a // b, "%": lambda a, b: a % b}[op](v, w)
        return v

    def unary(self):
        v = self.atom()
        while self.peek() == "as":
            self.i += 2  # `as` T
        return v

    def atom(self):
        t = self.toks[self.i]
        if t.text == "(":
            self.i += 1
            v = self.level(0)
            assert self.peek() == ")"
            self.i += 1
            return v
        if t.text == "{":
            self.i += 1
            v = self.level(0)
            assert self.peek() == "}"
            self.i += 1
            return v
        if t.kind == "num":
            self.i += 1
            return parse_int(t.text)
        if t.kind == "bytechar":
            self.i += 1
            return parse_bytechar(t.text)
        if t.kind == "ident":
            # path: take last segment
            name = t.text
            self.i += 1
            while self.peek() == "::":
                self.i += 1
                name = self.toks[self.i].text
                self.i += 1
            if name.endswith("!"):
                # macro with () arguments: value from env under its name
                assert self.peek() == "("
                j = match_close(self.toks, self.i)
                self.i = j + 1
            if name in self.env:
                return self.env[name]
            raise ValueError(f"unknown constant {name}")
        raise ValueError(f"unexpected token {t}")


def const_item(toks, name, env, kinds=("const", "static")):
    """Value of `const NAME: T = <expr>;` (first definition)."""
    for kw in kinds:
        for i in find_all_seq(toks, [kw, name, ":"]):
            j = i
            while toks[j].text != "=":
                j += 1
            k = j
            depth = 0
            while not (toks[k].text == ";" and depth == 0):
                if toks[k].text in "([{":
                    depth += 1
                elif toks[k].text in ")]}":
                    depth -= 1
                k += 1
            return ConstEval(env).eval(toks[j + 1:k])
    raise ValueError(f"const {name} not found")


def array_literal(toks, name, env, nth=0):
    """Elements of `const NAME: [T; N] = [e0, e1, ...];` (nth literal
    definition in file order — there may be cfg-alternatives)."""
    hits = []
    for kw in ("const", "static"):
        hits += find_all_seq(toks, [kw, name, ":"])
    hits.sort()
    lits = []
    for i in hits:
        j = i
        while toks[j].text != "=":
            j += 1
        if toks[j + 1].text != "[":
            continue
        k = match_close(toks, j + 1)
        elems = split_top(toks[j + 2:k])
        lits.append([ConstEval(env).eval(e) for e in elems])
    return lits[nth]


def macro_value(toks, name, env):
    """Value of `macro_rules! name { () => { <expr> }; }`."""
    i = find_seq(toks, ["macro_rules!", name])
    j = i + 2
    assert toks[j].text == "{"
    end = match_close(toks, j)
    k = find_seq(toks, ["=>", "{"], j)
    assert 0 < k < end
    e = match_close(toks, k + 1)
    return ConstEval(env).eval(toks[k + 2:e])


# --------------------------------------------------------------------------
# Lean emission helpers
# --------------------------------------------------------------------------

def lean_nat_list(xs, per_line=16):
    lines = []
    for i in range(0, len(xs), per_line):
        lines.append("  " + ", ".join(str(x) for x in xs[i:i + per_line]))
    return "[\n" + ",\n".join(lines) + "]"


def write_if_changed(path, content):
    os.makedirs(os.path.dirname(path), exist_ok=True)
    try:
        with open(path) as f:
            if f.read() == content:
                return False
    except FileNotFoundError:
        pass
    with open(path, "w") as f:
        f.write(content)
    return True


HEADER = "-- GENERATED by tools/extract.py from /repo — do not edit.\n"


def guarded(what, default):
    def deco(fn):
        def wrapper(*a, **k):
            try:
                return fn(*a, **k)
            except Exception as e:  # noqa
                fail(what, f"{type(e).__name__}: {e}")
                return default
        return wrapper
    return deco


# --------------------------------------------------------------------------
# Generator constants
# --------------------------------------------------------------------------

def impl_consts(toks, trait_for, names, env):
    """For `impl ... Trait for Type<ARG> ... { const NAME: T = expr; ... }`
    return {ARG: {NAME: value}}.  `trait_for` = (trait, type)."""
    trait, typ = trait_for
    res = {}
    for i in find_all_seq(toks, ["impl", trait, "for", typ, "<"]):
        arg = toks[i + 5].text
        j = i
        while toks[j].text != "{":
            j += 1
        end = match_close(toks, j)
        body = toks[j:end + 1]
        vals = {}
        for n in names:
            k = find_seq(body, ["const", n, ":"])
            if k < 0:
                continue
            m = k
            while body[m].text != "=":
                m += 1
            e = m
            while body[e].text != ";":
                e += 1
            tk = body[m + 1:e]
            if len(tk) == 1 and tk[0].text in ("true", "false"):
                vals[n] = 1 if tk[0].text == "true" else 0
            else:
                vals[n] = ConstEval(env).eval(tk)
        res[arg] = vals
    return res


def gen_generator():
    env = {}
    out = [HEADER, "namespace TlshVerif.Gen\n"]
    # buckets.rs
    tb = src_tokens("buckets.rs")
    for n in ("NUM_BUCKETS_SHORT", "NUM_BUCKETS_NORMAL", "NUM_BUCKETS_LONG"):
        try:
            env[n] = const_item(tb, n, env)
        except Exception as e:
            fail(n, str(e))
            env[n] = 0
    out.append(f"def numBucketsShort : Nat := {env['NUM_BUCKETS_SHORT']}")
    out.append(f"def numBucketsNormal : Nat := {env['NUM_BUCKETS_NORMAL']}")
    out.append(f"def numBucketsLong : Nat := {env['NUM_BUCKETS_LONG']}\n")
    try:
        mp = impl_consts(tb, ("FuzzyHashBucketMapper", "FuzzyHashBucketsInfo"),
                         ["MIN_NONZERO_BUCKETS", "IS_B_MAPPING_CONSTRAINED_WITHIN_BUCKETS"], env)
        rows = []
        for arg in ("NUM_BUCKETS_SHORT", "NUM_BUCKETS_NORMAL", "NUM_BUCKETS_LONG"):
            rows.append((env[arg], mp[arg]["MIN_NONZERO_BUCKETS"],
                         mp[arg]["IS_B_MAPPING_CONSTRAINED_WITHIN_BUCKETS"]))
    except Exception as e:
        fail("FuzzyHashBucketMapper consts", str(e))
        rows = []
    out.append("/-- (buckets, MIN_NONZERO_BUCKETS, IS_B_MAPPING_CONSTRAINED_WITHIN_BUCKETS) -/")
    out.append("def bucketInfo : List (Nat × Nat × Nat) := [" +
               ", ".join(f"({a}, {b}, {c})" for a, b, c in rows) + "]\n")
    # which b_mapping each bucket count uses
    try:
        maps = []
        for i in find_all_seq(tb, ["impl", "FuzzyHashBucketMapper", "for", "FuzzyHashBucketsInfo", "<"]):
            arg = tb[i + 5].text
            j = i
            while tb[j].text != "{":
                j += 1
            end = match_close(tb, j)
            body = tb[j:end]
            k = find_seq(body, ["fn", "b_mapping"])
            m = k
            while body[m].text != "{":
                m += 1
            e = match_close(body, m)
            fn_body = [t.text for t in body[m + 1:e]]
            # expect: tlsh_b_mapping_XX ( b0 , b1 , b2 , b3 )
            assert fn_body[1:] == ["(", "b0", ",", "b1", ",", "b2", ",", "b3", ")"], fn_body
            which = {"tlsh_b_mapping_48": 48, "tlsh_b_mapping_256": 256}[fn_body[0]]
            maps.append((env[arg], which))
    except Exception as e:
        fail("b_mapping selection", str(e))
        maps = []
    out.append("/-- (buckets, which Pearson finaliser: 48 or 256) -/")
    out.append("def bucketMapping : List (Nat × Nat) := [" +
               ", ".join(f"({a}, {b})" for a, b in maps) + "]\n")

    # pearson.rs
    tp = src_tokens("pearson.rs")
    try:
        subst = array_literal(tp, "SUBST_TABLE", env)
    except Exception as e:
        fail("SUBST_TABLE", str(e))
        subst = []
    out.append("def substTable : List Nat := " + lean_nat_list(subst) + "\n")
    try:
        init_state = const_item(tp, "INITIAL_STATE", env)
    except Exception as e:
        fail("INITIAL_STATE", str(e))
        init_state = 999
    out.append(f"def pearsonInitialState : Nat := {init_state}\n")
    # SUBST_TABLE_48 folding constants: `if array[i] >= A { array[i] = B; } else { array[i] %= C; }`
    try:
        i = find_seq(tp, ["const", "SUBST_TABLE_48", ":"])
        j = find_seq(tp, ["if", "array", "[", "i", "]", ">="], i)
        a = parse_int(tp[j + 6].text)
        assert [t.text for t in tp[j + 7:j + 13]] == ["{", "array", "[", "i", "]", "="], tp[j + 7:j + 13]
        b = parse_int(tp[j + 13].text)
        k = find_seq(tp, ["else", "{", "array", "[", "i", "]", "%="], j)
        c = parse_int(tp[k + 7].text)
        fold = (a, b, c)
    except Exception as e:
        fail("SUBST_TABLE_48 fold", str(e))
        fold = (0, 0, 1)
    out.append("/-- `if x >= a then b else x % c` used to build SUBST_TABLE_48 -/")
    out.append(f"def fold48 : Nat × Nat × Nat := ({fold[0]}, {fold[1]}, {fold[2]})\n")

    # generate.rs
    tg = src_tokens("generate.rs")
    try:
        window = const_item(tg, "WINDOW_SIZE", env)
    except Exception as e:
        fail("WINDOW_SIZE", str(e))
        window = 0
    out.append(f"def windowSize : Nat := {window}\n")
    # bucket pairings in update()
    pairs = []
    try:
        regs = {"b0": 0, "b1": 1, "b2": 2, "b3": 3, "b4": 4}
        for i in find_all_seq(tg, ["self", ".", "buckets", ".", "increment", "(", "Self", "::", "b_mapping", "("]):
            j = i + 9
            e = match_close(tg, j)
            args = split_top(tg[j + 1:e])
            salt = ConstEval(env).eval(args[0])
            idx = [regs[a[0].text] for a in args[1:]]
            assert len(idx) == 3 and all(len(a) == 1 for a in args[1:])
            pairs.append((salt, *idx))
        assert pairs, "no `self.buckets.increment(Self::b_mapping(…))` statement found in update()"
    except Exception as e:
        fail("bucket pairings", str(e))
        pairs = []
    out.append("/-- (salt, i, j, k): `increment(b_mapping(salt, b_i, b_j, b_k))` in `update`, in source order -/")
    out.append("def pairingsSrc : List (Nat × Nat × Nat × Nat) := [" +
               ", ".join(f"({a}, {b}, {c}, {d})" for a, b, c, d in pairs) + "]\n")
    out.append("/-- the same statements in canonical (sorted) order: the increments commute "
               "(`Lemmas/Pairings.lean`, `C01.pairings_order_irrelevant`) -/")
    out.append("def pairings : List (Nat × Nat × Nat × Nat) := [" +
               ", ".join(f"({a}, {b}, {c}, {d})" for a, b, c, d in sorted(pairs)) + "]\n")
    try:
        i = find_seq(tg, ["self", ".", "checksum", ".", "update", "("])
        e = match_close(tg, i + 5)
        args = split_top(tg[i + 6:e])
        regs = {"b0": 0, "b1": 1, "b2": 2, "b3": 3, "b4": 4}
        ck = tuple(regs[a[0].text] for a in args)
        assert len(ck) == 2
    except Exception as e:
        fail("checksum update args", str(e))
        ck = (9, 9)
    out.append("/-- `self.checksum.update(b_i, b_j)` -/")
    out.append(f"def checksumArgs : Nat × Nat := ({ck[0]}, {ck[1]})\n")
    # shift: (b0, b1, b2, b3) = (b1, b2, b3, b4)
    try:
        regs = {"b0": 0, "b1": 1, "b2": 2, "b3": 3, "b4": 4}
        i = find_seq(tg, ["(", "b0", ",", "b1", ",", "b2", ",", "b3", ")", "=", "("])
        if i >= 0:
            e = match_close(tg, i + 10)
            sh = [regs[a[0].text] for a in split_top(tg[i + 11:e])]
        else:
            # the same shift written as consecutive single assignments `bX = bY;` (evaluated in order)
            k = find_seq(tg, ["b0", "=", "b1", ";"])
            assert k >= 0, "no tuple shift and no `b0 = b1;`"
            val = dict(regs)
            while tg[k].text in regs and tg[k + 1].text == "=" and tg[k + 2].text in regs and tg[k + 3].text == ";":
                val[tg[k].text] = val[tg[k + 2].text]
                k += 4
            sh = [val[r] for r in ("b0", "b1", "b2", "b3")]
    except Exception as e:
        fail("register shift", str(e))
        sh = []
    out.append("def registerShift : List Nat := [" + ", ".join(map(str, sh)) + "]\n")
    # checksum update salts: checksum.rs  b_mapping(0, curr, prev, self.data[0]) etc.
    tc = src_tokens("hash/checksum.rs")
    # checksum update statements:
    #   self.data[K] = <F>(<SEED>, curr, prev, self.data[K]);
    # F = FuzzyHashBucketsInfo::<SIZE_BUCKETS>::b_mapping (variant's mapping -> 0)
    #   | tlsh_b_mapping_256 (-> 256); SEED = literal n (-> n) | self.data[J] (-> 1000 + J)
    def checksum_steps(body):
        steps = []
        for st in split_top(body, ";"):
            tx = [t.text for t in st]
            assert tx[:7] == ["self", ".", "data", "[", tx[4], "]", "="], tx
            k = parse_int(tx[4])
            rest = st[7:]
            rt = [t.text for t in rest]
            if rt[:7] == ["FuzzyHashBucketsInfo", "::", "<", "SIZE_BUCKETS", ">", "::", "b_mapping"]:
                which, args_at = 0, 7
            elif rt[0] == "tlsh_b_mapping_256":
                which, args_at = 256, 1
            else:
                raise ValueError(f"unknown checksum mapping {rt[:8]}")
            assert rt[args_at] == "("
            e = match_close(rest, args_at)
            assert e == len(rest) - 1
            args = split_top(rest[args_at + 1:e])
            a = [[t.text for t in x] for x in args]
            assert a[1] == ["curr"] and a[2] == ["prev"], a
            assert a[3] == ["self", ".", "data", "[", str(k), "]"], a
            if len(a[0]) == 1:
                seed = parse_int(a[0][0])
                assert seed < 1000
            else:
                assert a[0][:4] == ["self", ".", "data", "["] and a[0][5] == "]"
                seed = 1000 + parse_int(a[0][4])
            steps.append((k, which, seed))
        return steps
    try:
        fns = find_all_seq(tc, ["fn", "update", "(", "&", "mut", "self", ",", "curr"])
        bodies = []
        for i in fns:
            j = i
            while tc[j].text not in ("{", ";"):
                j += 1
            if tc[j].text == ";":
                continue
            e = match_close(tc, j)
            bodies.append(checksum_steps(tc[j + 1:e]))
        assert len(bodies) == 2, len(bodies)
    except Exception as e:
        fail("checksum update bodies", str(e))
        bodies = [[], []]
    out.append("/-- `InnerChecksum::update` statements `data[k] = F(seed, curr, prev, data[k])` as (k, F, seed):")
    out.append("F = 0 for the variant's own b_mapping, 256 for tlsh_b_mapping_256; seed = literal n, or 1000+j for data[j]. -/")
    for nm, b in zip(("checksumSteps1", "checksumSteps3"), bodies):
        out.append(f"def {nm} : List (Nat × Nat × Nat) := [" +
                   ", ".join(f"({a}, {b_}, {c})" for a, b_, c in b) + "]")
    out.append("")
    # option flag bits
    try:
        flags = {}
        for n in ("PURE_INTEGER_QRATIO_COMPUTATION", "ALLOW_SMALL_SIZE_FILES",
                  "ALLOW_STATISTICALLY_WEAK_BUCKETS_HALF", "ALLOW_STATISTICALLY_WEAK_BUCKETS_QUARTER"):
            i = find_seq(tg, ["const", n, "="])
            flags[n] = parse_int(tg[i + 3].text)
    except Exception as e:
        fail("option flags", str(e))
        flags = {}
    out.append("def optionFlagBits : List (String × Nat) := [" +
               ", ".join(f"({json.dumps(k)}, {v})" for k, v in flags.items()) + "]\n")
    # Q ratio expression constants: `q1 as u64 * 100) / q3 as u64) % 16`, `wrapping_mul(100)`
    try:
        i = find_seq(tg, ["q1", "as", "u64", "*"])
        if i >= 0:
            mul_i = parse_int(tg[i + 4].text)
            j = find_seq(tg, ["q3", "as", "u64", ")", "%"], i)
            mod_i = parse_int(tg[j + 5].text)
        else:
            # `u64::from(<q>) * N / u64::from(q3)) % M` (the quotient taken in a helper / closure over one quartile)
            i = find_seq(tg, ["u64", "::", "from", "("])
            assert i >= 0 and tg[i + 5].text == ")" and tg[i + 6].text == "*", "no u64 Q-ratio product"
            mul_i = parse_int(tg[i + 7].text)
            j = find_seq(tg, ["(", "q3", ")", ")", "%"], i)
            mod_i = parse_int(tg[j + 5].text)
        i2 = find_seq(tg, [".", "wrapping_mul", "("])
        assert i2 >= 0 and tg[i2 - 1].text in ("q", "q1", "q2"), "no wrapping_mul on a quartile"
        mul_f = parse_int(tg[i2 + 3].text)
        j2 = find_seq(tg, ["as", "u32", "%"], i2)
        mod_f = parse_int(tg[j2 + 3].text)
        qr = (mul_i, mod_i, mul_f, mod_f)
    except Exception as e:
        fail("qratio constants", str(e))
        qr = (0, 1, 0, 1)
    out.append("/-- (int multiplier, int modulus, f32 multiplier, f32 modulus) in the Q-ratio expressions -/")
    out.append(f"def qratioConsts : Nat × Nat × Nat × Nat := ({qr[0]}, {qr[1]}, {qr[2]}, {qr[3]})\n")
    # quartile selection indices: select_nth_unstable(SIZE_BUCKETS / a - b)
    try:
        sel = []
        for i in find_all_seq(tg, ["select_nth_unstable", "(", "SIZE_BUCKETS", "/"]):
            a = parse_int(tg[i + 4].text)
            assert tg[i + 5].text == "-"
            b = parse_int(tg[i + 6].text)
            recv = tg[i - 2].text
            sel.append((recv, a, b))
        assert len(sel) == 3, f"expected three select_nth_unstable(SIZE_BUCKETS / a - b) calls, found {len(sel)}"
        # canonical receiver names, by data flow rather than by spelling: the first call's result is bound by
        # `let (LOWER, <nth>, UPPER) = WHOLE.select_nth_unstable(..)`; the other two receivers are LOWER / UPPER.
        # Emitted as copy_buckets / l0 / l1 in that order (the order of the two later calls is immaterial:
        # they work on disjoint sub-slices).
        try:
            i0 = find_all_seq(tg, ["select_nth_unstable", "(", "SIZE_BUCKETS", "/"])[0]
            k = i0
            while tg[k].text != "let":
                k -= 1
            assert tg[k + 1].text == "("
            pe = match_close(tg, k + 1)
            assert tg[pe + 1].text == "="
            parts = split_top(tg[k + 2:pe])
            assert len(parts) == 3
            role = {sel[0][0]: "copy_buckets", parts[0][-1].text: "l0", parts[2][-1].text: "l1"}
            canon = [(role[r], a, b) for r, a, b in sel]
            assert sorted(x[0] for x in canon) == ["copy_buckets", "l0", "l1"] and canon[0][0] == "copy_buckets"
            sel = sorted(canon)
        except Exception:
            pass    # keep the spelled names; `tables` then decides
    except Exception as e:
        fail("select_nth_unstable args", str(e))
        sel = []
    out.append("/-- (receiver, a, b): `receiver.select_nth_unstable(SIZE_BUCKETS / a - b)` -/")
    out.append("def selectArgs : List (String × Nat × Nat) := [" +
               ", ".join(f"({json.dumps(r)}, {a}, {b})" for r, a, b in sel) + "]\n")

    # length.rs
    tl = src_tokens("length.rs")
    try:
        env["ENCODED_VALUE_SIZE"] = const_item(tl, "ENCODED_VALUE_SIZE", env)
    except Exception as e:
        fail("ENCODED_VALUE_SIZE", str(e))
        env["ENCODED_VALUE_SIZE"] = 0
    out.append(f"def encodedValueSize : Nat := {env['ENCODED_VALUE_SIZE']}\n")
    try:
        topval = array_literal(tl, "TOP_VALUE_BY_ENCODING", env)
    except Exception as e:
        fail("TOP_VALUE_BY_ENCODING", str(e))
        topval = []
    out.append("def topValue : List Nat := " + lean_nat_list(topval, 8) + "\n")
    # MAX = TOP_VALUE_BY_ENCODING[TOP_VALUE_BY_ENCODING.len() - 1]
    try:
        i = find_seq(tl, ["const", "MAX", ":", "u32", "="])
        txt = [t.text for t in tl[i + 5:i + 16]]
        assert txt[:11] == ["TOP_VALUE_BY_ENCODING", "[", "TOP_VALUE_BY_ENCODING", ".", "len", "(", ")", "-", "1", "]", ";"], txt
        maxv = topval[len(topval) - 1]
    except Exception as e:
        fail("length MAX", str(e))
        maxv = 0
    out.append(f"def maxLength : Nat := {maxv}\n")
    try:
        mp = impl_consts(tl, ("ConstrainedLengthProcessingInfo", "LengthProcessingInfo"),
                         ["MIN", "MIN_CONSERVATIVE"], env)
        rows = [(env[a], mp[a]["MIN"], mp[a]["MIN_CONSERVATIVE"])
                for a in ("NUM_BUCKETS_SHORT", "NUM_BUCKETS_NORMAL", "NUM_BUCKETS_LONG")]
    except Exception as e:
        fail("length thresholds", str(e))
        rows = []
    out.append("/-- (buckets, MIN, MIN_CONSERVATIVE) -/")
    out.append("def lengthThresholds : List (Nat × Nat × Nat) := [" +
               ", ".join(f"({a}, {b}, {c})" for a, b, c in rows) + "]\n")
    # checksum sizes
    try:
        cs = (const_item(tc, "CHECKSUM_SIZE_NORMAL", env), const_item(tc, "CHECKSUM_SIZE_LONG", env))
        env["CHECKSUM_SIZE_NORMAL"], env["CHECKSUM_SIZE_LONG"] = cs
    except Exception as e:
        fail("checksum sizes", str(e))
        cs = (0, 0)
    out.append(f"def checksumSizeNormal : Nat := {cs[0]}")
    out.append(f"def checksumSizeLong : Nat := {cs[1]}\n")
    # OneByteChecksumChecker<NUM_BUCKETS_SHORT>::is_valid: `checksum <= NUM_BUCKETS_SHORT as u8`
    try:
        i = find_seq(tc, ["checksum", "<=", "NUM_BUCKETS_SHORT", "as", "u8"])
        if i < 0:   # the same comparison carried out in usize
            i = find_seq(tc, ["usize", "::", "from", "(", "checksum", ")", "<=", "NUM_BUCKETS_SHORT"])
        assert i > 0
        # make sure it's inside impl for OneByteChecksumChecker<NUM_BUCKETS_SHORT>
        k = find_seq(tc, ["for", "OneByteChecksumChecker", "<", "NUM_BUCKETS_SHORT", ">", "{"])
        assert 0 < k < i
        bound = env["NUM_BUCKETS_SHORT"]
    except Exception as e:
        fail("short checksum validity bound", str(e))
        bound = 0
    out.append("/-- 48-bucket checksum byte is valid iff `≤` this -/")
    out.append(f"def shortChecksumMax : Nat := {bound}\n")
    # variants from params.rs
    tpm = src_tokens("params.rs")
    try:
        i = find_seq(tpm, ["params!", "{"])
        e = match_close(tpm, i + 1)
        vs = []
        for item in split_top(tpm[i + 2:e], ";"):
            name = item[0].text
            assert item[1].text == "=" and item[2].text == "("
            args = split_top(item[3:-1])
            vs.append((name, ConstEval(env).eval(args[0]), ConstEval(env).eval(args[1])))
    except Exception as e:
        fail("variants", str(e))
        vs = []
    out.append("/-- (name, checksum size, buckets) from `params!` -/")
    out.append("def variants : List (String × Nat × Nat) := [" +
               ", ".join(f"({json.dumps(n)}, {c}, {b})" for n, c, b in vs) + "]\n")
    out.append("end TlshVerif.Gen\n")
    return "\n".join(out)


# An item that cannot be extracted (the source no longer has the shape the translator knows) is recorded
# in `failures` -- an undischarged obligation for the properties that read it -- and its definition falls
# back to the value extracted from the pinned tree (tools/gen_defaults.json), so that the model the *other*
# properties' correspondence runs against stays meaningful instead of being built on 0 / [] stubs.
FAIL_DEFS = {
    "FuzzyHashBucketMapper consts": ["bucketInfo", "numBucketsShort", "numBucketsNormal", "numBucketsLong"],
    "b_mapping selection": ["bucketMapping"], "SUBST_TABLE": ["substTable"], "INITIAL_STATE": ["pearsonInitialState"],
    "SUBST_TABLE_48 fold": ["fold48"], "WINDOW_SIZE": ["windowSize"], "bucket pairings": ["pairings", "pairingsSrc"],
    "checksum update args": ["checksumArgs"], "register shift": ["registerShift"],
    "checksum update bodies": ["checksumSteps1", "checksumSteps3"], "option flags": ["optionFlagBits"],
    "qratio constants": ["qratioConsts"], "select_nth_unstable args": ["selectArgs"],
    "ENCODED_VALUE_SIZE": ["encodedValueSize"], "TOP_VALUE_BY_ENCODING": ["topValue"], "length MAX": ["maxLength"],
    "length thresholds": ["lengthThresholds"], "checksum sizes": ["checksumSizeNormal", "checksumSizeLong"],
    "short checksum validity bound": ["shortChecksumMax"], "variants": ["variants"],
    "HEX_UPPER_NIBBLE_TABLE": ["hexUpperNibbleTable"], "HEX_REV_TABLE_LO": ["hexRevTableLo16", "hexRevTableLo8"],
    "HEX_INVALID": ["hexInvalid16", "hexInvalid8"], "decode_digit": ["decodeDigitArms", "decodeDigitDefault"],
    "hash prefix literal": ["hashPrefix", "hashPrefixOccurrences"], "LEN_IN_STR_EXCEPT_PREFIX": ["prefixLenInSizes"],
    "size formulas": ["sizeFormulas"], "quartile accessor": ["quartileBodies"],
    "dist_body constants": ["bodyOutlierValue", "maxDistanceBody", "maxDistanceBodyText"],
    "dist_length constants": ["lengthMult", "maxDistanceLength"],
    "dist_qratios constants": ["qratioMult", "maxDistanceQRatios"], "ring moduli": ["ringModuli"],
    "distance scaling rules": ["lengthRule", "lengthTableThreshold", "qratioRule"],
    "compare_with_config body": ["compareWithConfigBody"], "BUFFER_SIZE": ["bufferSize"],
    "hash_stream_common": ["retryInterrupted", "streamLenInvariant"],
    "serde visitors": ["serdeBytesVisitorUnwraps", "serdeHints"],
}
DEFAULTS_PATH = os.path.join(HERE, "gen_defaults.json")
_DEF_RE = re.compile(r"^def (\w+)\b.*?(?=^(?:def |/--|end |-- )|\Z)", re.S | re.M)


def apply_defaults(files, freeze):
    blocks = {fn: {m.group(1): m.group(0) for m in _DEF_RE.finditer(txt)} for fn, txt in files.items()}
    if freeze:
        if failures:
            print("refusing to freeze defaults: extraction failures " + "; ".join(failures), file=sys.stderr)
        else:
            with open(DEFAULTS_PATH, "w") as f:
                json.dump({k: v for k, v in blocks.items() if k in ("Generator.lean", "Codec.lean", "Compare.lean", "Easy.lean")},
                          f, indent=0, sort_keys=True)
        return files
    if not failures or not os.path.exists(DEFAULTS_PATH):
        return files
    defaults = json.load(open(DEFAULTS_PATH))
    wanted = set()
    for fl in failures:
        for key, names in FAIL_DEFS.items():
            if fl.startswith(key):
                wanted.update(names)
    for fn, txt in list(files.items()):
        for name in wanted:
            cur = blocks.get(fn, {}).get(name)
            dflt = defaults.get(fn, {}).get(name)
            if cur is not None and dflt is not None and cur != dflt:
                txt = txt.replace(cur, "-- (not extractable from the current source: reference value)\n" + dflt, 1)
        files[fn] = txt
    return files


def main():
    changed = []
    files = {"Generator.lean": gen_generator()}
    extra = os.path.join(HERE, "extract_more.py")
    if os.path.exists(extra):
        import extract_more
        files.update(extract_more.generate(sys.modules[__name__]))
    files = apply_defaults(files, "--freeze-defaults" in sys.argv)
    status = [HEADER, "namespace TlshVerif.Gen\n",
              "def extractionFailures : List String := [" +
              ", ".join(json.dumps(f) for f in failures) + "]\n",
              "end TlshVerif.Gen\n"]
    files["Status.lean"] = "\n".join(status)
    for name, content in files.items():
        if write_if_changed(os.path.join(GEN, name), content):
            changed.append(name)
    summary = {"changed": changed, "failures": failures,
               "sha": {n: hashlib.sha256(c.encode()).hexdigest()[:16] for n, c in files.items()}}
    print(json.dumps(summary))
    return 0


if __name__ == "__main__":
    sys.exit(main())
