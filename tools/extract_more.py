"""Translator, part 2: codec tables (parse/hex_str.rs, hash.rs) and comparison
constants (compare/*.rs).  Called from extract.py."""
import json

from rustlex import (parse_int, parse_bytechar, match_close, find_seq, find_all_seq, split_top)


def generate(E):
    files = {}
    files["Codec.lean"] = gen_codec(E)
    files["Compare.lean"] = gen_compare(E)
    files["Easy.lean"] = gen_easy(E)
    try:
        import kernels
        files.update(kernels.generate(E))
    except ImportError:
        pass
    E.files_cache = dict(files)
    files["Safety.lean"] = gen_safety(E)
    try:
        import effects
        files.update(effects.generate(E))
    except ImportError:
        pass
    return files


def gen_codec(E):
    env = {}
    out = [E.HEADER, "namespace TlshVerif.Gen\n"]
    th = E.src_tokens("parse/hex_str.rs")
    try:
        nib = E.array_literal(th, "HEX_UPPER_NIBBLE_TABLE", env)
    except Exception as e:
        E.fail("HEX_UPPER_NIBBLE_TABLE", str(e))
        nib = []
    out.append("def hexUpperNibbleTable : List Nat := " + E.lean_nat_list(nib) + "\n")
    # the two literal reverse tables (u16 / 0x100 and u8 / 0xff) in file order
    for nth, name in ((0, "hexRevTableLo16"), (1, "hexRevTableLo8")):
        try:
            t = E.array_literal(th, "HEX_REV_TABLE_LO", env, nth=nth)
        except Exception as e:
            E.fail("HEX_REV_TABLE_LO#%d" % nth, str(e))
            t = []
        out.append(f"def {name} : List Nat := " + E.lean_nat_list(t) + "\n")
    inv = []
    try:
        for i in find_all_seq(th, ["const", "HEX_INVALID", ":"]):
            j = i
            while th[j].text != "=":
                j += 1
            inv.append(parse_int(th[j + 1].text))
        assert len(inv) == 2
    except Exception as e:
        E.fail("HEX_INVALID", str(e))
        inv = [0, 0]
    out.append(f"def hexInvalid16 : Nat := {inv[0]}")
    out.append(f"def hexInvalid8 : Nat := {inv[1]}\n")
    # decode_digit: arms  b'0'..=b'9' => digit - b'0' [+ 10],   _ => 0xff
    arms = []
    default = None
    try:
        i = find_seq(th, ["fn", "decode_digit", "("])
        j = find_seq(th, ["match", "digit", "{"], i)
        e = match_close(th, j + 2)
        for arm in split_top(th[j + 3:e], ","):
            tx = [t.text for t in arm]
            if not tx:
                continue
            if tx[0] == "_":
                assert tx[1] == "=>"
                default = parse_int(tx[2])
                continue
            lo = parse_bytechar(tx[0])
            assert tx[1] == "..="
            hi = parse_bytechar(tx[2])
            assert tx[3] == "=>" and tx[4] == "digit" and tx[5] == "-"
            sub = parse_bytechar(tx[6])
            add = 0
            if len(tx) > 7:
                assert tx[7] == "+"
                add = parse_int(tx[8])
            arms.append((lo, hi, sub, add))
        assert default is not None
    except Exception as e:
        E.fail("decode_digit", str(e))
        arms, default = [], 0
    out.append("/-- `decode_digit` arms (lo, hi, subtract, add); default value -/")
    out.append("def decodeDigitArms : List (Nat × Nat × Nat × Nat) := [" +
               ", ".join(f"({a}, {b}, {c}, {d})" for a, b, c, d in arms) + "]")
    out.append(f"def decodeDigitDefault : Nat := {default}\n")
    # "T1" prefix literal(s) in hash.rs
    thh = E.src_tokens("hash.rs")
    try:
        prefs = [t.text for t in thh if t.kind == "bytestr"]
        assert prefs and all(p == prefs[0] for p in prefs), prefs
        body = prefs[0][2:-1]
        pre = [ord(c) for c in body]
        npre = len(prefs)
    except Exception as e:
        E.fail("hash prefix literal", str(e))
        pre, npre = [], 0
    out.append("/-- the byte-string literal(s) used as version prefix in hash.rs (all occurrences equal) -/")
    out.append("def hashPrefix : List Nat := [" + ", ".join(map(str, pre)) + "]")
    out.append(f"def hashPrefixOccurrences : Nat := {npre}\n")
    # LEN_IN_STR_EXCEPT_PREFIX = SIZE_IN_STR_BYTES - 2
    try:
        i = find_seq(thh, ["const", "LEN_IN_STR_EXCEPT_PREFIX", ":", "usize", "=", "SIZE_IN_STR_BYTES", "-"])
        plen = parse_int(thh[i + 7].text)
    except Exception as e:
        E.fail("LEN_IN_STR_EXCEPT_PREFIX", str(e))
        plen = 0
    out.append(f"def prefixLenInSizes : Nat := {plen}\n")
    # size formulas in params.rs: {$size_buckets / 4 + 2 + $size_checksum}, {(… ) * 2 + 2}
    tp = E.src_tokens("params.rs")
    try:
        i = find_seq(tp, ["macro_rules!", "inner_fuzzy_hash_type"])
        j = find_seq(tp, ["FuzzyHash", "<"], i)
        k = j + 1
        # collect the five brace groups
        groups = []
        while len(groups) < 5:
            while tp[k].text != "{":
                k += 1
            e = match_close(tp, k)
            groups.append(" ".join(t.text for t in tp[k + 1:e]))
            k = e + 1
    except Exception as e:
        E.fail("size formulas", str(e))
        groups = []
    out.append("/-- the five const-generic arguments of `inner_fuzzy_hash_type!` as token text -/")
    out.append("def sizeFormulas : List String := [" + ", ".join(json.dumps(g) for g in groups) + "]\n")
    # quartile accessor expression(s) in hash/body.rs
    tb = E.src_tokens("hash/body.rs")
    try:
        exprs = []
        for i in find_all_seq(tb, ["fn", "quartile", "(", "&", "self", ",", "index", ":", "usize", ")", "->", "u8", "{"]):
            e = match_close(tb, i + 12)
            exprs.append(" ".join(t.text for t in tb[i + 13:e]))
    except Exception as e:
        E.fail("quartile accessor", str(e))
        exprs = []
    out.append("/-- bodies of the three `quartile()` accessors as token text -/")
    out.append("def quartileBodies : List String := [" + ", ".join(json.dumps(g) for g in exprs) + "]\n")
    # serde: does FuzzyHashBytesVisitor::visit_bytes unwrap the conversion?
    th = E.src_tokens("hash.rs")
    unwraps = True
    buffered = []
    try:
        i = find_seq(th, ["for", "FuzzyHashBytesVisitor", "<"])
        j = find_seq(th, ["fn", "visit_bytes"], i)
        k = j
        while th[k].text != "{":
            k += 1
        e = match_close(th, k)
        body = [x.text for x in th[k:e + 1]]
        unwraps = any(body[a:a + 3] == [".", "unwrap", "("] for a in range(len(body) - 2)) or "expect" in body
        # which deserialize_* hints are requested
        for name in ("deserialize_str", "deserialize_string", "deserialize_bytes", "deserialize_byte_buf"):
            if find_seq(th, ["deserializer", ".", name, "("]) >= 0:
                buffered.append(name)
    except Exception as ex:
        E.fail("serde visitors", str(ex))
    out.append("/-- `FuzzyHashBytesVisitor::visit_bytes` unwraps the result of `try_from` -/")
    out.append(f"def serdeBytesVisitorUnwraps : Bool := {'true' if unwraps else 'false'}")
    out.append("def serdeHints : List String := [" + ", ".join(json.dumps(b) for b in buffered) + "]\n")
    out.append("end TlshVerif.Gen\n")
    return "\n".join(out)


def gen_compare(E):
    env = {}
    out = [E.HEADER, "namespace TlshVerif.Gen\n"]
    tb = E.src_tokens("compare/dist_body.rs")
    tl = E.src_tokens("compare/dist_length.rs")
    tq = E.src_tokens("compare/dist_qratios.rs")
    vals = {}
    try:
        env["BODY_OUTLIER_VALUE"] = E.const_item(tb, "BODY_OUTLIER_VALUE", env)
        for n in ("MAX_DISTANCE_SHORT", "MAX_DISTANCE_NORMAL", "MAX_DISTANCE_LONG"):
            vals[n] = E.const_item(tb, n, env)
    except Exception as e:
        E.fail("dist_body constants", str(e))
    out.append(f"def bodyOutlierValue : Nat := {env.get('BODY_OUTLIER_VALUE', 0)}")
    out.append("def maxDistanceBody : List (Nat × Nat) := [(48, %d), (128, %d), (256, %d)]\n" % (
        vals.get("MAX_DISTANCE_SHORT", 0), vals.get("MAX_DISTANCE_NORMAL", 0), vals.get("MAX_DISTANCE_LONG", 0)))
    try:
        lm = E.macro_value(tl, "length_mult", env)
        env_l = {"length_mult!": lm}
        maxl = E.const_item(tl, "MAX_DISTANCE", env_l)
    except Exception as e:
        E.fail("dist_length constants", str(e))
        lm, maxl = 0, 0
    out.append(f"def lengthMult : Nat := {lm}")
    out.append(f"def maxDistanceLength : Nat := {maxl}\n")
    try:
        qm = E.macro_value(tq, "qratio_mult", env)
        env_q = {"qratio_mult!": qm}
        maxq = E.const_item(tq, "MAX_DISTANCE", env_q)
    except Exception as e:
        E.fail("dist_qratios constants", str(e))
        qm, maxq = 0, 0
    out.append(f"def qratioMult : Nat := {qm}")
    out.append(f"def maxDistanceQRatios : Nat := {maxq}\n")
    # ring moduli: distance_on_ring_mod(lvalue1, lvalue2, N) in naive::distance; (qratio_1, qratio_2, N)
    try:
        i = find_seq(tl, ["distance_on_ring_mod", "(", "lvalue1", ",", "lvalue2", ","])
        lmod = parse_int(tl[i + 6].text)
        i = find_seq(tq, ["distance_on_ring_mod", "(", "qratio_1", ",", "qratio_2", ","])
        qmod = parse_int(tq[i + 6].text)
        # table initialiser: distance_on_ring_mod(0, i as u8, N)
        i = find_seq(tl, ["distance_on_ring_mod", "(", "0", ",", "i", "as", "u8", ","])
        ltmod = parse_int(tl[i + 8].text)
    except Exception as e:
        E.fail("ring moduli", str(e))
        lmod, qmod, ltmod = 1, 1, 1
    out.append("/-- ring moduli passed to distance_on_ring_mod (0 = 256): length naive, length table, qratio -/")
    out.append(f"def ringModuli : Nat × Nat × Nat := ({lmod}, {ltmod}, {qmod})\n")
    # scaling rules: `if dist <= 1 { dist } else { dist * M }` / `(dist - 1) * M`
    try:
        def rule(toks, start_seq):
            i = find_seq(toks, start_seq)
            j = find_seq(toks, ["if", "dist", "<="], i)
            thr = parse_int(toks[j + 3].text)
            k = find_seq(toks, ["else", "{"], j)
            e = match_close(toks, k + 1)
            body = [t.text for t in toks[k + 2:e]]
            if body[:3] == ["dist", "*", "length_mult!"]:
                sub = 0
            elif body[:6] == ["(", "dist", "-", body[3], ")", "*"]:
                sub = parse_int(body[3])
            else:
                raise ValueError("unknown scaling body " + " ".join(body))
            return thr, sub
        lthr, lsub = rule(tl, ["pub", "const", "fn", "distance", "(", "lvalue1"])
        # in naive module
        i = find_seq(tl, ["mod", "naive"])
        lthr, lsub = rule(tl[i:], ["fn", "distance"])
        qthr, qsub = rule(tq, ["fn", "sub_distance"])
        # table form in dist_length: LDIST_VALUE
        i = find_seq(tl, ["const", "LDIST_VALUE"])
        j = find_seq(tl, ["if", "dist", "<="], i)
        ltthr = parse_int(tl[j + 3].text)
    except Exception as e:
        E.fail("distance scaling rules", str(e))
        lthr, lsub, qthr, qsub, ltthr = 0, 0, 0, 0, 0
    out.append("/-- `if d <= thr then d else (d - sub) * mult`: (thr, sub) for length (naive), length table thr, qratio -/")
    out.append(f"def lengthRule : Nat × Nat := ({lthr}, {lsub})")
    out.append(f"def lengthTableThreshold : Nat := {ltthr}")
    out.append(f"def qratioRule : Nat × Nat := ({qthr}, {qsub})\n")
    # compare_with_config / max_distance: which parts are summed (token text)
    thh = E.src_tokens("hash.rs")
    try:
        def fn_body(name):
            for i in find_all_seq(thh, ["fn", name, "("]):
                j = match_close(thh, i + 2)
                while thh[j].text not in ("{", ";"):
                    j += 1
                if thh[j].text == ";":
                    continue
                e = match_close(thh, j)
                return " ".join(t.text for t in thh[j + 1:e])
            raise ValueError("no body for " + name)
        cmp_body = fn_body("compare_with_config")
        max_body = fn_body("max_distance")
    except Exception as e:
        E.fail("compare_with_config body", str(e))
        cmp_body, max_body = "", ""
    out.append("def compareWithConfigBody : String := " + json.dumps(cmp_body))
    out.append("def maxDistanceBodyText : String := " + json.dumps(max_body) + "\n")
    out.append("end TlshVerif.Gen\n")
    return "\n".join(out)


def gen_easy(E):
    out = [E.HEADER, "namespace TlshVerif.Gen\n"]
    t = E.src_tokens("generate_easy_std.rs")
    try:
        bs = E.const_item(t, "BUFFER_SIZE", {})
    except Exception as e:
        E.fail("BUFFER_SIZE", str(e))
        bs = 0
    out.append(f"def bufferSize : Nat := {bs}\n")
    retry = False
    has_inv = False
    try:
        i = find_seq(t, ["fn", "hash_stream_common"])
        j = i
        while t[j].text != "{":
            j += 1
        e = match_close(t, j)
        body = [x.text for x in t[j:e + 1]]
        # retry: the loop mentions ErrorKind::Interrupted and `continue`
        # retry: the arm for ErrorKind::Interrupted is `continue`, or it is empty (`{}` / `()`) and the `match` it
        # belongs to is the last statement of the `loop` body, so falling out of it starts the next iteration
        retry = False
        if "Interrupted" in body:
            bt = t[j:e + 1]
            ki = [x.text for x in bt].index("Interrupted")
            ka = ki
            while bt[ka].text != "=>":
                ka += 1
            nxt = [x.text for x in bt[ka + 1:ka + 4]]
            if nxt[0] == "continue":
                retry = True
            elif nxt[:2] in (["{", "}"], ["(", ")"]):
                # enclosing `match … {` = nearest unclosed `{` before the arm; enclosing loop likewise before it
                stack = []
                for q in range(ki):
                    if bt[q].text == "{":
                        stack.append(q)
                    elif bt[q].text == "}":
                        stack.pop()
                m_open = stack[-1]
                l_open = stack[-2]
                m_close = match_close(bt, m_open)
                q = m_close + 1
                while bt[q].text == ";":
                    q += 1
                is_loop = any(bt[z].text == "loop" for z in range(max(0, l_open - 1), l_open))
                retry = is_loop and q == match_close(bt, l_open)
        k = find_seq(t[j:e + 1], ["invariant!", "(", "len", "<=", "buffer", ".", "len", "(", ")", ")"])
        has_inv = k >= 0
    except Exception as ex:
        E.fail("hash_stream_common", str(ex))
    out.append("/-- `hash_stream_common` retries a read that fails with `ErrorKind::Interrupted` -/")
    out.append(f"def retryInterrupted : Bool := {'true' if retry else 'false'}")
    out.append("/-- `hash_stream_common` hands `len <= buffer.len()` to the optimiser under feature `unsafe` -/")
    out.append(f"def streamLenInvariant : Bool := {'true' if has_inv else 'false'}\n")
    out.append("end TlshVerif.Gen\n")
    return "\n".join(out)


def gen_safety(E):
    """invariant!() sites, unsafe blocks / unchecked calls, public API surface (C17)."""
    import os
    out = [E.HEADER, "namespace TlshVerif.Gen\n"]
    sites = []
    unchecked = []
    census = []
    root = E.SRC
    files = []
    for base, dirs, fs in os.walk(root):
        dirs.sort()
        for f in sorted(fs):
            if f.endswith(".rs"):
                rel = os.path.relpath(os.path.join(base, f), root)
                if rel.endswith("tests.rs") or "/tests" in rel or rel.startswith("_docs"):
                    continue
                files.append(rel)
    try:
        for rel in sorted(files):
            if rel in ("macros.rs", "verif.rs") or rel.endswith("/verif.rs") or rel.endswith("fuzzer.rs"):
                continue
            t = E.src_tokens(rel)
            # cut the verification hook module out of generate.rs
            cut = find_seq(t, ["pub", "mod", "verif", "{"])
            if cut >= 0:
                e = match_close(t, cut + 3)
                t = t[:cut] + t[e + 1:]
            for i in find_all_seq(t, ["invariant!", "("]):
                e = match_close(t, i + 1)
                sites.append((rel, " ".join(x.text for x in t[i + 2:e])))
            nb = nf = no = 0
            for i, tok in enumerate(t):
                if tok.text in ("from_utf8_unchecked", "unreachable_unchecked", "get_unchecked", "get_unchecked_mut",
                                "transmute", "assume_init", "from_raw_parts", "from_raw_parts_mut", "unwrap_unchecked",
                                "set_len", "MaybeUninit", "uninit", "uninit_array", "assume", "unchecked_add",
                                "unchecked_sub", "unchecked_mul", "unchecked_shl", "unchecked_shr", "read_unaligned",
                                "write_unaligned", "copy_nonoverlapping", "as_mut_ptr", "from_utf8_unchecked_mut",
                                "new_unchecked", "unreachable_unchecked"):
                    unchecked.append((rel, tok.text))
                if tok.text == "unsafe" and i + 1 < len(t):
                    if t[i + 1].text == "{":
                        nb += 1
                    elif t[i + 1].text in ("fn", "impl", "trait", "extern"):
                        nf += 1
                if tok.text == "optionally_unsafe!":
                    no += 1
            if nb or nf or no:
                census.append((rel, nb, nf, no))
    except Exception as ex:
        E.fail("invariant sites", str(ex))
    out.append("/-- every `invariant!(expr)` in non-test code: (file, expression tokens) -/")
    out.append("def invariantSites : List (String × String) := [" +
               ", ".join(f"({json.dumps(a)}, {json.dumps(b)})" for a, b in sites) + "]\n")
    try:
        import hashlib
        mt = E.src_tokens("macros.rs")
        cutm = find_seq(mt, ["mod", "tests"])
        if cutm >= 0:
            mt = mt[:cutm]
        fp = hashlib.md5(" ".join(x.text for x in mt).encode()).hexdigest()
    except Exception as ex:
        E.fail("macros fingerprint", str(ex))
        fp = ""
    out.append("/-- md5 of the token sequence of macros.rs (`invariant!`, `optionally_unsafe!` definitions), tests excluded -/")
    out.append(f"def macrosFingerprint : String := {json.dumps(fp)}\n")
    out.append("/-- per file: (`unsafe {` blocks, `unsafe fn|impl|trait|extern` items, `optionally_unsafe!` uses) -/")
    out.append("def unsafeCensus : List (String × Nat × Nat × Nat) := [" +
               ", ".join(f"({json.dumps(a)}, {b}, {c}, {d})" for a, b, c, d in census) + "]\n")
    out.append("/-- unchecked / raw operations outside the x86 back ends: (file, name) -/")
    out.append("def uncheckedCalls : List (String × String) := [" +
               ", ".join(f"({json.dumps(a)}, {json.dumps(b)})" for a, b in unchecked) + "]\n")
    # load sites of the translated kernels: (kernel, bytes per load, index, bytes available)
    loads = []
    try:
        import re
        kern = E.files_cache.get("Kernels.lean", "") if hasattr(E, "files_cache") else ""
        cur = None
        size = {"Distance32": 32, "Distance64": 64}
        for line in kern.splitlines():
            m = re.match(r"def (\w+) ", line)
            if m:
                cur = m.group(1)
            for m in re.finditer(r"Model\.load(128|256) (\w+) \(([0-9+]+)\)", line):
                w = int(m.group(1)) // 8
                idx = sum(int(x) for x in m.group(3).split("+"))
                avail = next((v for k, v in size.items() if cur and cur.endswith(k)), 0)
                loads.append((cur, w, idx, avail))
            for m in re.finditer(r"Model\.load(128|256)u32 (\w+)", line):
                w = int(m.group(1)) // 8
                # chunk length asserted by `assert!(buckets.len() >= N)`: 4 u32 for 128-bit, 8 for 256-bit loads
                loads.append((cur, w, 0, 16 if m.group(1) == "128" else 32))
    except Exception as ex:
        E.fail("load sites", str(ex))
    out.append("/-- unaligned vector loads in the translated kernels: (kernel, bytes per load, index, bytes available) -/")
    out.append("def loadSites : List (String × Nat × Nat × Nat) := [" +
               ", ".join(f"({json.dumps(a)}, {b}, {c}, {d})" for a, b, c, d in loads) + "]\n")
    # chunk-size assertions guarding the aggregation loads
    asserts = []
    try:
        for rel in ("generate/bucket_aggregation/x86_sse2.rs", "generate/bucket_aggregation/x86_ssse3.rs",
                    "generate/bucket_aggregation/x86_avx2.rs"):
            t = E.src_tokens(rel)
            i = find_seq(t, ["assert!", "(", "buckets", ".", "len", "(", ")", ">="])
            n = parse_int(t[i + 8].text) if i >= 0 else 0
            j = find_seq(t, ["chunks_exact", "("])
            c = parse_int(t[j + 2].text) if j >= 0 else 0
            asserts.append((rel, n, c))
    except Exception as ex:
        E.fail("aggregation chunk assertions", str(ex))
    out.append("/-- (file, N in `assert!(buckets.len() >= N)`, N in `chunks_exact(N)`) -/")
    out.append("def aggregationChunks : List (String × Nat × Nat) := [" +
               ", ".join(f"({json.dumps(a)}, {b}, {c})" for a, b, c in asserts) + "]\n")
    out.append("end TlshVerif.Gen\n")
    return "\n".join(out)
