#!/usr/bin/env python3
"""keep_mutant.py <worktree> <Cxx> <name> <checks…> [-- extra demo cargo args]
Confirms the seeded change (tools/confirm_mutant.py), runs the given checks against it
(tools/try_mutant.py) and, if confirmed, stores it under /verif/seeded/<name>/."""
import json, os, shutil, subprocess, sys
VERIF = os.path.dirname(os.path.dirname(os.path.abspath(__file__)))
args = sys.argv[1:]
extra = []
if "--" in args:
    i = args.index("--")
    extra = args[i + 1:]
    args = args[:i]
wt, pid, name, checks = args[0], args[1], args[2], args[3:]
conf = subprocess.run([sys.executable, os.path.join(VERIF, "tools", "confirm_mutant.py"), wt, pid] + extra,
                      stdout=subprocess.PIPE, text=True).stdout
conf = json.loads(conf[conf.index("{"):])
print("confirmed:", conf["confirmed"])
tm = subprocess.run([sys.executable, os.path.join(VERIF, "tools", "try_mutant.py"), os.path.join(wt, "deliver", "patch.diff")] + checks,
                    stdout=subprocess.PIPE, text=True).stdout
print(tm)
results = {}
for line in tm.splitlines():
    if line[:1] == "C" and " exit=" in line:
        p = line.split(" ", 1)[0]
        rc = int(line.split("exit=")[1].split(" ")[0])
        results[p] = {"exit": rc, "line": line.split(" ", 2)[2][:200]}
if not conf["confirmed"]:
    print("NOT confirmed; not kept")
    sys.exit(1)
dst = os.path.join(VERIF, "seeded", name)
os.makedirs(dst, exist_ok=True)
shutil.copy(os.path.join(wt, "deliver", "patch.diff"), os.path.join(dst, "patch.diff"))
shutil.copy(os.path.join(wt, "deliver", "demo.rs"), os.path.join(dst, f"demo_{pid.lower()}.rs"))
meta = {}
try:
    meta = json.load(open(os.path.join(wt, "deliver", "meta.json")))
except Exception:
    pass
# replay excerpts for the checks that fired
detail = {}
for p, r in results.items():
    rp = os.path.join(VERIF, "replays", f"{p}-quick-0.json")
    if r["exit"] != 0 and os.path.exists(rp):
        d = json.load(open(rp))
        fi = d.get("failing_inputs", [])
        detail[p] = {"concrete_inputs": len(fi),
                     "first": (fi[0]["kind"] + " | " + fi[0].get("config", "") + " | " + fi[0]["message"][:300]) if fi else None,
                     "undischarged": [o["name"] for o in d.get("undischarged_obligations", [])][:6]}
out = {
    "property": pid,
    "summary": meta.get("summary"),
    "needs_to_manifest": meta.get("needs"),
    "demo_cmd": conf["demo_cmd"] + "   (copy the demo into fast-tlsh/tests/ first)",
    "features": meta.get("features"),
    "confirmation": {k: conf[k] for k in ("baseline_with_change_rc", "baseline_with_change", "demo_with_change_rc",
                                          "demo_with_change", "demo_without_change_rc", "demo_without_change", "confirmed")},
    "what_i_ran": ["tools/confirm_mutant.py (baseline suite with the change; demo with / without the change) in the scratch worktree",
                   "tools/try_mutant.py patch.diff " + " ".join(checks) + " (git -C /repo apply; ./check …; git -C /repo checkout -- .)"],
    "checks": results,
    "detection_detail": detail,
}
json.dump(out, open(os.path.join(dst, "meta.json"), "w"), indent=1)
print("kept in", dst)
