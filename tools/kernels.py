"""Translator, part 3 (DESIGN §4.3): straight-line Rust kernels -> Lean defs.

Handles `let [mut] x = e;`, `let (a, b) = e;`, `x = e;`, `x += e;`,
`for i in A..B { … }` (unrolled), `assert!/debug_assert!` (dropped), a final
expression; expressions over integer literals (all spellings, negative byte
literals), `Wrapping`, `.0`, `as` casts, unary/binary operators with Rust
precedence, method calls `wrapping_add/sub/mul/shr/shl`, `rotate_left`,
intrinsic calls with const generics, pointer idioms of the x86 back ends
(`body as *const u8 as *const __m128i`, `px.add(i)`, `buckets.as_ptr() as …`),
`if … else …` on comparisons, tuples.  Anything else raises and the kernel is
emitted as a stub + listed in `extractionFailures`.
"""
from rustlex import parse_int, parse_bytechar, match_close, find_seq, find_all_seq, split_top

LEAN_TY = {"u8": "UInt8", "u16": "UInt16", "u32": "UInt32", "u64": "UInt64", "usize": "Nat",
           "m128": "Model.M128", "m256": "Model.M256", "bool": "Bool"}
BITS = {"u8": 8, "u16": 16, "u32": 32, "u64": 64}
RUST_TY = {"u8": "u8", "i8": "u8", "u16": "u16", "i16": "u16", "u32": "u32", "i32": "u32", "u64": "u64",
           "i64": "u64", "usize": "usize", "__m128i": "m128", "__m256i": "m256"}

# intrinsic: (lean name, arg types, result type, number of const generics)
INTR = {}
for w, ty, load in (("_mm_", "m128", "128"), ("_mm256_", "m256", "256")):
    p = "Model.mm_" if w == "_mm_" else "Model.mm256_"
    suf = "si128" if w == "_mm_" else "si256"
    INTR[w + "and_" + suf] = (p + "and_" + suf, [ty, ty], ty, 0)
    INTR[w + "or_" + suf] = (p + "or_" + suf, [ty, ty], ty, 0)
    INTR[w + "xor_" + suf] = (p + "xor_" + suf, [ty, ty], ty, 0)
    INTR[w + "add_epi32"] = (p + "add_epi32", [ty, ty], ty, 0)
    INTR[w + "sub_epi32"] = (p + "sub_epi32", [ty, ty], ty, 0)
    INTR[w + "mullo_epi32"] = (p + "mullo_epi32", [ty, ty], ty, 0)
    INTR[w + "slli_epi32"] = (p + "slli_epi32", [ty], ty, 1)
    INTR[w + "srli_epi32"] = (p + "srli_epi32", [ty], ty, 1)
    INTR[w + "cmpgt_epi32"] = (p + "cmpgt_epi32", [ty, ty], ty, 0)
    INTR[w + "shuffle_epi32"] = (p + "shuffle_epi32", [ty], ty, 1)
    INTR[w + "shuffle_epi8"] = (p + "shuffle_epi8", [ty, ty], ty, 0)
    INTR[w + "movemask_epi8"] = (p + "movemask_epi8", [ty], "u32", 0)
    INTR[w + "set1_epi8"] = (p + "set1_epi8", ["u8"], ty, 0)
    INTR[w + "set1_epi32"] = (p + "set1_epi32", ["u32"], ty, 0)
INTR["_mm_set1_epi16"] = ("Model.mm_set1_epi16", ["u16"], "m128", 0)
INTR["_mm_slli_epi16"] = ("Model.mm_slli_epi16", ["m128"], "m128", 1)
INTR["_mm_srli_epi16"] = ("Model.mm_srli_epi16", ["m128"], "m128", 1)
INTR["_mm_add_epi16"] = ("Model.mm_add_epi16", ["m128", "m128"], "m128", 0)
INTR["_mm_packs_epi16"] = ("Model.mm_packs_epi16", ["m128", "m128"], "m128", 0)
INTR["_mm_cvtsi128_si32"] = ("Model.mm_cvtsi128_si32", ["m128"], "u32", 0)
INTR["_mm256_extract_epi32"] = ("Model.mm256_extract_epi32", ["m256"], "u32", 1)


class Unsupported(Exception):
    pass


class Ctx:
    def __init__(self, params):
        self.types = dict(params)       # var -> type tag
        self.ptrs = {}                  # var -> (kind, base)
        self.undef = []                 # extra universally quantified parameters
        self.consts = {}                # loop variables -> int


class KParser:
    PREC = [["||"], ["&&"], ["==", "!=", "<", ">", "<=", ">="], ["|"], ["^"], ["&"], ["<<", ">>"],
            ["+", "-"], ["*", "/", "%"]]
    LEAN_OP = {"|": "|||", "^": "^^^", "&": "&&&", "<<": "<<<", ">>": ">>>", "+": "+", "-": "-", "*": "*",
               "/": "/", "%": "%", "==": "==", "!=": "!=", "<": "<", ">": ">", "<=": "≤", ">=": "≥",
               "&&": "&&", "||": "||"}

    def __init__(self, toks, ctx):
        self.t = toks
        self.i = 0
        self.ctx = ctx

    def peek(self, k=0):
        return self.t[self.i + k].text if self.i + k < len(self.t) else None

    def eat(self, text):
        if self.peek() != text:
            raise Unsupported(f"expected {text!r} got {self.peek()!r}")
        self.i += 1

    # ---- types ----
    def parse_type(self):
        tx = self.peek()
        if tx == "*":
            self.i += 1
            self.eat("const")
            inner = self.parse_type()
            return "ptr:" + inner
        if tx in RUST_TY:
            self.i += 1
            return RUST_TY[tx]
        raise Unsupported(f"type {tx}")

    # ---- expressions ----
    def expr(self, level=0, want=None):
        if level == len(self.PREC):
            return self.cast(want)
        lhs = self.expr(level + 1, want)
        while self.peek() in self.PREC[level]:
            op = self.peek()
            self.i += 1
            if op in ("<<", ">>"):
                rhs = self.expr(level + 1, lhs[1])
                amt = rhs[0]
                lhs = (f"({lhs[0]} {self.LEAN_OP[op]} {amt})", lhs[1])
                continue
            rhs = self.expr(level + 1, lhs[1] if lhs[1] in BITS else want)
            lty, rty = lhs[1], rhs[1]
            if lty == "lit" and rty != "lit":
                lhs = (self.lit_as(lhs[0], rty), rty)
                lty = rty
            if rty == "lit" and lty != "lit":
                rhs = (self.lit_as(rhs[0], lty), lty)
                rty = lty
            if lty != rty:
                raise Unsupported(f"type mismatch {lty} {op} {rty}")
            if op in ("==", "!=", "<", ">", "<=", ">="):
                lhs = (f"(decide ({lhs[0]} {self.LEAN_OP[op]} {rhs[0]}))", "bool")
            else:
                lhs = (f"({lhs[0]} {self.LEAN_OP[op]} {rhs[0]})", lty)
        return lhs

    def lit_as(self, text, ty):
        if ty in BITS:
            v = int(text) % (1 << BITS[ty])
            return f"({v} : {LEAN_TY[ty]})"
        if ty == "usize":
            return text
        raise Unsupported(f"literal as {ty}")

    def cast(self, want):
        e = self.unary(want)
        while self.peek() == "as":
            self.i += 1
            ty = self.parse_type()
            e = self.do_cast(e, ty)
        return e

    def do_cast(self, e, ty):
        text, src = e
        if ty.startswith("ptr:"):
            inner = ty[4:]
            if src.startswith("ref:") or src.startswith("ptr:"):
                base = src.split(":", 2)[-1] if src.startswith("ptr:") else src[4:]
                return (text, f"ptr:{inner}:{base}")
            raise Unsupported(f"pointer cast from {src}")
        if src == "lit":
            return (self.lit_as(text, ty), ty)
        if src == ty:
            return e
        if src in BITS and ty in BITS:
            if BITS[src] > BITS[ty] or BITS[src] < BITS[ty]:
                return (f"{text}.to{LEAN_TY[ty]}", ty)
        if src == "usize" and ty in BITS:
            return (f"({LEAN_TY[ty]}.ofNat {text})", ty)
        raise Unsupported(f"cast {src} -> {ty}")

    def unary(self, want):
        if self.peek() == "-":
            self.i += 1
            e = self.unary(want)
            if e[1] != "lit":
                raise Unsupported("unary minus on non-literal")
            return (str(-int(e[0])), "lit")
        if self.peek() == "!":
            raise Unsupported("unary not")
        return self.postfix(want)

    def postfix(self, want):
        e = self.atom(want)
        while True:
            if self.peek() == "." and self.t[self.i + 1].kind == "num":
                # tuple field / Wrapping.0
                if self.t[self.i + 1].text != "0":
                    raise Unsupported("tuple field")
                self.i += 2
                continue
            if self.peek() == "." and self.t[self.i + 1].kind == "ident":
                name = self.t[self.i + 1].text
                self.i += 2
                self.eat("(")
                args = self.args(e[1])
                e = self.method(e, name, args)
                continue
            break
        return e

    def args(self, want=None):
        out = []
        while self.peek() != ")":
            out.append(self.expr(0, want))
            if self.peek() == ",":
                self.i += 1
        self.eat(")")
        return out

    def method(self, recv, name, args):
        text, ty = recv
        def arg(k, t):
            a = args[k]
            if a[1] == "lit":
                return self.lit_as(a[0], t)
            if a[1] != t:
                raise Unsupported(f"method arg type {a[1]} vs {t}")
            return a[0]
        if name in ("wrapping_add", "wrapping_sub", "wrapping_mul") and ty in BITS:
            op = {"wrapping_add": "+", "wrapping_sub": "-", "wrapping_mul": "*"}[name]
            return (f"({text} {op} {arg(0, ty)})", ty)
        if name in ("wrapping_shr", "wrapping_shl") and ty in BITS:
            op = ">>>" if name == "wrapping_shr" else "<<<"
            a = args[0]
            amt = int(a[0]) % BITS[ty] if a[1] == "lit" else None
            if amt is None:
                raise Unsupported("variable wrapping_shr amount")
            return (f"({text} {op} {amt})", ty)
        if name == "rotate_left" and ty in BITS and args[0][1] == "lit":
            k = int(args[0][0]) % BITS[ty]
            return (f"(({text} <<< {k}) ||| ({text} >>> {BITS[ty] - k}))", ty)
        if name == "add" and ty.startswith("ptr:"):
            _, inner, base = ty.split(":", 2)
            a = args[0]
            if a[1] not in ("lit", "usize"):
                raise Unsupported("pointer add of non-constant")
            return (f"{text}+{a[0]}", ty)
        if name == "as_ptr" and ty.startswith("slice32:"):
            return ("0", "ptr:u32:" + ty[8:])
        raise Unsupported(f"method {name} on {ty}")

    def atom(self, want):
        t = self.t[self.i]
        tx = t.text
        if tx == "(":
            self.i += 1
            first = self.expr(0, want)
            if self.peek() == ",":
                items = [first]
                while self.peek() == ",":
                    self.i += 1
                    if self.peek() == ")":
                        break
                    items.append(self.expr(0, want))
                self.eat(")")
                return ("(" + ", ".join(x[0] for x in items) + ")", "tuple:" + ",".join(x[1] for x in items))
            self.eat(")")
            return first
        if t.kind == "num":
            self.i += 1
            v = parse_int(tx)
            import re
            m = re.search(r"([iu])(8|16|32|64)$", tx.replace("_", "")) if not tx.startswith("0x") or True else None
            # suffix detection must not misread hex digits: only accept a suffix after an underscore-free tail
            suffix = None
            for s in ("u8", "i8", "u16", "i16", "u32", "i32", "u64", "i64"):
                if tx.endswith(s) and not (tx.startswith("0x") and all(c in "0123456789abcdefABCDEF_" for c in tx[2:])):
                    suffix = s
            if suffix:
                ty = RUST_TY[suffix]
                return (self.lit_as(str(v), ty), ty)
            return (str(v), "lit")
        if t.kind == "bytechar":
            self.i += 1
            return (self.lit_as(str(parse_bytechar(tx)), "u8"), "u8")
        if tx == "if":
            return self.if_expr(want)
        if t.kind == "ident":
            self.i += 1
            name = tx
            if name == "Wrapping":
                self.eat("(")
                e = self.expr(0, want)
                self.eat(")")
                return e
            # generic call  f::<N>(args)
            generics = []
            if self.peek() == "::" and self.peek(1) == "<":
                self.i += 2
                while self.peek() != ">":
                    g = self.expr(len(self.PREC), None)  # atom-level
                    generics.append(g)
                    if self.peek() == ",":
                        self.i += 1
                self.eat(">")
            if self.peek() == "(" and (name in INTR or name.startswith("_mm")):
                self.i += 1
                return self.intrinsic(name, generics)
            if name in self.ctx.consts:
                return (str(self.ctx.consts[name]), "lit")
            if name in self.ctx.types:
                ty = self.ctx.types[name]
                if ty.startswith("ptr:"):
                    return (self.ctx.ptrs[name], ty)
                return (name, ty)
            raise Unsupported(f"unknown identifier {name}")
        raise Unsupported(f"unexpected token {tx!r}")

    def intrinsic(self, name, generics):
        if name in ("_mm_undefined_si128", "_mm256_undefined_si256"):
            self.eat(")")
            ty = "m128" if "128" in name else "m256"
            pname = f"undef{len(self.ctx.undef)}"
            self.ctx.undef.append((pname, ty))
            return (pname, ty)
        if name in ("_mm_set_epi8", "_mm256_set_epi8"):
            args = self.args("u8")
            vals = []
            for a in args:
                if a[1] != "lit":
                    raise Unsupported("non-literal set_epi8 argument")
                vals.append(int(a[0]) % 256)
            fn = "Model.mm_set_epi8" if name == "_mm_set_epi8" else "Model.mm256_set_epi8"
            return (f"({fn} [" + ", ".join(map(str, vals)) + "])", "m128" if name == "_mm_set_epi8" else "m256")
        if name in ("_mm_loadu_si128", "_mm256_loadu_si256"):
            args = self.args()
            a = args[0]
            if not a[1].startswith("ptr:"):
                raise Unsupported("load from non-pointer")
            _, inner, base = a[1].split(":", 2)
            want_inner = "m128" if name == "_mm_loadu_si128" else "m256"
            if inner != want_inner:
                raise Unsupported(f"load of {inner} through {name}")
            idx = a[0]
            bty = self.ctx.types.get(base, "")
            w = "128" if want_inner == "m128" else "256"
            if bty.startswith("bytes"):
                return (f"(Model.load{w} {base} ({idx}))", want_inner)
            if bty.startswith("slice32"):
                if idx.replace("0", "").replace("+", "") != "":
                    raise Unsupported("offset load from u32 slice")
                return (f"(Model.load{w}u32 {base})", want_inner)
            raise Unsupported(f"load base type {bty}")
        if name not in INTR:
            raise Unsupported(f"intrinsic {name}")
        lean, argtys, rty, ngen = INTR[name]
        if len(generics) != ngen:
            raise Unsupported(f"{name}: const generics")
        args = self.args()
        if len(args) != len(argtys):
            raise Unsupported(f"{name}: arity")
        parts = [lean]
        for g in generics:
            if g[1] != "lit":
                raise Unsupported("non-literal const generic")
            parts.append(g[0])
        for a, ty in zip(args, argtys):
            if a[1] == "lit":
                parts.append(self.lit_as(a[0], ty))
            elif a[1] == ty:
                parts.append(a[0])
            else:
                raise Unsupported(f"{name}: argument type {a[1]} expected {ty}")
        return ("(" + " ".join(parts) + ")", rty)

    def if_expr(self, want):
        self.eat("if")
        # condition up to the block brace (no struct literals here)
        c = self.expr(0, None)
        if c[1] != "bool":
            raise Unsupported("if condition type")
        a = self.block(want)
        self.eat("else")
        if self.peek() == "if":
            b = self.if_expr(want)
        else:
            b = self.block(want)
        if a[1] == "lit" and b[1] != "lit":
            a = (self.lit_as(a[0], b[1]), b[1])
        if b[1] == "lit" and a[1] != "lit":
            b = (self.lit_as(b[0], a[1]), a[1])
        if a[1] == "lit" and b[1] == "lit" and want:
            a = (self.lit_as(a[0], want), want)
            b = (self.lit_as(b[0], want), want)
        if a[1] != b[1]:
            raise Unsupported(f"if branch types {a[1]} / {b[1]}")
        return (f"(if {c[0]} then {a[0]} else {b[0]})", a[1])

    # ---- statements ----
    def block(self, want):
        self.eat("{")
        lets, res = self.stmts(want)
        self.eat("}")
        return (wrap_lets(lets, res[0]), res[1])

    def stmts(self, want):
        lets = []
        res = None
        while self.peek() not in ("}", None):
            tx = self.peek()
            if tx in ("assert!", "debug_assert!"):
                self.i += 1
                j = match_close(self.t, self.i)
                self.i = j + 1
                if self.peek() == ";":
                    self.i += 1
                continue
            if tx == "let":
                self.i += 1
                if self.peek() == "mut":
                    self.i += 1
                if self.peek() == "(":
                    self.i += 1
                    names = []
                    while self.peek() != ")":
                        if self.peek() == "mut":
                            self.i += 1
                        names.append(self.peek())
                        self.i += 1
                        if self.peek() == ",":
                            self.i += 1
                    self.eat(")")
                    self.eat("=")
                    e = self.expr(0, None)
                    self.eat(";")
                    if not e[1].startswith("tuple:"):
                        raise Unsupported("tuple pattern on non-tuple")
                    tys = e[1][6:].split(",")
                    lets.append(("(" + ", ".join(names) + ")", e[0]))
                    for n, ty in zip(names, tys):
                        self.ctx.types[n] = ty
                    continue
                name = self.peek()
                self.i += 1
                declared = None
                if self.peek() == ":":
                    self.i += 1
                    declared = self.parse_type()
                self.eat("=")
                e = self.expr(0, declared)
                self.eat(";")
                if e[1] == "lit":
                    if not declared:
                        raise Unsupported(f"untyped literal binding {name}")
                    e = (self.lit_as(e[0], declared), declared)
                if e[1].startswith("ptr:"):
                    self.ctx.types[name] = e[1]
                    self.ctx.ptrs[name] = e[0] if e[0] and not e[0][0].isalpha() else "0"
                    continue
                self.ctx.types[name] = e[1]
                lets.append((name, e[0]))
                continue
            if tx == "for":
                self.i += 1
                var = self.peek()
                self.i += 1
                self.eat("in")
                lo = self.expr(len(self.PREC), None)
                self.eat("..")
                hi = self.expr(len(self.PREC), None)
                if lo[1] != "lit" or hi[1] != "lit":
                    raise Unsupported("non-constant loop bounds")
                if self.peek() != "{":
                    raise Unsupported("loop body")
                start = self.i
                end = match_close(self.t, start)
                for k in range(int(lo[0]), int(hi[0])):
                    self.ctx.consts[var] = k
                    sub = KParser(self.t[start:end + 1], self.ctx)
                    sub.eat("{")
                    ls, r = sub.stmts(None)
                    if r is not None:
                        raise Unsupported("value-producing loop body")
                    lets += ls
                self.ctx.consts.pop(var, None)
                self.i = end + 1
                continue
            # assignment / compound assignment
            if self.t[self.i].kind == "ident" and self.peek(1) in ("=", "+=", "|=", "^=", "&="):
                name = self.peek()
                op = self.peek(1)
                self.i += 2
                ty = self.ctx.types.get(name)
                e = self.expr(0, ty)
                self.eat(";")
                if e[1] == "lit":
                    e = (self.lit_as(e[0], ty), ty)
                if e[1] != ty:
                    raise Unsupported(f"assignment type {e[1]} to {ty}")
                if op == "=":
                    lets.append((name, e[0]))
                else:
                    lop = {"+=": "+", "|=": "|||", "^=": "^^^", "&=": "&&&"}[op]
                    lets.append((name, f"({name} {lop} {e[0]})"))
                continue
            # trailing expression
            e = self.expr(0, want)
            if self.peek() == ";":
                raise Unsupported("expression statement")
            res = e
            break
        return lets, res


def wrap_lets(lets, res):
    out = ""
    for n, e in lets:
        out += f"let {n} := {e}\n  "
    return out + res


def find_fn(toks, name, nth=0):
    hits = find_all_seq(toks, ["fn", name, "("])
    i = hits[nth]
    pe = match_close(toks, i + 2)
    params = []
    for p in split_top(toks[i + 3:pe]):
        pname = p[0].text
        assert p[1].text == ":"
        ty_toks = [t.text for t in p[2:]]
        params.append((pname, ty_toks))
    j = pe + 1
    ret = None
    if toks[j].text == "->":
        k = j + 1
        while toks[k].text != "{":
            k += 1
        ret = [t.text for t in toks[j + 1:k]]
        j = k
    while toks[j].text != "{":
        j += 1
    e = match_close(toks, j)
    return params, ret, toks[j:e + 1]


def param_type(ty_toks):
    s = " ".join(ty_toks)
    if s in RUST_TY:
        return RUST_TY[s]
    if s == "& [ u32 ]":
        return "slice32"
    import re
    m = re.match(r"& \[ u8 ; (\d+) \]", s)
    if m:
        return "bytes" + m.group(1)
    m = re.match(r"& \[ u32 ; (\d+) \]", s)
    if m:
        return "slice32"
    raise Unsupported(f"parameter type {s}")


def ret_type(ret):
    s = " ".join(ret)
    if s in RUST_TY:
        return RUST_TY[s]
    if s == "( u8 , u8 )":
        return "tuple:u8,u8"
    raise Unsupported(f"return type {s}")


def lean_type(ty):
    if ty.startswith("tuple:"):
        return " × ".join(LEAN_TY[t] for t in ty[6:].split(","))
    if ty.startswith("bytes"):
        return "List UInt8"
    if ty == "slice32":
        return "List UInt32"
    return LEAN_TY[ty]


def translate_fn(E, toks, rust_name, lean_name, nth=0):
    """Returns Lean source of one def (or a stub on failure)."""
    try:
        params, ret, body = find_fn(toks, rust_name, nth)
        ptys = [(n, param_type(t)) for n, t in params]
        rty = ret_type(ret)
        ctx = Ctx({n: (t if not t.startswith("bytes") and t != "slice32" else t) for n, t in ptys})
        # references to arrays can be cast to pointers: mark as ref
        for n, t in ptys:
            if t.startswith("bytes") or t == "slice32":
                ctx.types[n] = t
        kp = KParser(body, ctx)
        # allow `body as *const u8 as *const __m128i`: identifiers of bytes type cast to ptr
        orig_cast = kp.do_cast

        def do_cast(e, ty):
            text, src = e
            if ty.startswith("ptr:") and (src.startswith("bytes") or src == "slice32"):
                return ("0", f"ptr:{ty[4:]}:{text}")
            if ty.startswith("ptr:") and src.startswith("ptr:"):
                base = src.split(":", 2)[2]
                return (text, f"ptr:{ty[4:]}:{base}")
            return orig_cast(e, ty)
        kp.do_cast = do_cast
        orig_method = kp.method

        def method(recv, name, args):
            text, ty = recv
            if name == "as_ptr" and ty == "slice32":
                return ("0", "ptr:u32:" + text)
            if name == "add" and ty.startswith("ptr:"):
                a = args[0]
                if a[1] != "lit":
                    raise Unsupported("pointer add of non-constant")
                return (f"{text}+{a[0]}", ty)
            if name == "len" and (ty.startswith("bytes") or ty == "slice32"):
                return (f"{text}.length", "usize")
            return orig_method(recv, name, args)
        kp.method = method
        kp.eat("{")
        lets, res = kp.stmts(rty if not rty.startswith("tuple") else None)
        kp.eat("}")
        if res is None:
            raise Unsupported("no result expression")
        if res[1] == "lit":
            res = (kp.lit_as(res[0], rty), rty)
        if res[1] != rty:
            raise Unsupported(f"result type {res[1]} expected {rty}")
        sig = " ".join(f"({n} : {lean_type(t)})" for n, t in ptys)
        sig += "".join(f" ({n} : {lean_type(t)})" for n, t in ctx.undef)
        return f"def {lean_name} {sig} : {lean_type(rty)} :=\n  {wrap_lets(lets, res[0])}\n", True
    except Exception as e:  # noqa
        E.fail(f"kernel {lean_name}", f"{type(e).__name__}: {e}")
        return f"-- kernel {lean_name}: NOT TRANSLATED ({type(e).__name__}: {e})\n", False


KERNELS = [
    # (file, rust fn, lean name, nth)
    ("compare/dist_body/pseudo_simd_32.rs", "sub_distance", "pseudo32SubDistance", 0),
    ("compare/dist_body/pseudo_simd_64.rs", "sub_distance", "pseudo64SubDistance", 0),
    ("compare/dist_body/x86_sse2.rs", "packed_distance_as_u16x8", "sse2Packed", 0),
    ("compare/dist_body/x86_sse2.rs", "distance_32", "sse2Distance32", 0),
    ("compare/dist_body/x86_sse2.rs", "distance_64", "sse2Distance64", 0),
    ("compare/dist_body/x86_sse4_1.rs", "packed_distance_as_u32x4", "sse41Packed", 0),
    ("compare/dist_body/x86_sse4_1.rs", "distance_32", "sse41Distance32", 0),
    ("compare/dist_body/x86_sse4_1.rs", "distance_64", "sse41Distance64", 0),
    ("compare/dist_body/x86_avx2.rs", "packed_distance_as_u32x8", "avx2Packed", 0),
    ("compare/dist_body/x86_avx2.rs", "distance_32", "avx2Distance32", 0),
    ("compare/dist_body/x86_avx2.rs", "distance_64", "avx2Distance64", 0),
    ("generate/bucket_aggregation/x86_sse2.rs", "sub_aggregation", "sse2SubAggregation", 0),
    ("generate/bucket_aggregation/x86_ssse3.rs", "sub_aggregation", "ssse3SubAggregation", 0),
    ("generate/bucket_aggregation/x86_avx2.rs", "sub_aggregation", "avx2SubAggregation", 0),
    ("generate/bucket_aggregation.rs", "get_quartile", "naiveGetQuartile", 0),
    ("parse/bits.rs", "swap_nibble_in_u8", "swapNibbleInU8", 0),
]


def generate(E):
    out = [E.HEADER, "import TlshVerif.Model.Intrinsics\n", "namespace TlshVerif.Gen\nopen TlshVerif\n"]
    ok_names = []
    cache = {}
    for rel, rust, lean, nth in KERNELS:
        if rel not in cache:
            cache[rel] = E.src_tokens(rel)
        toks = cache[rel]
        # functions that call an already translated packed kernel
        src, ok = translate_fn_with_calls(E, toks, rust, lean, nth, ok_names)
        out.append(src)
        if ok:
            ok_names.append(lean)
    out.append("def translatedKernels : List String := [" + ", ".join(f'"{n}"' for n in ok_names) + "]\n")
    out.append("end TlshVerif.Gen\n")
    return {"Kernels.lean": "\n".join(out)}


CALLS = {
    "packed_distance_as_u16x8": ("sse2Packed", ["m128", "m128"], "m128"),
    "packed_distance_as_u32x4": ("sse41Packed", ["m128", "m128"], "m128"),
    "packed_distance_as_u32x8": ("avx2Packed", ["m256", "m256"], "m256"),
}


def translate_fn_with_calls(E, toks, rust, lean, nth, ok_names):
    # register crate-local calls as pseudo-intrinsics (only those already translated)
    for rn, (ln, at, rt) in CALLS.items():
        if ln in ok_names:
            INTR[rn] = (ln, at, rt, 0)
    saved = KParser.atom

    def atom(self, want):
        t = self.t[self.i]
        if t.kind == "ident" and t.text in CALLS and self.peek(1) == "(" and t.text in INTR:
            self.i += 2
            return self.intrinsic(t.text, [])
        return saved(self, want)
    KParser.atom = atom
    try:
        return translate_fn(E, toks, rust, lean, nth)
    finally:
        KParser.atom = saved
