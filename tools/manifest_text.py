"""Per-property wording for MANIFEST.json."""
NOT_APPLICABLE = {}
COMMON_NOTE = ("Trusted: Lean kernel; axioms propext/Classical.choice/Quot.sound; translator tools/extract.py; "
               "the hand-written model is tied to the code by differential replay (probe vs compiled Lean model), "
               "which is testing, not proof; rustc/LLVM; Ref/ tables (DESIGN §7).")
TEXT = {
    "C03": {
        "level": "Proof: for an arbitrary accumulator step, any list of update pieces (incl. empty, 1-3 bytes, "
                 "across 4 GiB) yields the identical generator state as one update with the concatenation "
                 "(theorem chunking, from the refinement update_ideal), and every history over update/finalize/"
                 "clone/switch keeps each handle equal to a fresh generator fed the bytes it has seen (theorem "
                 "history). Unbounded in input size, piece sizes and history length. The model of update() is tied "
                 "to the code by replaying (len, tail, processed_len) after every piece and by direct oracles in "
                 "the probe (chunked = one-shot full state, clone independence, finalize does not disturb state).",
        "note": COMMON_NOTE + " Model.update is a hand transcription of generate.rs update(); that finalize(&self) "
                "cannot mutate is Rust's type system.",
        "technique": "Lean 4 refinement proof (update_ideal) + model/code differential replay",
    },
    "C11": {
        "level": "Proof: processed_len() = Some(n) iff n < 2^32 for any history of total size n (processed_len_spec); "
                 "len <= MAX_LEN, len+tail_len <= 2^32 in every reachable state, so no u32 counter wraps "
                 "(counters_bounded, update_len_no_overflow); finalize = TooLargeInput iff n > 4224281216 for every "
                 "variant/options/configuration/chunking (too_large_iff, at the reference constants, plus "
                 "C01.tables: extracted constants = reference). Correspondence: injected (len, tail) states around "
                 "MAX, MAX_LEN and 2^32 followed by pieces, in release and dev (overflow-checked) builds.",
        "note": COMMON_NOTE + " Multi-GiB states are injected via the hook in the quick tier; 'for n <= MAX the "
                "result equals the reference' is C01's theorem.",
        "technique": "Lean 4 proof over the saturating update model + model/code differential replay",
    },
    "C01": {
        "level": "Proof: for every valid variant, option setting (32), build configuration of the generator "
                 "(incl. low-memory buckets, debug assertions), byte string of ANY length (incl. >= 4 GiB) and any "
                 "chunking, the model of new/update*/finalize_with_options at the constants extracted from the "
                 "current source returns exactly Spec.tlsh: same hash or same rejection in the same order "
                 "(generate_eq_spec, generate_chunked_eq_spec; via update_ideal, windows, wrapping bucket counts = "
                 "counts mod 2^32, quartiles for every select_nth_unstable implementation meeting its contract, "
                 "CLZ-narrowed length search = least index, naive aggregation = dibit formula); extracted "
                 "tables/salts/pairings/thresholds = frozen reference (tables); reference tables justified "
                 "independently; official digest reproduced inside the kernel (kat_lovak) and 14 repository vectors "
                 "at run time. Correspondence: generated inputs x all 32 options x chunkings, injected states "
                 "(counts >= 2^24, 2^31, wrapped; adversarial f32 pairs), three configurations.",
        "note": COMMON_NOTE + " f32 Q-ratio arithmetic is an exact-integer model validated against hardware on "
                "injected bucket states (the Spec uses the same model); select_nth_unstable by contract; SIMD "
                "aggregation back ends are related to the naive one under C07.",
        "technique": "Lean 4 refinement proof model = reference algorithm (+ kernel decide over extracted tables, "
                     "kernel KAT) + spec/model/code differential replay",
    },
    "C10": {
        "level": "Proof: for every generator state (reachable or injected), parameter set, configuration and "
                 "variant: finalize returns a data-length error iff the validity classification is an error for "
                 "the mode and not (allow_small and not TooLarge) (length_error_iff); o <= o' in the "
                 "permissiveness order and finalize(o)=Ok(h) imply finalize(o')=Ok(h) (finalize_mono); "
                 "allow_quarter excludes both distribution errors (quarter_implies_half); the model uses one "
                 "extracted set of MIN/MIN_CONSERVATIVE/MAX for both the generator and the validity API, and the "
                 "probe compares Generator::MIN/MIN_CONSERVATIVE/MAX and DataLengthValidity with it (their absolute "
                 "values are C09/C11's business). "
                 "Correspondence: every injected state finalized under all 32 options vs model; published "
                 "DataLengthValidity API and Generator::MIN/MIN_CONSERVATIVE/MAX vs model (stream limits).",
        "note": COMMON_NOTE,
        "technique": "Lean 4 proof by case analysis on the option gates + model/code differential replay",
    },
    "C09": {
        "level": "Proof, symbolic over all lengths (no enumeration): the CLZ-narrowed binary search of "
                 "FuzzyHashLengthEncoding::new returns, for every n < 2^32 and every configuration (incl. feature "
                 "unsafe: the three invariant!() conditions hold in every leading-zero class), Some(least i with "
                 "n <= topval[i]) iff n <= 4224281216, else None (encode_eq_least, encode_some_iff); the code is "
                 "monotone (lengthCode_mono); range(c) contains exactly the lengths encoding to c (range_spec), "
                 "ranges 0..169 tile 0..=MAX (ranges_tile), codes >= 170 have no range (range_none_iff); extracted "
                 "table = reference (C01.tables). Correspondence is COMPLETE for new(): the probe evaluates all "
                 "2^32 lengths and the break points are compared with the reference; all 256 codes for range/"
                 "is_valid.",
        "note": COMMON_NOTE + " binary_search by contract.",
        "technique": "Lean 4 proof (table facts by kernel decide per leading-zero class + findIdx lemmas) + "
                     "exhaustive 2^32 sweep of the compiled function",
    },
    "C04": {
        "level": "Proof: for every hash value, encoder configuration (3 tables + hex-simd contract) and variant the "
                 "text written equals the canonical spec text (encode_eq_spec), has the advertised length and only "
                 "'T1' + [0-9A-F] (format_length, format_charset); parse(format(h,p)) = h for both prefix modes and "
                 "auto-detection, all 4 decoders + hex-simd contract (parse_format); every accepted string "
                 "re-formats to 'T1'+upper(digits) (format_parse) hence injectivity up to case/prefix; extracted "
                 "tables = reference (tables). Correspondence over six codec configurations incl. Display, "
                 "to_string, FromStr, from_str_with entry points (direct oracles).",
        "note": COMMON_NOTE + " hex-simd by contract.",
        "technique": "Lean 4 proof (per-digit kernel decide lifted through lists) + model/code differential replay",
    },
    "C05": {
        "level": "Proof: for every byte list, prefix mode, variant and decoder configuration the parser model "
                 "returns Ok or Err, never panics (parse_total, incl. strict); lenient: Ok iff well-formed "
                 "(parse_ok_iff) with the denoted value (parse_value); InvalidStringLength iff the length is wrong "
                 "(parse_err_length); other errors only when they apply (parse_err_applicable). Correspondence: "
                 "position x 256-byte-value sweeps and structured malformations in six decoder configurations, and "
                 "in the dev profile (overflow checks on: arithmetic on a prefix or digit byte must not panic).",
        "note": COMMON_NOTE + " hex-simd by contract.",
        "technique": "Lean 4 proof (parser = spec parser, per-digit kernel decide) + exhaustive position/byte sweeps",
    },
    "C06": {
        "level": "Proof: try_from(bytes) = the hash with exactly those fields and stores back to the same bytes, "
                 "for arrays and slices; other lengths give InvalidStringLength; never panics; quartile(i) is dibit "
                 "i%4 of byte len-1-i/4 and panics iff i >= buckets; hex form = header bytes nibble-swapped + body; "
                 "clear_checksum zeroes only the checksum. Correspondence: every slice length, header sweeps, all "
                 "bucket indices incl. out-of-range, all 256 Q-ratio bytes.",
        "note": COMMON_NOTE + " bitfield-struct accessors are exercised, not modelled.",
        "technique": "Lean 4 proof over the byte-layout model + model/code differential replay",
    },
    "C14": {
        "level": "Proof: for store_into_bytes and store_into_str_bytes (both prefixes, every encoder "
                 "configuration): BufferIsTooSmall iff L < N and then the buffer is unchanged; otherwise Ok(N), "
                 "first N bytes = representation, every byte beyond untouched, never panics "
                 "(store_into_bytes_spec, store_into_str_bytes_spec). Correspondence: every L in 0..N+64 with a "
                 "sentinel pattern in five encoder configurations.",
        "note": COMMON_NOTE + " hex-simd output extent by contract + sentinel test.",
        "technique": "Lean 4 proof (overwrite contract) + every-buffer-length differential replay",
    },
    "C02": {
        "level": "Proof: for every comparison configuration (5 body back ends incl. SSE2/SSE4.1/AVX2, length table "
                 "on/off, 3 Q-ratio table modes), valid variant, pair of well-formed hashes and mode: "
                 "compare_with_config = the reference distance (compare_eq_spec); the body kernels are the ones "
                 "REGENERATED from the Rust source each run (Gen/Kernels.lean) and are proved equal to the dibit "
                 "sum (bv_decide word lemmas + Nat bridge + lane/horizontal-sum lemmas); ring/length/Q-ratio/"
                 "checksum parts proved for all byte pairs; max_distance = reference maximum. Correspondence: all "
                 "256x256 header byte pairs; per-position 256x256 body byte pairs through every compiled back end.",
        "note": COMMON_NOTE + " bv_decide axioms in the word-level kernel lemmas (Lean compiler/runtime trusted for "
                "the LRAT checker); hand-written x86 intrinsic semantics validated against the CPU.",
        "technique": "Lean 4 proof over kernels translated from source (bv_decide for word lemmas) + per-back-end "
                     "exhaustive byte-pair differential replay",
    },
    "C08": {
        "level": "Proof on the reference distance, transferred to the model by C02: d(a,a)=0; d_Default(a,b)=0 => "
                 "a=b; symmetry; d <= max_distance with explicit witnesses attaining it for every variant and mode; "
                 "d_Default = d_NoLength + length distance; clearing both checksums lowers d by exactly the "
                 "checksum distance. All for every pair of well-formed hashes. The probe additionally evaluates "
                 "each law on the compiled code for every generated pair.",
        "note": COMMON_NOTE + " *_model corollaries inherit C02's bv_decide axioms.",
        "technique": "Lean 4 proof of the algebraic laws on the spec + transfer theorem + direct law oracles",
    },
    "C13": {
        "level": "Proof: compare_with is exactly the match of the property for every parameter set "
                 "(compare_with_match); at the reference constants it never panics, returns the reference distance "
                 "of the two parsed hashes when both parse, otherwise blames the first failing side with the "
                 "parser's error (compare_with_spec); accepted operands with equal upper-cased digits are "
                 "interchangeable, with or without prefix (compare_case_prefix_insensitive); end to end, the helper "
                 "on the canonical texts of any two well-formed hashes, prefixed or not per side, is their "
                 "reference distance and is symmetric (compare_formatted, compare_formatted_symm).",
        "note": COMMON_NOTE,
        "technique": "Lean 4 proof composing the parser (C04/C05) and distance (C02) theorems + differential replay",
    },
    "C12": {
        "level": "Proof: for every reader script within the Read contract (any partial-read sizes up to the 1 MiB "
                 "buffer, any number of ErrorKind::Interrupted, unbounded total size), valid variant and "
                 "configuration: hash_stream = reference hash (or generator error) of the concatenation of the "
                 "delivered bytes; the first hard error is returned as IOError and no hash is produced "
                 "(stream_eq_spec, hard_error_wins, composed from update_ideal and the C01 refinement); the "
                 "translator extracts from the source that interrupted reads are retried "
                 "(source_retries_interrupted) — on the pinned tree this obligation failed and the check produced "
                 "the replay [Interrupted, deliver..]; fixed in /repo e3be62e. The counterexample for the old code "
                 "is kept as a theorem. Correspondence: scripted readers incl. >1 MiB, real files of 0/<1MiB/"
                 "=1MiB/>1MiB, missing path.",
        "note": COMMON_NOTE + " File::open/read are the OS; readers are scripts.",
        "technique": "Lean 4 proof (read loop refines the script spec, via update_ideal + C01) + scripted-reader "
                     "differential replay",
    },
    "C15": {
        "level": "Proof: strict parser (text and bytes) = lenient parser then checksum check (48-bucket: byte <= 48) "
                 "then length-code check (< 170): Ok(h) iff lenient Ok(h) and both valid; InvalidChecksum / "
                 "LengthIsTooLarge when only that reason applies; lenient errors stay errors "
                 "(strict_eq_lenient_then_checks_*); every hash the generator can produce (any input, chunking, "
                 "options, configuration) is well formed, has length code < 170 = code of the bytes fed, and "
                 "checksum byte <= 48 on the 48-bucket variant (generated_strict_valid, via the C01 refinement and "
                 "fold48 <= 48 over all 256 Pearson outputs), hence survives the strict round trip "
                 "(strict_roundtrip_generated). Correspondence in the strict build: header bytes swept, "
                 "position x byte sweeps, generated hashes re-parsed.",
        "note": COMMON_NOTE,
        "technique": "Lean 4 proof (parser relation + generator invariant through the C01 refinement) + strict-build "
                     "differential replay",
    },
    "C16": {
        "level": "Proof over the visitor-event model: serialize hands the serializer exactly the 'T1' text (human-"
                 "readable) or the binary form as bytes (ser_spec); de(ser(h)) = h for both kinds (de_ser); "
                 "deserialization returns Ok(h) iff the matching parser (text with auto-detected prefix / binary) "
                 "returns Ok(h), every other event kind is an error (de_ok_iff_parser_ok); it never panics for any "
                 "event, flag, configuration incl. strict (de_total) given the translator-extracted fact that the "
                 "bytes visitor does not unwrap (source_does_not_unwrap) — on the pinned tree that obligation "
                 "failed and the check produced the replay (bytes ff..ff in the strict build); fixed in /repo "
                 "dd39dd2; the old behaviour is kept as unwrap_counterexample / de_total_partial. Correspondence: "
                 "scripted Deserializer events x human_readable x {serde, serde+strict, serde-buffered}; "
                 "serde_json/ciborium/postcard round trips and malformed documents.",
        "note": COMMON_NOTE + " serde default Visitor methods by contract; format crates exercised, not modelled.",
        "technique": "Lean 4 proof over a visitor-event model (composed from C04/C05/C06) + scripted-deserializer "
                     "and real-format differential replay",
    },
    "C17": {
        "level": "Proof (logic part; PARTIAL for compiled unsafe code): every modelled API operation returns Ok/Err in "
                 "every configuration incl. `unsafe` and `strict` (api_total, generate_total) except the documented "
                 "bucket-index panic (quartile_panics_iff) and the bounds panic for a misreporting reader "
                 "(misreporting_reader_panics); the set of invariant!() sites extracted from the source is exactly "
                 "the five that are proved true on every path (invariant_sites, invariant_length, "
                 "invariant_try_from, invariant_tail_size) — on the pinned tree a sixth, len <= buffer.len(), was "
                 "present and false for a lying reader: the check produced the replay (lie n>2^20 in the `unsafe` "
                 "build: garbage result / SIGSEGV), fixed in /repo b6a8a6e, kept as "
                 "misreporting_reader_ub_counterexample; from_utf8_unchecked only on ASCII text (utf8_ok, "
                 "unchecked_calls); every vector load of the translated kernels is in bounds (loads_in_bounds); "
                 "`unsafe` changes no result (unsafe_same_result). Correspondence: all broad streams in the "
                 "`unsafe` release build and in dev builds with overflow checks/debug assertions; lying readers in "
                 "child processes.",
        "note": COMMON_NOTE + " UB inside compiled unsafe blocks / LLVM / hex-simd is outside the model: the thorough "
                "tier runs the probe's `mini` stream under Miri in four configurations (supporting evidence, "
                "a sample of operations, not a proof); the quick tier has no sanitizer.",
        "technique": "Lean 4 proof of totality and of every extracted invariant!() site + unsafe/dev-build "
                     "differential replay with child-process fault observation and crash localisation "
                     "(+ Miri on a small operation stream in the thorough tier)",
    },
    "C18": {
        "level": "Proof over the effect graph extracted from the current source (224 function nodes, over-approximate "
                 "call edges): no function reachable from any core operation is an allocating function "
                 "(core_ops_alloc_free: kernel-checked closed set containing all roots and no allocating node); "
                 "the only allocating construct in non-test code is the vec! buffer of hash_stream_common "
                 "(alloc_sites_exact), in a file gated on std+easy-functions, extern crate alloc gated on the alloc "
                 "feature, crate no_std without std (alloc_gated); the stream helpers do reach it "
                 "(stream_helpers_allocate). Build obligation on every run: cargo build --no-default-features of the "
                 "library (no std, no alloc) succeeds. Correspondence: counting global allocator = 0 around every "
                 "core operation group in five configurations, > 0 around to_string / hash_stream.",
        "note": COMMON_NOTE + " PARTIAL: syntactic over-approximation; std/dependency allocations only by the "
                "run-time counter.",
        "technique": "Lean 4 reachability proof over a call/effect graph regenerated from source + counting "
                     "allocator + no-std/no-alloc build",
    },
    "C07": {
        "level": "Proof: generation under ANY generator configuration (low-memory buckets; naive/SSE2/SSSE3/AVX2 "
                 "aggregation with any content of the undefined registers; debug assertions; unsafe) equals the "
                 "reference algorithm, hence all configurations agree (generate_any_cfg_eq_spec, "
                 "generate_cfg_irrelevant); the aggregation and body-distance kernels are the ones REGENERATED from "
                 "the Rust source and every candidate the run-time dispatcher can install equals the naive / "
                 "pseudo-SIMD function (aggregation_dispatch_any, distance_dispatch_any), so the value cached by "
                 "OnceLock is the same whichever thread wins; all comparison, parser and formatter configurations "
                 "agree (compare/parse/format_cfg_irrelevant); double Pearson table by definition + exhaustive "
                 "compiled-table sweep. Correspondence: one seeded corpus in 11 configurations, each vs its model "
                 "and transcripts diffed pairwise; every compiled back end via hooks; first-call races.",
        "note": COMMON_NOTE + " bv_decide in kernel lemmas; OnceLock / CPU feature detection by contract; nightly-"
                "only and non-x86 back ends out of reach.",
        "technique": "Lean 4 proof (every cfg = configuration-free spec; kernels translated from source, bv_decide) "
                     "+ 11-configuration differential replay with pairwise transcript diff",
    },
}

# how a concrete witness is decided (DESIGN §14 "alarms only for the property that is broken")
_WITNESS = {
    "C04": " A witness is a round-trip / canonical-form failure or an acceptance that differs from the reference; "
           "which error a rejected string gets is C05's business.",
    "C07": " A witness is a line on which two configurations differ (transcripts of the same seeded corpus, "
           "grouped by stream and budget) or an in-binary back-end disagreement (agg / body oracles); a value that "
           "differs from the reference in every configuration alike is not a C07 witness.",
    "C12": " A witness is the probe's direct oracle: hash_stream / hash_file vs hash_buf of the bytes actually "
           "delivered (scripted readers, regular files, a FIFO, procfs entries), or the io error not returned.",
    "C13": " A witness is the probe's direct oracle: the helper's result vs parse-then-compare in the same build "
           "(independent, re-spelt and near-miss operand pairs, both orders, multi-byte characters).",
    "C15": " A witness is a violation of the relation between the same operation in the lenient and in the strict "
           "build of the same tree (check: strict_relation), or a generated hash failing the validity / strict "
           "round-trip oracle.",
    "C16": " A witness is the probe's direct oracle: every visitor event vs the matching parser of the same build, "
           "serialisation vs to_string / store_into_bytes, the real format crates, or a panic.",
    "C17": " A witness is an undocumented panic or a dying process (localised to one operation), allocator poison "
           "seen by a reader in memory it never wrote, a Miri report (thorough tier), or a line on which the build "
           "with `unsafe` differs from the same build without it.",
}
for _k, _v in _WITNESS.items():
    TEXT[_k]["level"] = TEXT[_k]["level"] + _v
