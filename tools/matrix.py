#!/usr/bin/env python3
"""matrix.py [--jobs N] [--only name,…]  — every kept seeded change × all 18 quick checks.

For each /verif/seeded/<name>/patch.diff: git -C /repo apply, run the 18 checks (N at a time), revert,
re-run the translator.  Appends one JSON line per (change, check) to .cache/matrix.jsonl:
  {"mutant", "property_of_mutant", "check", "exit", "verdict": "ok|concrete|nfi", "wall"}.
Used to audit cross-property alarms (DESIGN §14)."""
import concurrent.futures as cf
import glob
import json
import os
import subprocess
import sys
import time

VERIF = os.path.dirname(os.path.dirname(os.path.abspath(__file__)))
REPO = "/repo"
ALL = [f"C{i:02d}" for i in range(1, 19)]


def sh(cmd, **kw):
    return subprocess.run(cmd, stdout=subprocess.PIPE, stderr=subprocess.STDOUT, text=True, **kw)


def run_check(p):
    t0 = time.time()
    r = sh([os.path.join(VERIF, "check"), p], cwd=VERIF)
    lines = [l for l in r.stdout.strip().splitlines() if l.startswith(("OK ", "VIOLATION"))]
    last = lines[-1] if lines else r.stdout.strip()[-200:]
    verdict = "ok" if r.returncode == 0 else ("nfi" if last.endswith("no-failing-input-found") else "concrete")
    return p, r.returncode, verdict, round(time.time() - t0, 1)


def main():
    args = sys.argv[1:]
    jobs = 6
    only = None
    if "--jobs" in args:
        jobs = int(args[args.index("--jobs") + 1])
    if "--only" in args:
        only = set(args[args.index("--only") + 1].split(","))
    names = sorted(os.path.basename(os.path.dirname(p)) for p in glob.glob(os.path.join(VERIF, "seeded", "*", "patch.diff")))
    if only:
        names = [n for n in names if n in only]
    # round-robin over properties so that early results are diverse
    by = {}
    for n in names:
        by.setdefault(n[:3], []).append(n)
    order = []
    while any(by.values()):
        for k in sorted(by):
            if by[k]:
                order.append(by[k].pop(0))
    out = os.path.join(VERIF, ".cache", "matrix.jsonl")
    done = set()
    if os.path.exists(out):
        for l in open(out):
            d = json.loads(l)
            done.add((d["mutant"], d["check"]))
    for n in order:
        todo = [c for c in (([n[:3]]) if "--own" in args else ALL) if (n, c) not in done]
        if not todo:
            continue
        st = sh(["git", "-C", REPO, "status", "--porcelain", "--untracked-files=no"]).stdout.strip()
        if st:
            print("refusing: /repo not clean", st)
            return 2
        r = sh(["git", "-C", REPO, "apply", os.path.join(VERIF, "seeded", n, "patch.diff")])
        if r.returncode != 0:
            print("does not apply:", n, r.stdout[:200])
            continue
        try:
            with cf.ThreadPoolExecutor(max_workers=jobs) as ex:
                for p, rc, verdict, wall in ex.map(run_check, todo):
                    with open(out, "a") as f:
                        f.write(json.dumps({"mutant": n, "property_of_mutant": n[:3], "check": p, "exit": rc,
                                            "verdict": verdict, "wall": wall}) + "\n")
        finally:
            sh(["git", "-C", REPO, "checkout", "--", "."])
            sh([sys.executable, os.path.join(VERIF, "tools", "extract.py")])
        print(n, "done", flush=True)
    return 0


if __name__ == "__main__":
    sys.exit(main())
