#!/usr/bin/env python3
"""miri_run.py <label> <probe features> [<extra rustflags>]

Runs the probe's `mini` stream (one or two operations of every kind, every variant) under Miri, the
Rust interpreter that reports undefined behaviour: executing `unreachable_unchecked`, out-of-bounds or
misaligned `get_unchecked` / vector loads, reads of uninitialised memory, invalid `str` bytes.
Exit 0 when the run completes; exit 1 with Miri's diagnosis otherwise.  The transcript is then replayed
through the model driver like any other stream (disagreement => exit 1).
"""
import os
import subprocess
import sys

VERIF = os.path.dirname(os.path.dirname(os.path.abspath(__file__)))
sys.path.insert(0, os.path.join(VERIF, "tools"))
import vlib


def main():
    label, feats = sys.argv[1], sys.argv[2]
    extra = sys.argv[3] if len(sys.argv) > 3 else ""
    env = dict(vlib.ENV)
    env["RUSTFLAGS"] = ("--cfg fast_tlsh_verif " + extra).strip()
    env["MIRIFLAGS"] = "-Zmiri-disable-isolation"
    out = os.path.join(vlib.OPS, "C17", f"miri-{label}.txt")
    os.makedirs(os.path.dirname(out), exist_ok=True)
    if os.path.exists(out):
        os.remove(out)
    lock = os.path.join(vlib.HARNESS, "Cargo.lock")
    if not os.path.exists(lock):
        import shutil
        shutil.copy(os.path.join(vlib.REPO, "Cargo.lock"), lock)
    cmd = ["cargo", "+nightly", "miri", "run", "--offline", "--target-dir",
           os.path.join(vlib.CACHE, "target", "miri-" + label), "--features", feats, "--",
           "mini", "--seed", "0", "--budget", "1", "--out", out]
    p = subprocess.run(cmd, cwd=vlib.HARNESS, env=env, stdout=subprocess.PIPE, stderr=subprocess.STDOUT, text=True,
                       timeout=3000)
    unavailable = ("no such command: `miri`", "is not installed", "failed to build sysroot", "cargo miri setup",
                   "can't find crate for `std`", "error: toolchain")
    if p.returncode != 0 and "Undefined Behavior" not in p.stdout and any(u in p.stdout for u in unavailable):
        # the interpreter itself cannot start here: say so instead of blaming the code under test
        print(f"Miri ({label}): NOT RUN - the interpreter is unavailable in this environment:")
        print("\n".join(p.stdout.splitlines()[-6:]))
        return 0
    if p.returncode != 0:
        lines = p.stdout.splitlines()
        keep = [l for l in lines if l.startswith("error") or "Undefined Behavior" in l or l.strip().startswith("--> ")
                or " at src/" in l or "/fast-tlsh/src/" in l]
        print(f"Miri ({label}): the run did not complete, exit status {p.returncode}")
        print("\n".join(keep[:40]) if keep else "\n".join(lines[-30:]))
        print("reproduce: cd /verif/harness && RUSTFLAGS='" + env["RUSTFLAGS"] + "' MIRIFLAGS=-Zmiri-disable-isolation "
              + " ".join(cmd[:-2]) + " /dev/stdout")
        return 1
    if os.path.exists(vlib.DRIVER) or vlib.use_fallback_driver():
        d = vlib.run_driver(out, shards=2)
        bad = [m for m in d["messages"] if m.startswith(("MM spec", "MM model", "OR "))]
        if bad or d["crashed"]:
            print(f"Miri ({label}): run completed but the transcript disagrees with the model:")
            print("\n".join(m[:400] for m in bad[:5]))
            return 1
        print(f"Miri ({label}): no undefined behaviour reported; {d['ops']} operations agree with the model")
    else:
        print(f"Miri ({label}): no undefined behaviour reported")
    return 0


if __name__ == "__main__":
    sys.exit(main())
