#!/usr/bin/env python3
"""Regenerate MANIFEST.json from tools/props.py + tools/manifest_text.py."""
import json, os, sys, subprocess
HERE = os.path.dirname(os.path.abspath(__file__))
sys.path.insert(0, HERE)
from props import PROPS
from manifest_text import TEXT, NOT_APPLICABLE
VERIF = os.path.dirname(HERE)
props = [json.loads(l)["id"] for l in open(os.path.join(VERIF, "properties.jsonl"))]
try:
    commits = subprocess.run(["git", "-C", "/repo", "log", "--format=%H %s"], capture_output=True, text=True).stdout.splitlines()
    hook_commits = [c.split()[0] for c in commits if "verification hook" in c.lower() or "verif hook" in c.lower()]
except Exception:
    hook_commits = []
checks = []
for pid in props:
    if pid not in PROPS or pid not in TEXT:
        continue
    t = TEXT[pid]
    checks.append({
        "property_id": pid,
        "quick_cmd": f"./check {pid} --tier quick",
        "thorough_cmd": f"./check {pid} --tier thorough",
        "evidence_file": f"/verif/evidence/{pid}.json",
        "engine": "lean-proof+correspondence",
        "level_claimed": {"category": "proof", "text": t["level"], "design_ref": t.get("design_ref", "DESIGN.md §8 " + pid)},
        "level_note": t["note"],
        "technique": t["technique"],
    })
na = [{"property_id": p, "reason": NOT_APPLICABLE.get(p, "check not built yet (work in progress; planned as Lean proof + correspondence, DESIGN.md §8)")}
      for p in props if p not in [c["property_id"] for c in checks]]
m = {
    "version": 1,
    "setup_cmd": "./setup.sh",
    "hooks": {
        "guard": "fast_tlsh_verif",
        "enable": "RUSTFLAGS=\"--cfg fast_tlsh_verif\" cargo build --offline (probe crate /verif/harness, path dependency on /repo/fast-tlsh; done by ./check)",
        "baseline_off_cmd": "cd /repo && cargo test --workspace --no-fail-fast --offline",
        "source_commits": hook_commits,
        "add_only": True,
    },
    "engines": [{
        "name": "lean-proof+correspondence",
        "path": "/verif/check",
        "serves_properties": [c["property_id"] for c in checks],
        "kind_free_text": "Lean 4 theorems about an executable model (lean/TlshVerif), tied to /repo by a translator "
                          "(tools/extract.py, regenerates Gen/*.lean every run) and by a correspondence run: the Rust probe "
                          "(harness/) executes the real code with hooks, the compiled Lean model (lean/Driver.lean) replays "
                          "every operation and the outputs are diffed.",
    }],
    "checks": checks,
    "notes": "See DESIGN.md. ./check <id> decides one property; evidence/<id>.json is rewritten on every run.",
    "not_applicable": na,
}
json.dump(m, open(os.path.join(VERIF, "MANIFEST.json"), "w"), indent=1)
print("checks:", [c["property_id"] for c in checks], "n/a:", len(na))
