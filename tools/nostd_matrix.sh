#!/bin/sh
# The library must compile without `std` (and without `alloc`) in every combination of the features that
# do not themselves require std: C18 "the library still compiles with both the std and alloc features disabled".
cd /repo/fast-tlsh || exit 2
fail=0
for f in "" "easy-functions" "alloc" "alloc,easy-functions" "strict-parser" "opt-default" "opt-embedded-default" \
         "serde" "alloc,serde" "serde-buffered" "simd" "unsafe" "opt-low-memory-buckets" \
         "easy-functions,strict-parser,unsafe,opt-embedded-default" "alloc,easy-functions,serde,strict-parser,simd,opt-default"; do
  out=$(cargo check --offline --no-default-features --features "$f" --lib --target-dir /verif/.cache/target/nostd-lib 2>&1)
  if [ $? -ne 0 ]; then
    fail=1
    echo "does not compile: cargo check --no-default-features --features \"$f\" --lib"
    echo "$out" | grep -E "^error" -A6 | head -20
  fi
done
exit $fail
