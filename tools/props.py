"""Per-property definition: Lean modules / theorems that are the proof
obligations, the correspondence streams per tier, and how disagreements map to
violations.  (cfg, stream, budget[, extra args])"""

TRUSTED_BASE = [
    "Lean 4.33.0 kernel (lake build; #print axioms per theorem)",
    "axioms: propext, Classical.choice, Quot.sound only, unless listed per theorem",
    "tools/extract.py (translator: /repo source -> TlshVerif/Gen/*.lean, rerun every check)",
    "harness/ (tlsh-probe) + lean/Driver.lean: correspondence of the hand-written model with the compiled code",
    "rustc/LLVM code generation for each probed configuration; the CPU",
    "TlshVerif/Ref/*.lean: frozen reference constants (provenance: DESIGN §7)",
]

T = "TlshVerif.Theorems."

PROPS = {
    "C03": {
        "modules": [T + "C03"],
        "theorems": [(T + "C03.chunking", T + "C03"),
                     (T + "C03.chunking_generator", T + "C03"),
                     (T + "C03.chunking_observable", T + "C03"),
                     (T + "C03.history", T + "C03")],
        "extract_keys": ["register shift", "WINDOW_SIZE"],
        "spec_is_property": False,
        "ignore_spec_mm": True,
        "streams": {
            "quick": [("default", "core", 4000), ("default", "hist", 1500), ("embedded", "core", 1500)],
            "thorough": [("default", "core", 40000), ("default", "hist", 20000), ("embedded", "core", 20000),
                         ("embedded", "hist", 10000), ("naive", "core", 20000), ("unsafe", "core", 20000),
                         ("default", "gen", 20000)],
        },
        "assumptions": [
            "update() is modelled by Model.update (hand transcription of generate.rs); the tie is the `core` "
            "stream: (len, tail, processed_len) after every piece are compared with the model",
            "finalize_with_options(&self) cannot mutate: Rust's type system (no interior mutability in the "
            "generator struct); additionally checked by reading the state back after finalize (stream `state`)",
            "Clone is the derived field-wise copy",
        ],
    },
}
