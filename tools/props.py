"""Per-property definition: Lean modules / theorems that are the proof
obligations, the correspondence streams per tier, and how disagreements map to
violations.  (cfg, stream, budget[, extra args])"""

TRUSTED_BASE = [
    "Lean 4.33.0 kernel (lake build; #print axioms per theorem)",
    "axioms: propext, Classical.choice, Quot.sound only, unless listed per theorem",
    "tools/extract.py (translator: /repo source -> TlshVerif/Gen/*.lean, rerun every check)",
    "harness/ (tlsh-probe) + lean/Driver.lean: correspondence of the hand-written model with the compiled code",
    "rustc/LLVM code generation for each probed configuration; the CPU",
    "TlshVerif/Ref/*.lean: frozen reference constants (provenance: DESIGN §7)",
]

T = "TlshVerif.Theorems."
VERIF_DIR = __import__("os").path.dirname(__import__("os").path.dirname(__import__("os").path.abspath(__file__)))

PROPS = {
    "C03": {
        "model_mm_filter": "result-kinds",   # hash / distance VALUES are C01's / C02's business (DESIGN §14)
        # the model of update() is tied to the code by the `core` lines (len, tail, processed_len after every piece);
        # finalisation results in `hist` / `gen` lines are judged by the probe's direct oracles (chunked = one shot,
        # history = fresh generator fed the bytes seen, finalize leaves the state untouched)
        "model_mm_ops": ["core"],
        "modules": [T + "C03"],
        "theorems": [(T + "C03.chunking", T + "C03"),
                     (T + "C03.chunking_generator", T + "C03"),
                     (T + "C03.chunking_observable", T + "C03"),
                     (T + "C03.history", T + "C03"),
                     # the closed form the driver uses for a single piece of >= 4 GiB of zeros
                     ("TlshVerif.Model.updateZeros_eq", "TlshVerif.Lemmas.HugePiece")],
        "modules_extra": ["TlshVerif.Lemmas.HugePiece"],
        "extract_keys": ["register shift", "WINDOW_SIZE"],
        "spec_is_property": False,
        "ignore_spec_mm": True,
        "streams": {
            "quick": [("default", "core", 4000), ("default", "hist", 1500), ("embedded", "core", 1500),
                      ("default", "hugepiece", 0), ("embedded", "hugepiece", 0)],
            "thorough": [("default", "core", 40000), ("default", "hist", 20000), ("embedded", "core", 20000),
                         ("embedded", "hist", 10000), ("naive", "core", 20000), ("unsafe", "core", 20000),
                         ("default", "gen", 20000), ("default", "hugepiece", 0), ("unsafe", "hugepiece", 0)],
        },
        "assumptions": [
            "update() is modelled by Model.update (hand transcription of generate.rs); the tie is the `core` "
            "stream: (len, tail, processed_len) after every piece are compared with the model",
            "finalize_with_options(&self) cannot mutate: Rust's type system (no interior mutability in the "
            "generator struct); additionally checked by reading the state back after finalize (stream `state`)",
            "Clone is the derived field-wise copy",
        ],
    },
    "C11": {
        "model_mm_filter": "result-kinds",   # hash / distance VALUES are C01's / C02's business (DESIGN §14)
        # a hard error after > MAX bytes is C12's clause; `state` lines are here for panics / overflow checks only
        # (values and option semantics are C01's / C10's business)
        "spec_mm_filter_ops": {"hstreamerr": "never", "state": "never"},
        "model_mm_ops": ["core", "hstream"],
        "modules": [T + "C11", T + "TablesLimits"],
        "theorems": [(T + "C11.processed_len_spec", T + "C11"),
                     (T + "C11.counters_bounded", T + "C11"),
                     (T + "C11.update_len_no_overflow", T + "C11"),
                     (T + "C11.too_large_iff", T + "C11"),
                     (T + "Tables.limits", T + "TablesLimits"),
                     ("TlshVerif.Model.updateZeros_eq", "TlshVerif.Lemmas.HugePiece")],
        "modules_extra": ["TlshVerif.Lemmas.HugePiece"],
        "extract_keys": ["length MAX", "TOP_VALUE", "length thresholds", "WINDOW_SIZE"],
        "spec_is_property": True,
        "streams": {
            "quick": [("default", "hugestream", 0), ("default", "core", 6000), ("embedded", "core", 2000), ("default-dev", "core", 3000),
                      # bucket counters at and past 2^32 - 1 with overflow checks on: update must wrap them, not panic
                      ("default-dev", "state", 400), ("default", "state", 400),
                      ("default", "hugepiece", 0), ("default-dev", "hugepiece", 0)],
            "thorough": [("default", "core", 60000), ("embedded", "core", 30000), ("naive", "core", 30000),
                         ("unsafe", "core", 30000), ("default-dev", "core", 30000), ("unsafe-dev", "core", 30000),
                         ("default", "state", 20000), ("default", "hugepiece", 0), ("unsafe-dev", "hugepiece", 0),
                         ("default", "huge", 0)],
        },
        "assumptions": [
            "counters are modelled in unbounded Nat with the Rust clamps written out; `default-dev` runs the "
            "same stream with overflow checks and debug assertions enabled, so a wrapped counter panics",
            "states with len near MAX / 2^32 are injected through the hook rather than reached by feeding 4 GiB "
            "(thorough tier adds real streams)",
        ],
    },
    "C01": {
        "extract_keys": ["FuzzyHashBucketMapper", "b_mapping", "SUBST_TABLE", "INITIAL_STATE", "WINDOW_SIZE", "bucket pairings",
                         "checksum update", "register shift", "option flags", "qratio", "select_nth", "ENCODED_VALUE_SIZE",
                         "TOP_VALUE", "length MAX", "length thresholds", "checksum sizes", "variants", "kernel"],
        "modules": [T + "C01"],
        "theorems": [(T + "C01.tables", T + "C01"),
                     (T + "C01.params_eq", T + "C01"),
                     (T + "C01.pairings_order_irrelevant", T + "C01"),
                     (T + "C01.generate_eq_spec", T + "C01"),
                     (T + "C01.generate_chunked_eq_spec", T + "C01"),
                     (T + "C01.kat_lovak", T + "C01"),
                     ("TlshVerif.Ref.pearson_surjective", T + "C01"),
                     ("TlshVerif.Ref.pearson_length", T + "C01"),
                     ("TlshVerif.Ref.topval_increasing", T + "C01"),
                     ("TlshVerif.Ref.topval_growth_15", T + "C01"),
                     ("TlshVerif.Ref.topval_growth_13", T + "C01"),
                     ("TlshVerif.Ref.topval_growth_11", T + "C01"),
                     ("TlshVerif.Ref.topval_bit_lengths", T + "C01")],
        "spec_is_property": True,
        "streams": {
            "quick": [("default", "kat", 0), ("default", "hugepiece", 0), ("default", "gen", 2500), ("default", "state", 2500),
                      ("embedded", "gen", 1200), ("embedded", "state", 1200), ("naive", "gen", 1200),
                      ("default", "gen-large", 3)],
            "thorough": [("default", "kat", 0), ("default", "gen", 40000), ("default", "state", 40000),
                         ("embedded", "gen", 20000), ("embedded", "state", 20000), ("naive", "gen", 20000),
                         ("naive", "state", 20000), ("optdef", "gen", 10000), ("unsafe", "gen", 10000),
                         ("unsafe", "state", 10000), ("static-sse2", "state", 10000),
                         ("static-sse41", "state", 10000), ("static-avx2", "state", 10000),
                         ("default-dev", "gen", 10000), ("default", "gen-large", 40)],
        },
        "assumptions": [
            "f32 arithmetic is modelled by exact integer arithmetic (TlshVerif/F32.lean); validated against the "
            "hardware by the `state` stream (injected bucket arrays incl. counts ≥ 2^24, 2^31, wrapped)",
            "select_nth_unstable modelled by its contract (sort-based instance)",
            "no official TLSH implementation is available offline; reference tables justified by Ref/Justify.lean "
            "and by reproducing the official digests in corpus/kat.txt",
        ],
    },
    "C10": {
        # the gate structure (which option settings give Ok, which error otherwise) is what C10's theorems need
        # from the correspondence; the hash *values* are C01's business and monotonicity of the value is
        # judged on the real code by the probe's direct oracle
        "model_mm_filter": "result-kinds",
        "modules": [T + "C10"],
        "theorems": [(T + "C10.length_error_iff", T + "C10"),
                     (T + "C10.finalize_mono", T + "C10"),
                     (T + "C10.quarter_implies_half", T + "C10"),
                     ],
        "extract_keys": ["length thresholds", "length MAX", "option flags", "FuzzyHashBucketMapper"],
        "spec_is_property": False,
        "ignore_spec_mm": True,   # the absolute values of the limits are C09 / C11's business
        "streams": {
            "quick": [("default", "state", 3000), ("default", "limits", 300), ("embedded", "state", 1000),
                      ("default", "gen", 1500)],
            "thorough": [("default", "state", 40000), ("default", "limits", 5000), ("embedded", "state", 20000),
                         ("naive", "state", 20000), ("unsafe", "state", 10000), ("default", "gen", 20000),
                         ("default-dev", "state", 10000)],
        },
        "assumptions": [
            "the option gates are modelled by Model.lengthGate / distributionGate (hand transcription of "
            "finalize_with_options); tie: every injected state is finalized under all 32 option settings and "
            "compared with the model; the probe also checks monotonicity directly on those 32 results",
        ],
    },
    "C09": {
        "modules": [T + "C09", T + "TablesLength", "TlshVerif.Ref.Justify"],
        "theorems": [(T + "C09.encode_eq_least", T + "C09"),
                     (T + "C09.encode_defined", T + "C09"),
                     (T + "C09.encode_some_iff", T + "C09"),
                     (T + "C09.lengthCode_mono", T + "C09"),
                     (T + "C09.encode_mono", T + "C09"),
                     (T + "C09.range_spec", T + "C09"),
                     (T + "C09.ranges_tile", T + "C09"),
                     (T + "C09.range_none_iff", T + "C09"),
                     (T + "C09.range_nonempty", T + "C09"),
                     (T + "C09.lengthCode_lt_170", T + "C09"),
                     (T + "Tables.length", T + "TablesLength"),
                     ("TlshVerif.Ref.topval_increasing", "TlshVerif.Ref.Justify")],
        "extract_keys": ["TOP_VALUE", "ENCODED_VALUE_SIZE", "length MAX"],
        "spec_is_property": True,
        "streams": {
            "quick": [("default", "hugepiece", 0), ("default", "len", 4000), ("default", "len-sweep", 0), ("naive", "len", 2000),
                      ("unsafe", "len", 2000), ("unsafe", "len-sweep", 0)],
            "thorough": [("default", "len", 100000), ("default", "len-sweep", 0), ("naive", "len", 50000),
                         ("naive", "len-sweep", 0), ("unsafe", "len", 50000), ("unsafe", "len-sweep", 0),
                         ("default-dev", "len", 50000), ("unsafe-dev", "len", 20000)],
        },
        "rule": "len-sweep evaluates FuzzyHashLengthEncoding::new on ALL 2^32 lengths in the probe (16 threads) and "
                "emits the break points, which are compared with the reference table; other ops are single "
                "lengths / all 256 codes",
        "assumptions": [
            "slice::binary_search is modelled by its contract on a strictly increasing slice (first index with "
            "element >= key); Ref.topval strictly increasing is proved",
            "`a generated hash carries the code of the number of bytes fed` is part of C01 (lvalue of Spec.tlsh) "
            "and is exercised by the gen/state streams of C01",
        ],
    },
    "C04": {
        "modules": [T + "C04"],
        "theorems": [(T + "C04.tables", T + "C04"),
                     (T + "C04.encode_eq_spec", T + "C04"),
                     (T + "C04.toText_eq_spec", T + "C04"),
                     (T + "C04.format_length", T + "C04"),
                     (T + "C04.format_charset", T + "C04"),
                     (T + "C04.parse_format", T + "C04"),
                     (T + "C04.format_parse", T + "C04"),
                     (T + "C04.parse_wf", T + "C04"),
                     (T + "C04.parse_injective_up_to_case_and_prefix", T + "C04")],
        "extract_keys": ["HEX_", "decode_digit", "hash prefix", "LEN_IN_STR"],
        "spec_is_property": True,
        # C04 is about round trips and canonical text: WHICH error a rejected string gets is C05's business
        "spec_mm_filter": "acceptance",
        "streams": {
            "quick": [("default", "parse-sweep", 24), ("optdef", "parse-sweep", 24), ("embedded", "parse-sweep", 24)] + [(c, "fmt", 400) for c in ['default', 'optdef', 'embedded', 'quarter', 'mintab', 'hexsimd-only']] + [(c, "parse", 1500) for c in ['default', 'optdef', 'embedded', 'quarter', 'mintab', 'hexsimd-only']],
            "thorough": [(c, "fmt", 10000) for c in ['default', 'optdef', 'embedded', 'quarter', 'mintab', 'hexsimd-only']] + [(c, "parse", 30000) for c in ['default', 'optdef', 'embedded', 'quarter', 'mintab', 'hexsimd-only']]
                        + [("unsafe", "fmt", 5000), ("naive", "fmt", 5000), ("default-dev", "fmt", 3000)],
        },
        "assumptions": ["hex_simd::encode/decode are modelled by their contract (third-party crate); exercised in "
                        "configurations default and hexsimd-only",
                        "Display/to_string/FromStr/from_str_with are thin wrappers around store_into_str_bytes / "
                        "from_str_bytes; their agreement is checked by direct oracles in the probe"],
    },
    "C05": {
        "modules": [T + "C05", T + "C04"],
        "theorems": [(T + "C05.parse_total", T + "C05"),
                     (T + "C05.parse_ok_iff", T + "C05"),
                     (T + "C05.parse_value", T + "C05"),
                     (T + "C05.parse_err_length", T + "C05"),
                     (T + "C05.parse_err_applicable", T + "C05"),
                     (T + "C04.tables", T + "C04")],
        "extract_keys": ["HEX_", "decode_digit", "hash prefix", "LEN_IN_STR"],
        "spec_is_property": True,
        "streams": {
            "quick": [(c, "parse", 3000) for c in ['default', 'optdef', 'embedded', 'quarter', 'mintab', 'hexsimd-only']] + [(c, "parse-sweep", 24) for c in ['default', 'optdef', 'embedded', 'quarter', 'mintab', 'hexsimd-only']]
                     # overflow checks on: arithmetic on a digit / prefix byte must not panic (round 8)
                     + [("default-dev", "parse-sweep", 24), ("default-dev", "parse", 1500)],
            "thorough": [(c, "parse", 60000) for c in ['default', 'optdef', 'embedded', 'quarter', 'mintab', 'hexsimd-only']] + [(c, "parse-sweep", 1) for c in ['default', 'optdef', 'embedded', 'quarter', 'mintab', 'hexsimd-only']]
                        + [("unsafe", "parse", 20000), ("naive", "parse", 20000), ("default-dev", "parse-sweep", 4)],
        },
        "rule": "parse-sweep: one valid text per variant and prefix mode, every `step`-th position set to each of "
                "the 256 byte values (thorough: every position)",
        "assumptions": ["hex_simd::decode by contract"],
    },
    "C06": {
        "extract_keys": ['size formulas', 'checksum sizes', 'quartile accessor', 'variants', 'hash prefix', 'HEX_', 'LEN_IN_STR'],
        # `store` lines: only a successful store with a wrong size / content concerns C06 (short buffers are C14's);
        # lines of the strict build: only a strictly valid hash that fails to round-trip (what else the strict
        # parser rejects or accepts is C15's business)
        "spec_mm_filter_ops": {"store": "both-ok"},
        "spec_mm_filter_cfg": {"strict": "expected-ok"},
        "modules": [T + "C06", T + "C04"],
        "theorems": [(T + "C06.tryFrom_bytes", T + "C06"),
                     (T + "C06.tryFrom_store", T + "C06"),
                     (T + "C06.store_tryFrom", T + "C06"),
                     (T + "C06.tryFrom_slice_len", T + "C06"),
                     (T + "C06.tryFrom_total", T + "C06"),
                     (T + "C06.quartile_spec", T + "C06"),
                     (T + "C06.hex_eq_swapped_header", T + "C06"),
                     (T + "C06.clear_checksum_spec", T + "C06"),
                     (T + "C04.encode_eq_spec", T + "C04")],
        "spec_is_property": True,
        "streams": {
            "quick": [("default", "frombin", 1500), ("default", "acc", 1200), ("embedded", "frombin", 600),
                      ("embedded", "acc", 600), ("default", "fmt", 300), ("default", "store", 2),
                      ("strict", "frombin", 600), ("strict", "acc", 200), ("default", "limits", 5),
                      # accessors with overflow checks on (index arithmetic in a narrow integer type)
                      ("default-dev", "acc", 300), ("default-dev", "frombin", 200)],
            "thorough": [("default", "frombin", 30000), ("default", "acc", 30000), ("embedded", "frombin", 10000),
                         ("embedded", "acc", 10000), ("naive", "acc", 10000), ("unsafe", "frombin", 10000),
                         ("unsafe", "acc", 10000), ("default-dev", "acc", 5000), ("default", "fmt", 10000),
                         ("default", "store", 40), ("embedded", "store", 20)],
        },
        "assumptions": ["bitfield-struct accessors (q1ratio/q2ratio) are third-party generated code; swept over all "
                        "256 Q-ratio bytes by the acc stream"],
    },
    "C14": {
        "extract_keys": ['HEX_UPPER', 'size formulas', 'LEN_IN_STR', 'hash prefix', 'checksum sizes', 'variants'],
        "modules": [T + "C14", T + "C04"],
        "theorems": [(T + "C14.store_into_bytes_spec", T + "C14"),
                     (T + "C14.store_into_str_bytes_spec", T + "C14"),
                     (T + "C04.encode_eq_spec", T + "C04"), (T + "C04.tables", T + "C04")],
        "spec_is_property": True,
        "streams": {
            "quick": [(c, "store", 6) for c in ["default", "optdef", "embedded", "quarter", "hexsimd-only"]] + [("default", "limits", 5)]
                     # the scalar encoders with debug assertions on (an `invariant!` about the output slice is a
                     # debug_assert there)
                     + [("optdef-dev", "store", 2), ("default-dev", "store", 2)],
            "thorough": [(c, "store", 200) for c in ["default", "optdef", "embedded", "quarter", "hexsimd-only",
                                                      "naive", "unsafe", "default-dev"]],
        },
        "rule": "store: for every variant and form (binary, hex, hex+prefix) every buffer length 0..N+64 with a "
                "sentinel pattern, then boundary lengths for further random hashes",
        "assumptions": ["hex_simd::encode writes only the 2*len bytes of its output (contract); checked by the "
                        "sentinel pattern in configurations default and hexsimd-only"],
    },
    "C02": {
        "modules": [T + "C02"],
        "theorems": [(T + "C02.tables", T + "C02"),
                     (T + "C02.body_backends_agree", T + "C02"),
                     (T + "C02.body_distance_eq_spec", T + "C02"),
                     (T + "C02.word_kernel_eq_spec", T + "C02"),
                     (T + "C02.pseudo32_distance_eq_spec", T + "C02"),
                     (T + "C02.ring_spec", T + "C02"),
                     (T + "C02.length_distance_eq_spec", T + "C02"),
                     (T + "C02.qratio_distance_eq_spec", T + "C02"),
                     (T + "C02.checksum_distance_eq_spec", T + "C02"),
                     (T + "C02.compare_eq_spec", T + "C02"),
                     (T + "C02.compare_eq_spec_gen", T + "C02"),
                     (T + "C02.max_distance_eq_spec", T + "C02"),
                     (T + "C02.max_distance_eq_spec_gen", T + "C02")],
        "bv_decide_theorems": {'TlshVerif.Theorems.C02.body_backends_agree', 'TlshVerif.Theorems.C02.pseudo32_distance_eq_spec', 'TlshVerif.Theorems.C02.compare_eq_spec_gen', 'TlshVerif.Theorems.C02.word_kernel_eq_spec', 'TlshVerif.Theorems.C02.compare_eq_spec', 'TlshVerif.Theorems.C02.body_distance_eq_spec'},
        "extract_keys": ["kernel pseudo", "kernel sse", "kernel avx2Packed", "kernel avx2Distance", "dist_", "ring moduli", "distance scaling"],
        "spec_is_property": True,
        "streams": {
            "quick": [("default", "cmp", 3000), ("default", "hdr", 0), ("default", "body", 3000),
                      ("default", "bodyrows", 40), ("optdef", "cmp", 1500), ("embedded", "hdr", 0),
                      ("embedded", "cmp", 1500), ("naive", "hdr", 0), ("static-sse2", "cmp", 1000),
                      ("static-sse41", "cmp", 1000), ("static-avx2", "cmp", 1000)],
            "thorough": [("default", "cmp", 100000), ("default", "hdr", 0), ("default", "body", 100000),
                         ("default", "bodyrows", 1), ("optdef", "cmp", 30000), ("embedded", "hdr", 0),
                         ("embedded", "cmp", 30000), ("naive", "hdr", 0), ("naive", "cmp", 30000),
                         ("static-sse2", "cmp", 30000), ("static-sse41", "cmp", 30000),
                         ("static-avx2", "cmp", 30000), ("unsafe", "cmp", 30000), ("default-dev", "cmp", 20000),
                         ("default-dev", "body", 20000)],
            "search": [("default", "bodyrows", 4), ("default", "cmp", 30000), ("default", "hdr", 0)],
        },
        "rule": "hdr: length / Q-ratio / ring / checksum distances for ALL 256x256 byte pairs through the compiled "
                "code; bodyrows: for every `step`-th body position all 256x256 byte pairs against random backgrounds "
                "through EVERY compiled back end (pseudo32, pseudo64, SSE2, SSE4.1, AVX2, dispatch) via the hooks",
        "trusted_extra": ["bv_decide (LRAT-checked SAT, native evaluation of the checker): only in the word-level "
                          "kernel lemmas of Lemmas/DistKernels.lean; theorems inheriting them are listed in "
                          "tools/props.py bv_decide_theorems",
                          "Model/Intrinsics.lean: hand-written lane semantics of the x86 intrinsics (validated "
                          "against the CPU through the per-back-end hooks)"],
        "assumptions": ["from_ne_bytes modelled little-endian (x86_64)",
                        "pointer loads in the x86 back ends are modelled as list reads at the same offsets"],
    },
    "C08": {
        "extract_keys": ['kernel pseudo', 'kernel sse', 'kernel avx2Packed', 'kernel avx2Distance', 'dist_', 'ring moduli', 'distance scaling', 'compare_with_config'],
        "modules": [T + "C08", T + "C02"],
        "theorems": [(T + "C08.dist_self", T + "C08"),
                     (T + "C08.dist_comm", T + "C08"),
                     (T + "C08.dist_eq_zero", T + "C08"),
                     (T + "C08.dist_le_max", T + "C08"),
                     (T + "C08.max_attained", T + "C08"),
                     (T + "C08.default_eq_nolength_add_length", T + "C08"),
                     (T + "C08.clear_checksum_law", T + "C08"),
                     (T + "C08.dist_self_model", T + "C08"),
                     (T + "C08.dist_comm_model", T + "C08"),
                     (T + "C08.dist_eq_zero_model", T + "C08"),
                     (T + "C08.dist_le_max_model", T + "C08"),
                     (T + "C08.max_attained_model", T + "C08"),
                     (T + "C08.default_eq_nolength_add_length_model", T + "C08"),
                     (T + "C08.clear_checksum_law_model", T + "C08"),
                     (T + "C02.tables", T + "C02")],
        "bv_decide_theorems": {'TlshVerif.Theorems.C08.clear_checksum_law_model', 'TlshVerif.Theorems.C08.max_attained_model', 'TlshVerif.Theorems.C08.dist_eq_zero_model', 'TlshVerif.Theorems.C08.dist_le_max_model', 'TlshVerif.Theorems.C08.default_eq_nolength_add_length_model', 'TlshVerif.Theorems.C08.dist_self_model', 'TlshVerif.Theorems.C08.dist_comm_model'},
        "spec_is_property": False,
        "ignore_spec_mm": True,
        "streams": {
            "quick": [("default", "cmp", 4000), ("optdef", "cmp", 1500), ("embedded", "cmp", 1500),
                      ("static-sse2", "cmp", 1000), ("static-sse41", "cmp", 1000)],
            "thorough": [("default", "cmp", 150000), ("optdef", "cmp", 50000), ("embedded", "cmp", 50000),
                         ("naive", "cmp", 50000), ("static-sse2", "cmp", 30000), ("unsafe", "cmp", 30000)],
        },
        "trusted_extra": ["bv_decide axioms inherited by the *_model corollaries through C02.compare_eq_spec"],
        "assumptions": ["the laws are proved for Spec.distance and transferred to the model by C02; the probe also "
                        "evaluates every law directly on the compiled code for each generated pair (ORACLE lines)"],
    },
    "C13": {
        "extract_keys": ['HEX_', 'decode_digit', 'hash prefix', 'LEN_IN_STR'],
        "model_mm_filter": "ignore",   # relative property: judged by the direct oracles / relation on the real code   # hash / distance VALUES are C01's / C02's business (DESIGN §14)
        "modules": [T + "C13"],
        "theorems": [(T + "C13.compare_with_match", T + "C13"),
                     (T + "C13.compare_with_spec", T + "C13"),
                     (T + "C13.compare_case_prefix_insensitive", T + "C13"),
                     (T + "C13.compare_formatted", T + "C13"),
                     (T + "C13.compare_formatted_symm", T + "C13")],
        "bv_decide_theorems": {'TlshVerif.Theorems.C13.compare_with_spec', 'TlshVerif.Theorems.C13.compare_formatted',
                               'TlshVerif.Theorems.C13.compare_formatted_symm'},
        # C13 is relative to parse-then-compare of this build: the probe's direct oracle states exactly that;
        # a value that differs from the reference is another property's business
        "spec_is_property": False,
        "ignore_spec_mm": True,
        "streams": {
            "quick": [("default", "cmpstr", 4000), ("embedded", "cmpstr", 1500), ("strict", "cmpstr", 1500)]
                     # every hex-table / SIMD-parse configuration: the helpers sit on top of the parser
                     + [(c, "cmpstr", 1000) for c in ["optdef", "mintab", "hexsimd-only"]],
            "thorough": [("default", "cmpstr", 100000), ("embedded", "cmpstr", 30000), ("strict", "cmpstr", 30000),
                         ("quarter", "cmpstr", 30000), ("mintab", "cmpstr", 30000), ("unsafe", "cmpstr", 30000),
                         ("default-dev", "cmpstr", 20000)],
        },
        "assumptions": ["str::parse / FromStr are thin wrappers around from_str_bytes(.., None)",
                        "&str arguments: only valid UTF-8 strings are generated"],
    },
    "C12": {
        "model_mm_filter": "ignore",   # relative property: judged by the direct oracles / relation on the real code   # hash / distance VALUES are C01's / C02's business (DESIGN §14)
        "modules": [T + "C12"],
        "theorems": [(T + "C12.stream_eq_spec", T + "C12"),
                     (T + "C12.hard_error_wins", T + "C12"),
                     (T + "C12.stream_eq_spec_partial", T + "C12"),
                     (T + "C12.interrupted_counterexample", T + "C12"),
                     (T + "C12.source_retries_interrupted", T + "C12"),
                     ],
        "extract_keys": ["BUFFER_SIZE", "hash_stream_common"],
        # C12 is relative to hash_buf of the delivered bytes: the probe's direct oracle states exactly that;
        # a value that differs from the reference is another property's business
        "spec_is_property": False,
        "ignore_spec_mm": True,
        "streams": {
            "quick": [("default", "hugestream", 0), ("default", "stream", 1500), ("default", "file", 0), ("embedded", "stream", 600),
                      ("optdef", "stream", 600), ("embedded", "file", 0), ("unsafe", "file", 0)],
            "thorough": [("default", "hugestream", 0), ("default", "stream", 30000), ("default", "file", 0), ("embedded", "stream", 10000),
                         ("optdef", "stream", 10000), ("unsafe", "stream", 10000), ("unsafe", "file", 0),
                         ("default-dev", "stream", 10000), ("strict", "stream", 5000)],
        },
        "assumptions": [
            "a reader is modelled as a script of Read::read results; File::open/read are the OS (hash_file is "
            "exercised on real files of 0, <1 MiB, =1 MiB, >1 MiB and a missing path)",
            "the model of the read loop takes from the translator whether the source retries "
            "ErrorKind::Interrupted (Gen.retryInterrupted) and whether the len<=buffer invariant is present",
        ],
    },
    "C15": {
        "model_mm_filter": "ignore",   # relative property: judged by the direct oracles / relation on the real code   # hash / distance VALUES are C01's / C02's business (DESIGN §14)
        "modules": [T + "C15"],
        "theorems": [(T + "C15.strict_eq_lenient_then_checks_text", T + "C15"),
                     (T + "C15.strict_eq_lenient_then_checks_bytes", T + "C15"),
                     (T + "C15.generated_strict_valid", T + "C15"),
                     (T + "C15.strict_roundtrip_generated", T + "C15"),
                     (T + "Tables.strict", T + "TablesStrict"), (T + "C04.tables", T + "C04")],
        "modules_extra": [T + "TablesStrict", T + "C04"],
        "extract_keys": ["short checksum validity", "ENCODED_VALUE_SIZE", "SUBST_TABLE_48"],
        # C15 relates the strict parser to the lenient parser OF THE SAME TREE: the same operations run in the
        # lenient (`default`) and in the strict build and are compared by `strict_relation` (check); generated
        # hashes are judged by the probe's validity / round-trip oracle
        "spec_is_property": False,
        "ignore_spec_mm": True,
        "relations": [("default", "strict", "strict_relation", ["parse", "parse-sweep", "frombin"])],
        "streams": {
            "quick": [("strict", "parse", 4000), ("strict", "parse-sweep", 32), ("strict", "frombin", 1500),
                      ("default", "parse", 4000), ("default", "parse-sweep", 32), ("default", "frombin", 1500),
                      ("strict", "gen", 2500), ("strict", "hist", 800), ("default", "gen", 800),
                      # builds that compute the 48-bucket checksum step without the double table
                      ("naive", "gen", 1500), ("embedded", "gen", 800)],
            "thorough": [("strict", "parse", 80000), ("strict", "parse-sweep", 2), ("strict", "frombin", 40000),
                         ("default", "parse", 80000), ("default", "parse-sweep", 2), ("default", "frombin", 40000),
                         ("strict", "gen", 40000), ("strict", "hist", 20000), ("unsafe-strict", "parse", 30000),
                         ("unsafe-strict", "frombin", 20000), ("unsafe-strict", "gen", 10000),
                         ("default", "gen", 20000), ("embedded", "gen", 10000), ("naive", "gen", 10000)],
        },
        "rule": "frombin sweeps the checksum byte and the length code over all 256 values in the strict build; "
                "every hash produced by the gen/state streams is checked for strict validity and strict round trip "
                "by a direct oracle in the probe",
        "assumptions": ["strict-parser changes only the parser; the strict probe configuration is default + "
                        "strict-parser (+ serde)"],
    },
    "C16": {
        "model_mm_filter": "ignore",   # relative property: judged by the direct oracles / relation on the real code   # hash / distance VALUES are C01's / C02's business (DESIGN §14)
        "modules": [T + "C16"],
        "theorems": [(T + "C16.ser_spec", T + "C16"),
                     (T + "C16.de_ser", T + "C16"),
                     (T + "C16.de_ok_iff_parser_ok", T + "C16"),
                     (T + "C16.de_total", T + "C16"),
                     (T + "C16.de_total_partial", T + "C16"),
                     (T + "C16.unwrap_counterexample", T + "C16"),
                     (T + "C16.source_does_not_unwrap", T + "C16"),
                     ],
        
        "extract_keys": ["serde visitors"],
        # C16 is relative to this build's parsers and formatters: the probe's direct oracles state exactly that;
        # a value that differs from the reference is another property's business
        "spec_is_property": False,
        "ignore_spec_mm": True,
        "streams": {
            "quick": [("serde", "serde", 300), ("strict", "serde", 300), ("serde-buf", "serde", 300),
                      ("serde-buf-strict", "serde", 300)],
            "thorough": [("serde", "serde", 6000), ("strict", "serde", 6000), ("serde-buf", "serde", 6000),
                         ("unsafe-strict", "serde", 3000), ("serde-buf-strict", "serde", 6000)],
        },
        "rule": "per case: serialize through a recording serializer (human-readable and not) and through "
                "serde_json / ciborium / postcard with round trip; one Visitor event of each kind through a "
                "scripted Deserializer x human_readable flag; every tenth case a batch of malformed JSON / CBOR / "
                "postcard documents",
        "assumptions": ["serde's default Visitor methods by contract (borrowed/owned variants forward; others are "
                        "invalid_type errors); the format crates are exercised, not modelled"],
    },
    "C17": {
        "extra_cmds_thorough": [
            ("Miri: `mini` stream, default features + `unsafe` (run-time dispatch falls back to the pseudo-SIMD kernels)",
             "python3 tools/miri_run.py unsafe 'easy fast-tlsh/default fast-tlsh/unsafe'", VERIF_DIR),
            ("Miri: `mini` stream, static AVX2/SSE4.1/SSSE3 kernels + `unsafe`",
             "python3 tools/miri_run.py avx2 'easy fast-tlsh/default fast-tlsh/unsafe' '-C target-feature=+avx2,+sse4.1,+ssse3'", VERIF_DIR),
            ("Miri: `mini` stream, static SSE2 kernels, no tables-free paths (`opt-default,simd`) + `unsafe`",
             "python3 tools/miri_run.py sse2 'easy fast-tlsh/opt-default fast-tlsh/simd fast-tlsh/unsafe'", VERIF_DIR),
            ("Miri: `mini` stream, no optional features + `unsafe` (table-free code paths)",
             "python3 tools/miri_run.py bare 'easy fast-tlsh/unsafe'", VERIF_DIR),
        ],
        "build_failure_is_obligation": True,
        "modules": [T + "C17"],
        "theorems": [(T + "C17.invariant_sites", T + "C17"),
                     (T + "C17.invariant_tail_size", T + "C17"),
                     (T + "C17.invariant_length", T + "C17"),
                     (T + "C17.invariant_try_from", T + "C17"),
                     (T + "C17.stream_has_no_len_invariant", T + "C17"),
                     (T + "C17.misreporting_reader_panics", T + "C17"),
                     (T + "C17.misreporting_reader_ub_counterexample", T + "C17"),
                     (T + "C17.unchecked_calls", T + "C17"),
                     (T + "C17.unsafe_census", T + "C17"), (T + "C17.macros_reviewed", T + "C17"),
                     (T + "C17.utf8_ok", T + "C17"),
                     (T + "C17.loads_in_bounds", T + "C17"),
                     (T + "C17.aggregation_chunks", T + "C17"),
                     (T + "C17.generate_total", T + "C17"),
                     (T + "C17.quartile_panics_iff", T + "C17"),
                     (T + "C17.api_total", T + "C17"),
                     (T + "C17.unsafe_same_result", T + "C17")],
        "bv_decide_theorems": {'TlshVerif.Theorems.C17.api_total'},
        "extract_keys": ["invariant sites", "load sites", "aggregation chunk", "hash_stream_common", "kernel"],
        # C17 is about defined behaviour, documented panics only, and `unsafe` changing no result: concrete
        # witnesses are undocumented panics / crashes and lines on which the build with `unsafe` differs from
        # the same build without it; a value that differs from the reference is another property's business
        "spec_is_property": False,
        "ignore_spec_mm": True,
        "model_mm_filter": "outcome-class",
        "cross_config_pairs": [("default", "unsafe"), ("default-dev", "unsafe-dev"), ("strict", "unsafe-strict")],
        "cross_config_streams": ["gen", "state", "hist", "parse", "fmt", "frombin", "store", "acc", "cmp", "body",
                                 "len", "stream", "cmpstr", "serde"],
        "panic_concrete": True,
        "streams": {
            "quick": [('embedded', 'gen', 200), ('embedded', 'state', 200), ('embedded', 'hist', 100), ('optdef-dev', 'store', 1), ('optdef-dev', 'parse', 300), ('optdef-dev', 'fmt', 40), ('optdef-dev', 'gen', 100), ('unsafe', 'gen', 600), ('unsafe', 'state', 600), ('unsafe', 'hist', 300), ('unsafe', 'parse', 1500), ('unsafe', 'fmt', 150), ('unsafe', 'frombin', 300), ('unsafe', 'store', 2), ('unsafe', 'acc', 300), ('unsafe', 'cmp', 1000), ('unsafe', 'body', 600), ('unsafe', 'len', 1000), ('unsafe', 'stream', 400), ('unsafe', 'cmpstr', 800), ('default-dev', 'gen', 300), ('default-dev', 'state', 300), ('default-dev', 'hist', 150), ('default-dev', 'parse', 750), ('default-dev', 'fmt', 75), ('default-dev', 'frombin', 150), ('default-dev', 'store', 1), ('default-dev', 'acc', 150), ('default-dev', 'cmp', 500), ('default-dev', 'body', 300), ('default-dev', 'len', 500), ('default-dev', 'stream', 200), ('default-dev', 'cmpstr', 400), ('unsafe-dev', 'gen', 300), ('unsafe-dev', 'state', 300), ('unsafe-dev', 'hist', 150), ('unsafe-dev', 'parse', 750), ('unsafe-dev', 'fmt', 75), ('unsafe-dev', 'frombin', 150), ('unsafe-dev', 'store', 1), ('unsafe-dev', 'acc', 150), ('unsafe-dev', 'cmp', 500), ('unsafe-dev', 'body', 300), ('unsafe-dev', 'len', 500), ('unsafe-dev', 'stream', 200), ('unsafe-dev', 'cmpstr', 400), ('unsafe', 'lie', 0), ('unsafe-dev', 'lie', 0), ('default', 'lie', 0), ('default-dev', 'lie', 0), ('unsafe-strict', 'serde', 150), ('unsafe-strict', 'frombin', 300)],
            "thorough": [('unsafe', 'gen', 12000), ('unsafe', 'state', 12000), ('unsafe', 'hist', 6000), ('unsafe', 'parse', 30000), ('unsafe', 'fmt', 3000), ('unsafe', 'frombin', 6000), ('unsafe', 'store', 40), ('unsafe', 'acc', 6000), ('unsafe', 'cmp', 20000), ('unsafe', 'body', 12000), ('unsafe', 'len', 20000), ('unsafe', 'stream', 8000), ('unsafe', 'cmpstr', 16000), ('default-dev', 'gen', 4800), ('default-dev', 'state', 4800), ('default-dev', 'hist', 2400), ('default-dev', 'parse', 12000), ('default-dev', 'fmt', 1200), ('default-dev', 'frombin', 2400), ('default-dev', 'store', 16), ('default-dev', 'acc', 2400), ('default-dev', 'cmp', 8000), ('default-dev', 'body', 4800), ('default-dev', 'len', 8000), ('default-dev', 'stream', 3200), ('default-dev', 'cmpstr', 6400), ('unsafe-dev', 'gen', 4800), ('unsafe-dev', 'state', 4800), ('unsafe-dev', 'hist', 2400), ('unsafe-dev', 'parse', 12000), ('unsafe-dev', 'fmt', 1200), ('unsafe-dev', 'frombin', 2400), ('unsafe-dev', 'store', 16), ('unsafe-dev', 'acc', 2400), ('unsafe-dev', 'cmp', 8000), ('unsafe-dev', 'body', 4800), ('unsafe-dev', 'len', 8000), ('unsafe-dev', 'stream', 3200), ('unsafe-dev', 'cmpstr', 6400), ('optdef-dev', 'gen', 2400), ('optdef-dev', 'state', 2400), ('optdef-dev', 'hist', 1200), ('optdef-dev', 'parse', 6000), ('optdef-dev', 'fmt', 600), ('optdef-dev', 'frombin', 1200), ('optdef-dev', 'store', 8), ('optdef-dev', 'acc', 1200), ('optdef-dev', 'cmp', 4000), ('optdef-dev', 'body', 2400), ('optdef-dev', 'len', 4000), ('optdef-dev', 'stream', 1600), ('optdef-dev', 'cmpstr', 3200), ('unsafe', 'lie', 0), ('unsafe-dev', 'lie', 0), ('default', 'lie', 0), ('default-dev', 'lie', 0), ('unsafe-strict', 'serde', 3000), ('unsafe-strict', 'frombin', 10000), ('unsafe', 'bodyrows', 8), ('unsafe', 'len-sweep', 0)],
        },
        "rule": "the broad streams of the other properties re-run in the `unsafe` release build and in dev builds "
                "(debug assertions + overflow checks) with and without `unsafe`; every case under catch_unwind; "
                "`lie` = readers returning Ok(n) with n > buffer, each in a child process so aborts and signals are "
                "observed; an observed panic/abort/signal anywhere except the documented cases is a violation",
        "trusted_extra": ["bv_decide axioms inherited by api_total through C13/C02 (distance kernels)"],
        "assumptions": [
            "PARTIAL: absence of undefined behaviour inside compiled `unsafe` blocks (x86 intrinsics, pointer loads), "
            "in LLVM's use of a false unreachable_unchecked, and in third-party unsafe code (hex-simd) cannot be "
            "exhibited by the model; the claim is the listed obligations plus the dev/unsafe-build runs",
            "Miri runs only in the thorough tier and only on the small `mini` stream; AddressSanitizer is not used",
        ],
    },
    "C18": {
        "build_failure_is_obligation": True,
        "modules": [T + "C18"],
        "theorems": [(T + "C18.core_closure_closed", T + "C18"),
                     (T + "C18.core_closure_has_roots", T + "C18"),
                     (T + "C18.core_closure_alloc_free", T + "C18"),
                     (T + "C18.core_ops_alloc_free", T + "C18"),
                     (T + "C18.numeric_view_consistent", T + "C18"),
                     (T + "C18.alloc_sites_exact", T + "C18"),
                     (T + "C18.alloc_gated", T + "C18"),
                     (T + "C18.stream_helpers_allocate", T + "C18")],
        "extract_keys": ["effect graph", "alloc gates", "lib.rs gates"],
        "spec_is_property": True,
        "extra_cmds": [
            ("library builds with neither std nor alloc (cargo build --no-default-features)",
             "cargo build --offline --no-default-features --lib --target-dir /verif/.cache/target/nostd-lib",
             "/repo/fast-tlsh"),
            ("library builds without std in 15 feature combinations that do not require it (easy-functions, alloc, serde, "
             "strict-parser, simd, unsafe, opt-*, …)", "sh tools/nostd_matrix.sh", VERIF_DIR),
        ],
        "streams": {
            "quick": [("default", "alloc", 120), ("optdef", "alloc", 60), ("embedded", "alloc", 60),
                      ("unsafe", "alloc", 60), ("strict", "alloc", 60)],
            "thorough": [("default", "alloc", 3000), ("optdef", "alloc", 1500), ("embedded", "alloc", 1500),
                         ("unsafe", "alloc", 1500), ("strict", "alloc", 1500), ("quarter", "alloc", 800),
                         ("static-sse2", "alloc", 800), ("static-avx2", "alloc", 800), ("hexsimd-only", "alloc", 800),
                         ("default-dev", "alloc", 500)],
        },
        "rule": "alloc: a counting #[global_allocator] in the probe around each core operation group (generator "
                "incl. all 32 finalizations, parsers accepting and rejecting, serializers, comparison, accessors, "
                "hash_buf, compare_with) — count must be 0 — and around to_string / hash_stream — count must be "
                "> 0 (the counter is known to work); the first use per variant includes dispatch initialisation",
        "assumptions": [
            "PARTIAL: the theorem is about a syntactic over-approximation of the crate's own code (call edges by "
            "identifier, allocating constructs from a fixed list); allocations inside core/std/dependencies are "
            "covered only by the run-time counter",
            "the closure sets are translator hints; the kernel checks closedness and root membership",
        ],
    },
    "C07": {
        "crash_concrete": True,   # a configuration whose probe process dies disagrees with the others
        "build_failure_is_obligation": True,
        "model_mm_filter": "ignore",   # relative property: configurations / back ends are compared with each other
        "modules": [T + "C07"],
        "theorems": [(T + "C07.generate_any_cfg_eq_spec", T + "C07"),
                     (T + "C07.generate_cfg_irrelevant", T + "C07"),
                     (T + "C07.aggregation_dispatch_any", T + "C07"),
                     (T + "C07.distance_dispatch_any", T + "C07"),
                     (T + "C07.compare_cfg_irrelevant", T + "C07"),
                     (T + "C07.parse_cfg_irrelevant", T + "C07"),
                     (T + "C07.format_cfg_irrelevant", T + "C07"),
                     (T + "C07.pearson_double", T + "C07"),
                     (T + "C01.tables", T + "C01"), (T + "C02.tables", T + "C02"), (T + "C04.tables", T + "C04")],
        "modules_extra": [T + "C01", T + "C02", T + "C04"],
        "bv_decide_theorems": {'TlshVerif.Theorems.C07.generate_any_cfg_eq_spec', 'TlshVerif.Theorems.C07.compare_cfg_irrelevant', 'TlshVerif.Theorems.C07.aggregation_dispatch_any', 'TlshVerif.Theorems.C07.generate_cfg_irrelevant', 'TlshVerif.Theorems.C07.distance_dispatch_any'},
        "extract_keys": ["kernel", "SUBST_TABLE", "HEX_", "dist_"],
        # C07 is about configurations and back ends agreeing WITH EACH OTHER: a concrete witness is a
        # line on which two configurations differ (transcript diff) or an in-binary back-end oracle;
        # "differs from the reference" alone (MM spec) is another property's business and only breaks the
        # transfer of the cfg-irrelevance theorems (=> search, no-failing-input-found)
        "spec_is_property": False,
        "ignore_spec_mm": True,
        "cross_config_streams": ['gen', 'cmp', 'fmt', 'store', 'frombin', 'len', 'cmpstr', 'stream', 'parse', 'parse-sweep', 'tables'],
        "streams": {
            "quick": [('default', 'cmpstr', 300), ('default', 'stream', 60), ('optdef', 'cmpstr', 300), ('optdef', 'stream', 60), ('embedded', 'cmpstr', 300), ('embedded', 'stream', 60), ('quarter', 'cmpstr', 300), ('quarter', 'stream', 60), ('mintab', 'cmpstr', 300), ('mintab', 'stream', 60), ('hexsimd-only', 'cmpstr', 300), ('hexsimd-only', 'stream', 60), ('static-avx2', 'cmpstr', 300), ('static-avx2', 'stream', 60), ('static-sse2', 'cmpstr', 300), ('static-sse2', 'stream', 60), ('unsafe', 'cmpstr', 300), ('unsafe', 'stream', 60), ('default', 'parse-sweep', 24), ('naive', 'parse-sweep', 24), ('optdef', 'parse-sweep', 24), ('embedded', 'parse-sweep', 24), ('quarter', 'parse-sweep', 24), ('mintab', 'parse-sweep', 24), ('hexsimd-only', 'parse-sweep', 24), ('unsafe', 'parse-sweep', 24), ('default', 'gen', 250), ('default', 'cmp', 400), ('default', 'fmt', 60), ('default', 'store', 1), ('default', 'frombin', 100), ('default', 'len', 300), ('default', 'tables', 300), ('default', 'agg', 200), ('default', 'body', 200), ('default', 'parse', 400), ('naive', 'gen', 250), ('naive', 'cmp', 400), ('naive', 'fmt', 60), ('naive', 'store', 1), ('naive', 'frombin', 100), ('naive', 'len', 300), ('naive', 'tables', 300), ('naive', 'agg', 200), ('naive', 'body', 200), ('optdef', 'gen', 250), ('optdef', 'cmp', 400), ('optdef', 'fmt', 60), ('optdef', 'store', 1), ('optdef', 'frombin', 100), ('optdef', 'len', 300), ('optdef', 'tables', 300), ('optdef', 'agg', 200), ('optdef', 'body', 200), ('optdef', 'parse', 400), ('embedded', 'gen', 250), ('embedded', 'cmp', 400), ('embedded', 'fmt', 60), ('embedded', 'store', 1), ('embedded', 'frombin', 100), ('embedded', 'len', 300), ('embedded', 'tables', 300), ('embedded', 'agg', 200), ('embedded', 'body', 200), ('embedded', 'parse', 400), ('quarter', 'gen', 250), ('quarter', 'cmp', 400), ('quarter', 'fmt', 60), ('quarter', 'store', 1), ('quarter', 'frombin', 100), ('quarter', 'len', 300), ('quarter', 'tables', 300), ('quarter', 'agg', 200), ('quarter', 'body', 200), ('quarter', 'parse', 400), ('mintab', 'gen', 250), ('mintab', 'cmp', 400), ('mintab', 'fmt', 60), ('mintab', 'store', 1), ('mintab', 'frombin', 100), ('mintab', 'len', 300), ('mintab', 'tables', 300), ('mintab', 'agg', 200), ('mintab', 'body', 200), ('mintab', 'parse', 400), ('static-avx2', 'gen', 250), ('static-avx2', 'cmp', 400), ('static-avx2', 'fmt', 60), ('static-avx2', 'store', 1), ('static-avx2', 'frombin', 100), ('static-avx2', 'len', 300), ('static-avx2', 'tables', 300), ('static-avx2', 'agg', 200), ('static-avx2', 'body', 200), ('static-avx2', 'parse', 400), ('static-sse41', 'gen', 250), ('static-sse41', 'cmp', 400), ('static-sse41', 'fmt', 60), ('static-sse41', 'store', 1), ('static-sse41', 'frombin', 100), ('static-sse41', 'len', 300), ('static-sse41', 'tables', 300), ('static-sse41', 'agg', 200), ('static-sse41', 'body', 200), ('static-sse41', 'parse', 400), ('static-sse2', 'gen', 250), ('static-sse2', 'cmp', 400), ('static-sse2', 'fmt', 60), ('static-sse2', 'store', 1), ('static-sse2', 'frombin', 100), ('static-sse2', 'len', 300), ('static-sse2', 'tables', 300), ('static-sse2', 'agg', 200), ('static-sse2', 'body', 200), ('static-sse2', 'parse', 400), ('hexsimd-only', 'gen', 250), ('hexsimd-only', 'cmp', 400), ('hexsimd-only', 'fmt', 60), ('hexsimd-only', 'store', 1), ('hexsimd-only', 'frombin', 100), ('hexsimd-only', 'len', 300), ('hexsimd-only', 'tables', 300), ('hexsimd-only', 'agg', 200), ('hexsimd-only', 'body', 200), ('hexsimd-only', 'parse', 400), ('unsafe', 'gen', 250), ('unsafe', 'cmp', 400), ('unsafe', 'fmt', 60), ('unsafe', 'store', 1), ('unsafe', 'frombin', 100), ('unsafe', 'len', 300), ('unsafe', 'tables', 300), ('unsafe', 'agg', 200), ('unsafe', 'body', 200), ('unsafe', 'parse', 400), ('default', 'race', 8), ('default', 'hist', 200), ('embedded', 'state', 300), ('default', 'state', 300)],
            "thorough": [('default', 'gen', 4000), ('default', 'cmp', 8000), ('default', 'fmt', 1500), ('default', 'store', 20), ('default', 'frombin', 3000), ('default', 'len', 5000), ('default', 'tables', 20000), ('default', 'agg', 8000), ('default', 'body', 8000), ('default', 'parse', 8000), ('default', 'state', 3000), ('naive', 'gen', 4000), ('naive', 'cmp', 8000), ('naive', 'fmt', 1500), ('naive', 'store', 20), ('naive', 'frombin', 3000), ('naive', 'len', 5000), ('naive', 'tables', 20000), ('naive', 'agg', 8000), ('naive', 'body', 8000), ('naive', 'parse', 8000), ('naive', 'state', 3000), ('optdef', 'gen', 4000), ('optdef', 'cmp', 8000), ('optdef', 'fmt', 1500), ('optdef', 'store', 20), ('optdef', 'frombin', 3000), ('optdef', 'len', 5000), ('optdef', 'tables', 20000), ('optdef', 'agg', 8000), ('optdef', 'body', 8000), ('optdef', 'parse', 8000), ('optdef', 'state', 3000), ('embedded', 'gen', 4000), ('embedded', 'cmp', 8000), ('embedded', 'fmt', 1500), ('embedded', 'store', 20), ('embedded', 'frombin', 3000), ('embedded', 'len', 5000), ('embedded', 'tables', 20000), ('embedded', 'agg', 8000), ('embedded', 'body', 8000), ('embedded', 'parse', 8000), ('embedded', 'state', 3000), ('quarter', 'gen', 4000), ('quarter', 'cmp', 8000), ('quarter', 'fmt', 1500), ('quarter', 'store', 20), ('quarter', 'frombin', 3000), ('quarter', 'len', 5000), ('quarter', 'tables', 20000), ('quarter', 'agg', 8000), ('quarter', 'body', 8000), ('quarter', 'parse', 8000), ('quarter', 'state', 3000), ('mintab', 'gen', 4000), ('mintab', 'cmp', 8000), ('mintab', 'fmt', 1500), ('mintab', 'store', 20), ('mintab', 'frombin', 3000), ('mintab', 'len', 5000), ('mintab', 'tables', 20000), ('mintab', 'agg', 8000), ('mintab', 'body', 8000), ('mintab', 'parse', 8000), ('mintab', 'state', 3000), ('static-avx2', 'gen', 4000), ('static-avx2', 'cmp', 8000), ('static-avx2', 'fmt', 1500), ('static-avx2', 'store', 20), ('static-avx2', 'frombin', 3000), ('static-avx2', 'len', 5000), ('static-avx2', 'tables', 20000), ('static-avx2', 'agg', 8000), ('static-avx2', 'body', 8000), ('static-avx2', 'parse', 8000), ('static-avx2', 'state', 3000), ('static-sse41', 'gen', 4000), ('static-sse41', 'cmp', 8000), ('static-sse41', 'fmt', 1500), ('static-sse41', 'store', 20), ('static-sse41', 'frombin', 3000), ('static-sse41', 'len', 5000), ('static-sse41', 'tables', 20000), ('static-sse41', 'agg', 8000), ('static-sse41', 'body', 8000), ('static-sse41', 'parse', 8000), ('static-sse41', 'state', 3000), ('static-sse2', 'gen', 4000), ('static-sse2', 'cmp', 8000), ('static-sse2', 'fmt', 1500), ('static-sse2', 'store', 20), ('static-sse2', 'frombin', 3000), ('static-sse2', 'len', 5000), ('static-sse2', 'tables', 20000), ('static-sse2', 'agg', 8000), ('static-sse2', 'body', 8000), ('static-sse2', 'parse', 8000), ('static-sse2', 'state', 3000), ('hexsimd-only', 'gen', 4000), ('hexsimd-only', 'cmp', 8000), ('hexsimd-only', 'fmt', 1500), ('hexsimd-only', 'store', 20), ('hexsimd-only', 'frombin', 3000), ('hexsimd-only', 'len', 5000), ('hexsimd-only', 'tables', 20000), ('hexsimd-only', 'agg', 8000), ('hexsimd-only', 'body', 8000), ('hexsimd-only', 'parse', 8000), ('hexsimd-only', 'state', 3000), ('unsafe', 'gen', 4000), ('unsafe', 'cmp', 8000), ('unsafe', 'fmt', 1500), ('unsafe', 'store', 20), ('unsafe', 'frombin', 3000), ('unsafe', 'len', 5000), ('unsafe', 'tables', 20000), ('unsafe', 'agg', 8000), ('unsafe', 'body', 8000), ('unsafe', 'parse', 8000), ('unsafe', 'state', 3000), ('default', 'race', 200), ('default', 'bodyrows', 2), ('static-sse2', 'bodyrows', 4), ('static-sse41', 'bodyrows', 4)],
        },
        "rule": "the same seeded corpus (gen, cmp, fmt, store, frombin, len) runs in every buildable configuration "
                "of DESIGN §5.1; each transcript is compared with the model run under the configuration the probe "
                "reports, and the transcripts are diffed against each other; `agg` and `body` call every compiled "
                "back end directly through the hooks; `tables` sweeps the compiled Pearson tables exhaustively; "
                "`race` = fresh processes in which 16 threads make the first dispatched calls simultaneously",
        "trusted_extra": ["bv_decide axioms in the word-level kernel lemmas (Lemmas/DistKernels.lean, "
                          "Lemmas/AggKernels.lean)",
                          "OnceLock::get_or_init and is_x86_feature_detected! by contract; the race stream is "
                          "supporting evidence only"],
        "assumptions": ["`unstable` / `simd-portable` need a nightly toolchain and are outside the stable matrix; "
                        "arm / wasm back ends cannot be built or run here"],
    },
}


# --- widening (DESIGN §14, round 3): every property's own quick tier also runs its core streams, at a
# quarter of the budget, in the configurations that select *different code* for the same operation
# (feature `unsafe`, no optional features at all, non-SIMD tables, strict parser where it applies).
# Round 3 showed that a change confined to one such configuration was otherwise only caught by C07/C17.
_NO_WIDEN = {"len-sweep", "hugepiece", "hugestream", "huge", "kat", "lie", "race", "file", "bodyrows", "gen-large", "alloc",
             "serde", "tables", "agg"}
_WIDEN = {
    "C01": ["unsafe", "optdef"], "C02": ["unsafe"], "C03": ["unsafe", "naive"], "C04": ["unsafe", "naive"],
    "C05": ["unsafe", "naive"], "C06": ["unsafe", "naive", "optdef"], "C08": ["unsafe", "naive"],
    "C10": ["unsafe", "naive"], "C11": ["unsafe", "naive"], "C12": ["unsafe"], "C13": ["unsafe", "quarter"],
    "C14": ["unsafe", "naive"], "C15": ["unsafe-strict"],
}
_EASY_STREAMS = {"stream", "cmpstr", "file", "lie", "race"}      # need the probe's `easy` feature (std)


def _widen():
    for pid, cfgs in _WIDEN.items():
        q = PROPS[pid]["streams"]["quick"]
        base_cfg = "strict" if pid == "C15" else "default"
        have = {(s[0], s[1]) for s in q}
        for cfg in cfgs:
            for s in list(q):
                if s[0] != base_cfg or s[1] in _NO_WIDEN:
                    continue
                if cfg == "naive" and s[1] in _EASY_STREAMS:
                    continue
                if (cfg, s[1]) in have:
                    continue
                q.append((cfg, s[1], max(1, s[2] // 4)) + tuple(s[3:]))
                have.add((cfg, s[1]))


_widen()


# --- C17: "enabling `unsafe` changes no result" is checked as a diff between the build with the feature
# and the same build without it (same streams, seeds and budgets)
def _c17_twins():
    for tier in ("quick", "thorough"):
        lst = PROPS["C17"]["streams"][tier]
        have = {(s[0], s[1], s[2]) for s in lst}
        for s in list(lst):
            twin = {"unsafe": "default", "unsafe-strict": "strict"}.get(s[0])
            if twin and s[1] not in ("lie", "len-sweep", "bodyrows") and (twin, s[1], s[2]) not in have:
                lst.append((twin,) + tuple(s[1:]))
                have.add((twin, s[1], s[2]))


_c17_twins()


# --- the thorough tier explores at least what the quick tier explores: any (configuration, stream) that
# only the quick list names is added to the thorough list (same budget for the fixed-cost streams, four
# times the budget otherwise)
_FIXED_COST = {"hugepiece", "hugestream", "huge", "kat", "lie", "race", "file", "len-sweep", "limits", "tables", "hdr", "mini"}


def _thorough_superset():
    for pid, spec in PROPS.items():
        th = spec["streams"]["thorough"]
        have = {(s[0], s[1]) for s in th}
        for s in spec["streams"]["quick"]:
            if (s[0], s[1]) not in have:
                b = s[2] if s[1] in _FIXED_COST or s[1] == "parse-sweep" else s[2] * 4
                th.append((s[0], s[1], b) + tuple(s[3:]))
                have.add((s[0], s[1]))


_thorough_superset()


# --- code selected by `cfg(target_feature = "avx512vl")` can only be run where the CPU has the feature
def _avx512():
    try:
        flags = open("/proc/cpuinfo").read()
    except OSError:
        return
    if " avx512vl" not in flags:
        return
    for pid, streams in (("C02", [("body", 600), ("cmp", 1000)]), ("C07", [("body", 200), ("cmp", 400), ("gen", 250), ("agg", 200)]),
                         ("C08", [("cmp", 800)])):
        for tier, mul in (("quick", 1), ("thorough", 8)):
            for st, b in streams:
                PROPS[pid]["streams"][tier].append(("static-avx512vl", st, b * mul))


_avx512()
