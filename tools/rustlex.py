"""Minimal Rust lexer + helpers used by the translator (tools/extract.py).

Only what the translator needs: comments and doc comments are dropped, string /
char / byte literals are single tokens, integer literals (all spellings, with
`_` and type suffixes) are decoded, everything else is identifiers and
punctuation.  No macros are expanded: the translator pattern-matches on token
sequences inside the macro bodies where needed.
"""
import re

TOKEN_RE = re.compile(r"""
    (?P<ws>\s+)
  | (?P<lcomment>//[^\n]*)
  | (?P<bcomment>/\*.*?\*/)
  | (?P<bytechar>b'(?:\\.|[^\\'])')
  | (?P<bytestr>b"(?:\\.|[^\\"])*")
  | (?P<str>"(?:\\.|[^\\"])*")
  | (?P<lifetime>'[A-Za-z_][A-Za-z0-9_]*(?!'))
  | (?P<char>'(?:\\.|[^\\'])')
  | (?P<num>0x[0-9a-fA-F_]+(?:[iu](?:8|16|32|64|128|size))?
          |0b[01_]+(?:[iu](?:8|16|32|64|128|size))?
          |0o[0-7_]+(?:[iu](?:8|16|32|64|128|size))?
          |[0-9][0-9_]*(?:[iu](?:8|16|32|64|128|size))?)
  | (?P<ident>[A-Za-z_][A-Za-z0-9_]*(?:!(?!=))?)
  | (?P<punct>::|->|=>|==|!=|<=|>=|&&|\|\||<<=|>>=|<<|>>|\.\.=|\.\.|\+=|-=|\*=|/=|%=|\^=|&=|\|=|[-+*/%^&|!~=<>@.,;:#$?(){}\[\]])
""", re.X | re.S)


class Tok:
    __slots__ = ("kind", "text", "pos")

    def __init__(self, kind, text, pos):
        self.kind, self.text, self.pos = kind, text, pos

    def __repr__(self):
        return f"{self.kind}:{self.text}"


def lex(src):
    out = []
    i = 0
    n = len(src)
    while i < n:
        m = TOKEN_RE.match(src, i)
        if not m:
            raise ValueError(f"cannot lex at {i}: {src[i:i+40]!r}")
        kind = m.lastgroup
        if kind not in ("ws", "lcomment", "bcomment"):
            text = m.group()
            if kind == "ident" and text.endswith("!"):
                # `name!` is a macro call only when directly followed by ( [ {
                # — `x!=y` was already caught by the != punctuation.
                pass
            out.append(Tok(kind, text, i))
        i = m.end()
    return out


def parse_int(text):
    t = text.replace("_", "")
    t = re.sub(r"[iu](8|16|32|64|128|size)$", "", t)
    if t.startswith("0x"):
        return int(t[2:], 16)
    if t.startswith("0b"):
        return int(t[2:], 2)
    if t.startswith("0o"):
        return int(t[2:], 8)
    return int(t)


def parse_bytechar(text):
    body = text[2:-1]
    if body.startswith("\\"):
        esc = {"n": 10, "r": 13, "t": 9, "\\": 92, "'": 39, '"': 34, "0": 0}
        if body[1] == "x":
            return int(body[2:], 16)
        return esc[body[1]]
    return ord(body)


def match_close(toks, i):
    """toks[i] is an opening bracket; return index of the matching close."""
    pairs = {"(": ")", "[": "]", "{": "}"}
    open_ = toks[i].text
    close = pairs[open_]
    depth = 0
    j = i
    while j < len(toks):
        t = toks[j].text
        if t == open_:
            depth += 1
        elif t == close:
            depth -= 1
            if depth == 0:
                return j
        j += 1
    raise ValueError("unbalanced")


def find_seq(toks, texts, start=0):
    """Index of first occurrence of the token-text sequence, or -1."""
    n = len(texts)
    for i in range(start, len(toks) - n + 1):
        if all(toks[i + k].text == texts[k] for k in range(n)):
            return i
    return -1


def find_all_seq(toks, texts):
    res = []
    i = 0
    while True:
        i = find_seq(toks, texts, i)
        if i < 0:
            return res
        res.append(i)
        i += 1


def split_top(toks, sep=","):
    """Split a token list on top-level separators."""
    parts, cur, depth = [], [], 0
    for t in toks:
        if t.text in "([{":
            depth += 1
        elif t.text in ")]}":
            depth -= 1
        if t.text == sep and depth == 0:
            parts.append(cur)
            cur = []
        else:
            cur.append(t)
    if cur:
        parts.append(cur)
    return parts
