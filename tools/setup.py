#!/usr/bin/env python3
import os, sys
sys.path.insert(0, os.path.dirname(os.path.abspath(__file__)))
import vlib
from props import PROPS

info = vlib.extract()
print("extract:", info)
mods = sorted({m for p in PROPS.values() for m in p["modules"] + p.get("modules_extra", [])})
ok, log = vlib.lake_build(["tlsh-model"] + mods)
print("lake build:", "ok" if ok else "FAILED")
if ok:
    vlib.save_good_driver()
if not ok:
    print(log[-4000:])
cfgs = sorted({s[0] for p in PROPS.values() for s in p["streams"]["quick"]})
res = vlib.build_probes(cfgs)
bad = [c for c, (o, _) in res.items() if not o]
print("probe builds:", {c: o for c, (o, _) in res.items()})
for c in bad:
    print(res[c][1][-3000:])
sys.exit(0 if ok and not bad else 1)
