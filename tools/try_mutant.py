#!/usr/bin/env python3
"""Apply a seeded change to /repo, run the given checks, undo it.

  tools/try_mutant.py <patch.diff> <Cxx> [<Cyy> …] [--tier quick|thorough]

Prints one line per check: `<Cxx> exit=<rc> <last line of output>`.  The patch
is always reverted (git checkout -- .) even when a check crashes.
"""
import os
import subprocess
import sys
import time

REPO = "/repo"
VERIF = os.path.dirname(os.path.dirname(os.path.abspath(__file__)))


def sh(cmd, **kw):
    return subprocess.run(cmd, stdout=subprocess.PIPE, stderr=subprocess.STDOUT, text=True, **kw)


def main():
    args = sys.argv[1:]
    tier = "quick"
    if "--tier" in args:
        i = args.index("--tier")
        tier = args[i + 1]
        del args[i:i + 2]
    patch, props = args[0], args[1:]
    st = sh(["git", "-C", REPO, "status", "--porcelain", "--untracked-files=no"]).stdout.strip()
    if st:
        print("refusing: /repo has uncommitted changes:\n" + st)
        return 2
    r = sh(["git", "-C", REPO, "apply", os.path.abspath(patch)])
    if r.returncode != 0:
        print("patch does not apply:\n" + r.stdout)
        return 2
    results = {}
    try:
        for p in props:
            t0 = time.time()
            r = sh([os.path.join(VERIF, "check"), p, "--tier", tier], cwd=VERIF)
            last = [l for l in r.stdout.strip().splitlines() if l.startswith(("OK ", "VIOLATION", "KNOWN"))]
            results[p] = (r.returncode, last[-1] if last else r.stdout.strip()[-300:])
            print(f"{p} exit={r.returncode} {results[p][1]}  [{time.time() - t0:.0f}s]", flush=True)
    finally:
        sh(["git", "-C", REPO, "checkout", "--", "."])
        sh([sys.executable, os.path.join(VERIF, "tools", "extract.py")])   # Gen/ back to the clean tree
        st = sh(["git", "-C", REPO, "status", "--porcelain", "--untracked-files=no"]).stdout.strip()
        if st:
            print("WARNING: /repo not clean after revert:\n" + st)
    return 0


if __name__ == "__main__":
    sys.exit(main())
