"""Shared machinery of ./check: translator, Lean build + axiom audit, probe
builds per configuration, correspondence runs, evidence, verdict (DESIGN §6)."""
import concurrent.futures as cf
import fcntl
import hashlib
import json
import os
import re
import shutil
import subprocess
import sys
import time

VERIF = os.path.dirname(os.path.dirname(os.path.abspath(__file__)))
REPO = os.environ.get("VERIF_REPO", "/repo")
LEAN = os.path.join(VERIF, "lean")
HARNESS = os.path.join(VERIF, "harness")
CACHE = os.path.join(VERIF, ".cache")
OPS = os.path.join(CACHE, "ops")
REPLAYS = os.path.join(VERIF, "replays")
EVIDENCE = os.path.join(VERIF, "evidence")
DRIVER = os.path.join(LEAN, ".lake", "build", "bin", "tlsh-model")
# last driver that built: used for the reference side (Ref/Spec only) when the current tree's
# generated files no longer compile (e.g. a kernel the translator cannot handle)
DRIVER_FALLBACK = os.path.join(CACHE, "driver-good", "tlsh-model")

ALLOWED_AXIOMS = {"propext", "Classical.choice", "Quot.sound"}

ENV = dict(os.environ)
ENV.update({"CARGO_NET_OFFLINE": "true", "GOPROXY": "off", "PIP_NO_INDEX": "1"})

# ---------------------------------------------------------------------------
# probe configurations (DESIGN §5.1)
# ---------------------------------------------------------------------------
BASE = "fast-tlsh/std,fast-tlsh/easy-functions,easy"
CONFIGS = {
    "default": {"features": "fast-tlsh/default,easy", "rustflags": ""},
    "naive": {"features": "", "rustflags": ""},
    "optdef": {"features": BASE + ",fast-tlsh/opt-default", "rustflags": ""},
    "embedded": {"features": BASE + ",fast-tlsh/opt-embedded-default,fast-tlsh/opt-low-memory-buckets,"
                 "fast-tlsh/opt-low-memory-hex-str-decode-half-table", "rustflags": ""},
    "quarter": {"features": BASE + ",fast-tlsh/opt-low-memory-hex-str-decode-quarter-table,"
                "fast-tlsh/opt-low-memory-hex-str-encode-min-table", "rustflags": ""},
    "mintab": {"features": BASE + ",fast-tlsh/opt-low-memory-hex-str-decode-min-table", "rustflags": ""},
    "static-avx2": {"features": BASE + ",fast-tlsh/opt-default,fast-tlsh/simd",
                    "rustflags": "-C target-feature=+avx2"},
    "static-sse41": {"features": BASE + ",fast-tlsh/opt-default,fast-tlsh/simd",
                     "rustflags": "-C target-feature=+sse4.1,+ssse3"},
    "static-sse2": {"features": BASE + ",fast-tlsh/opt-default,fast-tlsh/simd", "rustflags": ""},
    "hexsimd-only": {"features": BASE + ",fast-tlsh/opt-simd-parse-hex,fast-tlsh/opt-simd-convert-hex",
                     "rustflags": ""},
    "unsafe": {"features": "fast-tlsh/default,fast-tlsh/unsafe,easy", "rustflags": ""},
    "strict": {"features": "fast-tlsh/default,fast-tlsh/strict-parser,easy,serde", "rustflags": ""},
    "serde": {"features": "fast-tlsh/default,easy,serde", "rustflags": ""},
    "serde-buf": {"features": "fast-tlsh/default,fast-tlsh/serde-buffered,easy,serde", "rustflags": ""},
    "serde-buf-strict": {"features": "fast-tlsh/default,fast-tlsh/serde-buffered,fast-tlsh/strict-parser,easy,serde",
                         "rustflags": ""},
    # only used when the CPU running the checks has the feature (props.py looks at /proc/cpuinfo)
    "static-avx512vl": {"features": "fast-tlsh/default,easy", "rustflags": "-C target-feature=+avx512vl"},
    "unsafe-strict": {"features": "fast-tlsh/default,fast-tlsh/unsafe,fast-tlsh/strict-parser,easy,serde",
                      "rustflags": ""},
    # dev profile: debug assertions + overflow checks
    "default-dev": {"features": "fast-tlsh/default,easy", "rustflags": "", "profile": "dev"},
    "unsafe-dev": {"features": "fast-tlsh/default,fast-tlsh/unsafe,easy", "rustflags": "", "profile": "dev"},
    "optdef-dev": {"features": BASE + ",fast-tlsh/opt-default", "rustflags": "", "profile": "dev"},
}


class Lock:
    def __init__(self, name):
        os.makedirs(CACHE, exist_ok=True)
        self.path = os.path.join(CACHE, name + ".lock")

    def __enter__(self):
        self.f = open(self.path, "w")
        fcntl.flock(self.f, fcntl.LOCK_EX)
        return self

    def __exit__(self, *a):
        fcntl.flock(self.f, fcntl.LOCK_UN)
        self.f.close()


def run(cmd, cwd=None, env=None, timeout=None, input=None):
    p = subprocess.run(cmd, cwd=cwd, env=env or ENV, stdout=subprocess.PIPE, stderr=subprocess.STDOUT,
                       text=True, timeout=timeout, input=input)
    return p.returncode, p.stdout


def source_hash():
    h = hashlib.sha256()
    root = os.path.join(REPO, "fast-tlsh")
    for base, dirs, files in sorted(os.walk(os.path.join(root, "src"))):
        dirs.sort()
        for f in sorted(files):
            p = os.path.join(base, f)
            h.update(p.encode())
            with open(p, "rb") as fh:
                h.update(fh.read())
    for f in ("Cargo.toml", "build.rs"):
        with open(os.path.join(root, f), "rb") as fh:
            h.update(fh.read())
    return h.hexdigest()[:16]


# ---------------------------------------------------------------------------
# tie 1: translator
# ---------------------------------------------------------------------------
def extract():
    with Lock("extract"):
        rc, out = run([sys.executable, os.path.join(VERIF, "tools", "extract.py")])
    try:
        info = json.loads(out.strip().splitlines()[-1])
    except Exception:
        info = {"changed": [], "failures": ["translator crashed: " + out[-2000:]], "sha": {}}
    info["rc"] = rc
    return info


# ---------------------------------------------------------------------------
# Lean
# ---------------------------------------------------------------------------
def lake_build(targets, timeout=3600):
    with Lock("lake"):
        rc, out = run(["lake", "build"] + list(targets), cwd=LEAN, timeout=timeout)
    return rc == 0, out


def lean_errors(log):
    """First error blocks of a lake build log, for replay files."""
    blocks = []
    for m in re.finditer(r"^error: (.*?)(?=^(?:error|warning|info|trace|✖|✔|⚠)|\Z)", log, re.S | re.M):
        blocks.append(m.group(0).strip()[:1500])
        if len(blocks) >= 8:
            break
    return blocks


def audit_axioms(theorems, imports):
    """#print axioms for every theorem.  Returns {thm: [axioms] | None (missing)}."""
    if not theorems:
        return {}
    os.makedirs(os.path.join(CACHE, "audit"), exist_ok=True)
    tag = hashlib.sha256((",".join(theorems) + "|" + ",".join(imports)).encode()).hexdigest()[:12]
    path = os.path.join(CACHE, "audit", f"Audit_{tag}.lean")
    with open(path, "w") as f:
        for i in imports:
            f.write(f"import {i}\n")
        for t in theorems:
            f.write(f"#print axioms {t}\n")
    with Lock("lake"):
        rc, out = run(["lake", "env", "lean", path], cwd=LEAN, timeout=1800)
    res = {t: None for t in theorems}
    # "'Name' depends on axioms: [a, b]"  |  "'Name' does not depend on any axioms"
    for m in re.finditer(r"'([^']+)' depends on axioms: \[(.*?)\]", out, re.S):
        res[m.group(1)] = [a.strip() for a in m.group(2).replace("\n", " ").split(",") if a.strip()]
    for m in re.finditer(r"'([^']+)' does not depend on any axioms", out):
        res[m.group(1)] = []
    return res, out


def forbidden_tokens(modules):
    """grep the property's Lean files for sorry/admit/axiom/native_decide/…"""
    bad = []
    pat = re.compile(r"\b(sorry|admit|native_decide|implemented_by|unsafe)\b|^\s*axiom\s|maxHeartbeats\s+0\b")
    for m in modules:
        p = os.path.join(LEAN, m.replace(".", "/") + ".lean")
        if not os.path.exists(p):
            continue
        in_block = 0
        for ln, line in enumerate(open(p, encoding="utf-8"), 1):
            # strip comments (line and simple block)
            s = line
            if in_block:
                if "-/" in s:
                    s = s.split("-/", 1)[1]
                    in_block = 0
                else:
                    continue
            while "/-" in s:
                a, b = s.split("/-", 1)
                if "-/" in b:
                    s = a + b.split("-/", 1)[1]
                else:
                    s = a
                    in_block = 1
            s = s.split("--", 1)[0]
            s = re.sub(r'"(?:\\.|[^"\\])*"', '""', s)
            if pat.search(s):
                bad.append(f"{m}:{ln}: {line.strip()[:120]}")
    return bad


def lean_modules_closure(root_modules):
    """Project-local import closure of the given modules."""
    seen, todo = [], list(root_modules)
    while todo:
        m = todo.pop()
        if m in seen:
            continue
        p = os.path.join(LEAN, m.replace(".", "/") + ".lean")
        if not os.path.exists(p):
            continue
        seen.append(m)
        for line in open(p, encoding="utf-8"):
            mm = re.match(r"\s*import\s+(TlshVerif[\w.]*)", line)
            if mm:
                todo.append(mm.group(1))
    return sorted(seen)


# ---------------------------------------------------------------------------
# probe
# ---------------------------------------------------------------------------
def probe_path(cfg):
    prof = CONFIGS[cfg].get("profile", "release")
    sub = "debug" if prof == "dev" else "release"
    return os.path.join(CACHE, "target", cfg, sub, "tlsh-probe")


def build_probe(cfg):
    c = CONFIGS[cfg]
    env = dict(ENV)
    env["RUSTFLAGS"] = ("--cfg fast_tlsh_verif " + c["rustflags"]).strip()
    lock = os.path.join(HARNESS, "Cargo.lock")
    if not os.path.exists(lock):
        shutil.copy(os.path.join(REPO, "Cargo.lock"), lock)
    cmd = ["cargo", "build", "--offline", "--target-dir", os.path.join(CACHE, "target", cfg)]
    if c.get("profile", "release") == "release":
        cmd.append("--release")
    if c["features"]:
        cmd += ["--features", c["features"]]
    with Lock("cargo-" + cfg):
        rc, out = run(cmd, cwd=HARNESS, env=env, timeout=3600)
    return rc == 0, out


def build_probes(cfgs):
    res = {}
    with cf.ThreadPoolExecutor(max_workers=4) as ex:
        futs = {ex.submit(build_probe, c): c for c in cfgs}
        for f in cf.as_completed(futs):
            res[futs[f]] = f.result()
    return res


def run_stream(prop, cfg, stream, seed, budget, extra=()):
    os.makedirs(os.path.join(OPS, prop), exist_ok=True)
    out = os.path.join(OPS, prop, f"{cfg}-{stream}-{seed}.txt")
    cmd = [probe_path(cfg), stream, "--seed", str(seed), "--budget", str(budget), "--out", out] + list(extra)
    t0 = time.time()
    p = subprocess.run(cmd, stdout=subprocess.PIPE, stderr=subprocess.STDOUT, text=True, env=ENV)
    return {"cfg": cfg, "stream": stream, "ops_file": out, "rc": p.returncode,
            "log": p.stdout[-2000:], "probe_s": round(time.time() - t0, 2)}


def localize_crash(prop, cfg, stream, seed, budget, extra=()):
    """The probe process itself died (abort, signal) while running a stream: find the smallest budget
    at which it still dies, so that the replay names one operation.  Streams generate their operations
    sequentially from the seed, so budget k runs exactly the first k operations."""
    def dies(k):
        out = os.path.join(OPS, prop, f"{cfg}-{stream}-{seed}.crash.txt")
        cmd = [probe_path(cfg), stream, "--seed", str(seed), "--budget", str(k), "--out", out] + list(extra)
        p = subprocess.run(cmd, stdout=subprocess.PIPE, stderr=subprocess.STDOUT, text=True, env=ENV)
        return p.returncode != 0, p.returncode, p.stdout[-600:], cmd
    d, rc, log, cmd = dies(budget)
    if not d:
        return None
    lo, hi = 0, budget          # dies(hi) holds; dies(lo) assumed false
    best = (budget, rc, log, cmd)
    while hi - lo > 1:
        mid = (lo + hi) // 2
        d, rc, log, cmd = dies(mid)
        if d:
            hi, best = mid, (mid, rc, log, cmd)
        else:
            lo = mid
    k, rc, log, cmd = best
    return {"operation_index": k, "rc": rc, "log": log,
            "cmd": " ".join(c for c in cmd if not c.endswith(".crash.txt") and c != "--out")}


SUMMARY_RE = re.compile(r"SUMMARY lines=(\d+) ops=(\d+) model_mm=(\d+) spec_mm=(\d+) self_mm=(\d+) unknown=(\d+) oracle=(\d+)")


def save_good_driver():
    try:
        os.makedirs(os.path.dirname(DRIVER_FALLBACK), exist_ok=True)
        shutil.copy2(DRIVER, DRIVER_FALLBACK)
    except OSError:
        pass


_DRIVER_BIN = [DRIVER]


def use_fallback_driver():
    if os.path.exists(DRIVER_FALLBACK):
        _DRIVER_BIN[0] = DRIVER_FALLBACK
        return True
    return False


def run_driver_file(path):
    p = subprocess.run([_DRIVER_BIN[0], path], stdout=subprocess.PIPE, stderr=subprocess.STDOUT, text=True, env=ENV)
    return p.returncode, p.stdout


def oracle_lines(ops_file):
    """ORACLE lines the probe wrote itself (available even without a model driver)."""
    out = []
    try:
        with open(ops_file) as f:
            for i, line in enumerate(f, 1):
                if line.startswith("ORACLE "):
                    out.append(f"OR {i} | {line.rstrip()[:6000]}")
    except OSError:
        pass
    return out


def run_driver(ops_file, shards=8):
    """Run the Lean model driver over an ops file (sharded by lines)."""
    t0 = time.time()
    with open(ops_file) as f:
        lines = f.readlines()
    header = [l for l in lines[:1] if l.startswith("cfg ")]
    body = lines[len(header):]
    n = max(1, min(shards, len(body) // 50 or 1))
    paths = []
    if n == 1:
        paths = [ops_file]
    else:
        # interleave so long inputs spread evenly
        for k in range(n):
            pth = f"{ops_file}.shard{k}"
            with open(pth, "w") as f:
                f.writelines(header)
                f.writelines(body[k::n])
            paths.append(pth)
    tot = {"lines": 0, "ops": 0, "model_mm": 0, "spec_mm": 0, "self_mm": 0, "unknown": 0, "oracle": 0}
    mm, crashed = [], []
    with cf.ThreadPoolExecutor(max_workers=n) as ex:
        for pth, (rc, out) in zip(paths, ex.map(run_driver_file, paths)):
            m = SUMMARY_RE.search(out)
            if rc != 0 or not m:
                crashed.append(out[-1500:])
                continue
            for key, val in zip(tot.keys(), m.groups()):
                tot[key] += int(val)
            for line in out.splitlines():
                if line.startswith(("MM ", "OR ", "UNKNOWN ")):
                    mm.append(line)
    if n > 1:
        for pth in paths:
            try:
                os.remove(pth)
            except OSError:
                pass
    tot["lines"] -= max(0, n - 1) * len(header)
    tot["crashed"] = crashed
    tot["messages"] = mm
    tot["driver_s"] = round(time.time() - t0, 2)
    return tot


def sample_ops(ops_file, k=3, width=300):
    out = []
    try:
        with open(ops_file) as f:
            for i, line in enumerate(f):
                if line.startswith("cfg "):
                    continue
                if len(out) < k or (i % 997 == 0 and len(out) < 2 * k):
                    out.append(line.strip()[:width])
    except OSError:
        pass
    return out


def ops_distribution(ops_file):
    """Cheap distribution facts about an ops transcript (for evidence)."""
    d = {"ops_by_kind": {}, "results": {}, "distinct_ops": 0}
    seen = set()
    try:
        with open(ops_file) as f:
            for line in f:
                if line.startswith("cfg ") or " => " not in line:
                    continue
                lhs, rhs = line.rstrip("\n").split(" => ", 1)
                kind = lhs.split(" ", 1)[0]
                d["ops_by_kind"][kind] = d["ops_by_kind"].get(kind, 0) + 1
                seen.add(hashlib.md5(lhs.encode()).digest())
                for tag in ("ok:", "err:TooLargeInput", "err:TooSmallInput", "err:BucketsAreHalfEmpty",
                            "err:BucketsAreThreeQuarterEmpty", "panic", "err:InvalidStringLength",
                            "err:InvalidPrefix", "err:InvalidCharacter", "err:InvalidChecksum",
                            "err:LengthIsTooLarge", "err:BufferIsTooSmall", "none", "ioerr:"):
                    c = rhs.count(tag)
                    if c:
                        d["results"][tag] = d["results"].get(tag, 0) + c
    except OSError:
        pass
    d["distinct_ops"] = len(seen)
    return d


# ---------------------------------------------------------------------------
# known findings
# ---------------------------------------------------------------------------
def load_known():
    p = os.path.join(VERIF, "known_findings.json")
    if not os.path.exists(p):
        return []
    return json.load(open(p)).get("findings", [])


def write_json(path, obj):
    os.makedirs(os.path.dirname(path), exist_ok=True)
    tmp = path + ".tmp"
    with open(tmp, "w") as f:
        json.dump(obj, f, indent=1, sort_keys=False)
        f.write("\n")
    os.replace(tmp, path)
